"""Native demonstration for F30 (C01): a setup that only runs conditionally (it sits in the then-branch of a SECOND scf.if)
but continues the state of a FIRST scf.if was hoisted into both branches of the first one - it then runs always.
Run:  PYVC_REPO=<tree> /verif/.venv/bin/python findings_demos/F30_hoist_conditional_setup.py   (exit 1 = defect)"""
import sys
sys.path.insert(0, "/verif")
import pyvc.shim  # noqa
from xdsl.context import Context
from xdsl.parser import Parser
from xdsl.dialects import builtin, func, arith, scf
from xdsl.pattern_rewriter import PatternRewriteWalker
from snaxc.dialects import accfg
from snaxc.transforms.accfg_dedup import HoistSetupCallsIntoConditionals

SRC = '''
func.func @f(%c: i1, %d: i1, %a: i32, %b: i32) {
  %s0 = accfg.setup "simple" to ("A" = %a : i32) : !accfg.state<"simple">
  %r = scf.if %c -> (!accfg.state<"simple">) {
    %s1 = accfg.setup "simple" from %s0 to ("A" = %b : i32) : !accfg.state<"simple">
    scf.yield %s1 : !accfg.state<"simple">
  } else {
    scf.yield %s0 : !accfg.state<"simple">
  }
  scf.if %d {
    %s2 = accfg.setup "simple" from %r to ("B" = %b : i32) : !accfg.state<"simple">
    scf.yield
  }
  func.return
}
'''
ctx = Context()
for dl in (builtin.Builtin, func.Func, arith.Arith, scf.Scf, accfg.ACCFG):
    ctx.load_dialect(dl)
m = Parser(ctx, SRC).parse_module()
PatternRewriteWalker(HoistSetupCallsIntoConditionals()).rewrite_module(m)
ifs = [o for o in m.walk() if isinstance(o, scf.IfOp)]
first = ifs[0]
n_b = sum(1 for o in first.walk() if isinstance(o, accfg.SetupOp) and any(p.data == "B" for p in o.param_names))
print("setups writing B inside the FIRST scf.if:", n_b)
if n_b:
    print("DEFECT: the conditional write of B now happens on every path")
    sys.exit(1)
print("ok: left in its own conditional")
