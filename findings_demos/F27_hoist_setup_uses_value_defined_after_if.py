"""Native demonstration for F27 (C01): HoistSetupCallsIntoConditionals cloned a setup into the branches of the preceding
scf.if although the value it writes is computed AFTER the scf.if: the copies use a value that does not exist yet.
Run:  PYVC_REPO=<tree> /verif/.venv/bin/python findings_demos/F27_hoist_setup_uses_value_defined_after_if.py   (exit 1 = defect)"""
import sys
sys.path.insert(0, "/verif")
import pyvc.shim  # noqa
from xdsl.context import Context
from xdsl.parser import Parser
from xdsl.dialects import builtin, func, arith, scf
from xdsl.pattern_rewriter import PatternRewriteWalker
from snaxc.dialects import accfg
from snaxc.transforms.accfg_dedup import HoistSetupCallsIntoConditionals

SRC = '''
func.func @f(%c: i1, %a: i32) {
  %s0 = accfg.setup "simple" to ("A" = %a : i32) : !accfg.state<"simple">
  %r = scf.if %c -> (!accfg.state<"simple">) {
    %s1 = accfg.setup "simple" from %s0 to ("A" = %a : i32) : !accfg.state<"simple">
    scf.yield %s1 : !accfg.state<"simple">
  } else {
    scf.yield %s0 : !accfg.state<"simple">
  }
  %k = arith.constant 7 : i32
  %v = arith.addi %a, %k : i32
  %s2 = accfg.setup "simple" from %r to ("B" = %v : i32) : !accfg.state<"simple">
  func.return
}
'''
ctx = Context()
for d in (builtin.Builtin, func.Func, arith.Arith, scf.Scf, accfg.ACCFG):
    ctx.load_dialect(d)
m = Parser(ctx, SRC).parse_module()
PatternRewriteWalker(HoistSetupCallsIntoConditionals()).rewrite_module(m)
if_op = next(o for o in m.walk() if isinstance(o, scf.IfOp))
blk = if_op.parent_block()
bad = 0
for inner in if_op.walk():
    if isinstance(inner, accfg.SetupOp):
        for v in inner.values:
            d = v.owner
            if hasattr(d, "parent_block") and d.parent_block() is blk and blk.get_operation_index(d) > blk.get_operation_index(if_op):
                print("a setup inside the scf.if uses", d.name, "which is defined AFTER the scf.if")
                bad += 1
if bad:
    print("DEFECT: use before definition")
    sys.exit(1)
print("ok: not hoisted")
