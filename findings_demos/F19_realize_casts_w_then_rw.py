"""Native demonstration for F19 (C12): a cast value written by one op and then read+written by a later op.
Run:  PYVC_REPO=<tree> /verif/.venv/bin/python findings_demos/F19_realize_casts_w_then_rw.py
exit 1 when the copy-in lands AFTER the first writer (its result is overwritten by the stale original)."""
import os, sys, io, contextlib
sys.path.insert(0, "/verif")
import pyvc.shim  # noqa
from xdsl.context import Context
from xdsl.parser import Parser
from xdsl.dialects import builtin, func, linalg, memref, arith
from snaxc.dialects.snax import Snax
from snaxc.transforms.realize_memref_casts import RealizeMemrefCastsPass

SRC = '''
func.func @f(%a: memref<8xi32, "L3">, %b: memref<8xi32, "L1">) {
  %c = "memref.memory_space_cast"(%a) : (memref<8xi32, "L3">) -> memref<8xi32, "L1">
  linalg.generic {indexing_maps = [affine_map<(d0) -> (d0)>, affine_map<(d0) -> (d0)>], iterator_types = ["parallel"]} ins(%b : memref<8xi32, "L1">) outs(%c : memref<8xi32, "L1">) {
  ^bb0(%x: i32, %y: i32):
    linalg.yield %x : i32
  }
  linalg.generic {indexing_maps = [affine_map<(d0) -> (d0)>, affine_map<(d0) -> (d0)>], iterator_types = ["parallel"]} ins(%c : memref<8xi32, "L1">) outs(%c : memref<8xi32, "L1">) {
  ^bb0(%x: i32, %y: i32):
    linalg.yield %x : i32
  }
  func.return
}
'''
ctx = Context()
for d in (builtin.Builtin, func.Func, linalg.Linalg, memref.MemRef, arith.Arith, Snax):
    ctx.load_dialect(d)
m = Parser(ctx, SRC).parse_module()
RealizeMemrefCastsPass().apply(ctx, m)
ops = [o for o in m.body.block.first_op.body.block.ops]
names = [o.name for o in ops]
print(names)
first_writer = next(i for i, o in enumerate(ops) if isinstance(o, linalg.GenericOp))
copy_in = next(i for i, o in enumerate(ops) if isinstance(o, memref.CopyOp))
alloc = next(o for o in ops if isinstance(o, memref.AllocOp))
assert ops[copy_in].destination is alloc.results[0], "first copy is the copy-in"
if copy_in > first_writer:
    print("DEFECT: copy-in (original -> stand-in) is placed after the first writer of the stand-in: its result is lost")
    sys.exit(1)
print("ok: copy-in precedes every user of the stand-in")
