"""Native demonstration for F21 (C13): producer nested one region level deeper than its consumer inside an scf.for.
Run:  PYVC_REPO=<tree> /verif/.venv/bin/python findings_demos/F21_sync_barrier_nested_backedge.py
exit 1 when no barrier separates the compute op of iteration k from the copy of iteration k+1 (loop back-edge)."""
import sys
sys.path.insert(0, "/verif")
import pyvc.shim  # noqa
from xdsl.parser import Parser
from xdsl.dialects import builtin, func, linalg, memref, arith, scf
from snaxc.accelerators.acc_context import AccContext
from snaxc.dialects.snax import Snax, ClusterSyncOp
from snaxc.transforms.insert_sync_barrier import InsertSyncBarrier

SRC = '''
func.func @f(%a: memref<8xi32>, %b: memref<8xi32>, %c: i1) {
  %lb = arith.constant 0 : index
  %ub = arith.constant 4 : index
  %st = arith.constant 1 : index
  scf.for %i = %lb to %ub step %st {
    scf.if %c {
      "memref.copy"(%a, %b) : (memref<8xi32>, memref<8xi32>) -> ()
      scf.yield
    }
    linalg.generic {indexing_maps = [affine_map<(d0) -> (d0)>, affine_map<(d0) -> (d0)>], iterator_types = ["parallel"]} ins(%b : memref<8xi32>) outs(%b : memref<8xi32>) {
    ^bb0(%x: i32, %y: i32):
      linalg.yield %x : i32
    }
    scf.yield
  }
  func.return
}
'''
ctx = AccContext()
for d in (builtin.Builtin, func.Func, linalg.Linalg, memref.MemRef, arith.Arith, scf.Scf, Snax):
    ctx.load_dialect(d)
m = Parser(ctx, SRC).parse_module()
InsertSyncBarrier().apply(ctx, m)
loop = next(o for o in m.walk() if isinstance(o, scf.ForOp))
body = list(loop.body.block.ops)
print([o.name for o in body])
gen = next(i for i, o in enumerate(body) if o.name == "linalg.generic")
if not any(isinstance(o, ClusterSyncOp) for o in body[gen + 1:]):
    print("DEFECT: no barrier between the compute op and the end of the loop body: the copy of the next iteration "
          "(data-mover core) may overwrite the buffer the compute core is still using")
    sys.exit(1)
print("ok: the back-edge is covered by a barrier")
