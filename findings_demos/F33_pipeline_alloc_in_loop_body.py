"""Native demonstration for F33 (C15): a buffer allocated INSIDE the loop body (among the index computations) and shared by
two stages.  construct-pipeline moves the alloc into the pipeline's index op; every stage instance of the unrolled
pipeline runs its own copy of the index ops, so the load stage writes one fresh buffer and the compute stage reads
another one that nobody ever wrote.
Run:  PYVC_REPO=<tree> /verif/.venv/bin/python findings_demos/F33_pipeline_alloc_in_loop_body.py
exit 1 when, after construct-pipeline + pipeline-duplicate-buffers + unroll-pipeline, the compute op in the steady-state
loop reads a buffer that no copy in the whole function writes."""
import sys
sys.path.insert(0, "/verif")
import pyvc.shim  # noqa
from xdsl.parser import Parser
from xdsl.dialects import builtin, func, linalg, memref, arith, scf, test
from snaxc.accelerators.acc_context import AccContext
from snaxc.dialects.snax import Snax
from snaxc.dialects.pipeline import Pipeline
from snaxc.transforms.pipeline.construct_pipeline import ConstructPipelinePass
from snaxc.transforms.pipeline.pipeline_duplicate_buffers import PipelineDuplicateBuffersPass
from snaxc.transforms.pipeline.unroll_pipeline import UnrollPipelinePass

T = '''
func.func @f(%a: memref<8xi32>, %c: memref<8xi32>) {
  %lb = arith.constant 0 : index
  %ub = arith.constant 10 : index
  %st = arith.constant 1 : index
  scf.for %i = %lb to %ub step %st {
    %x = "test.op"(%i) : (index) -> index
    %b = memref.alloc() : memref<8xi32>
    "memref.copy"(%a, %b) : (memref<8xi32>, memref<8xi32>) -> ()
    "snax.cluster_sync_op"() : () -> ()
    linalg.generic {indexing_maps = [affine_map<(d0) -> (d0)>, affine_map<(d0) -> (d0)>], iterator_types = ["parallel"]} ins(%b : memref<8xi32>) outs(%c : memref<8xi32>) {
    ^bb0(%u: i32, %v: i32):
      linalg.yield %u : i32
    }
    "snax.cluster_sync_op"() : () -> ()
    scf.yield
  }
  func.return
}
'''


def sources(v):
    """the allocations a (select of) buffer value can stand for"""
    if isinstance(v.owner, arith.SelectOp):
        return sources(v.owner.operands[1]) + sources(v.owner.operands[2])
    return [v]


ctx = AccContext()
for d in (builtin.Builtin, func.Func, linalg.Linalg, memref.MemRef, arith.Arith, scf.Scf, Snax, test.Test, Pipeline):
    ctx.load_dialect(d)
m = Parser(ctx, T).parse_module()
for p in (ConstructPipelinePass(), PipelineDuplicateBuffersPass(), UnrollPipelinePass()):
    p.apply(ctx, m)
written = [s for o in m.walk() if isinstance(o, memref.CopyOp) for s in sources(o.destination)]
gens = [o for o in m.walk() if type(o).__name__ == "GenericOp"]
bad = 0
for g in gens:
    read = sources(g.operands[0])
    if not any(r is w for r in read for w in written):
        bad += 1
print(f"pipelined={len(gens) > 1}; compute ops reading a buffer no copy writes: {bad} of {len(gens)}")
if bad:
    print("DEFECT: producer and consumer stage of one iteration no longer share the buffer allocated in the loop body")
    sys.exit(1)
print("ok")
