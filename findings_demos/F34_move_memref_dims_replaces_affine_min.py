"""Native demonstration for F34 (C17): reuse-memref-allocs hoists `memref.dim` of a tile whose size is an `affine.min`
(full tile size, or what is left of the dimension) by taking the FIRST result of the min map as THE size - and replaces
EVERY use of the affine.min by that constant, not only the hoisted allocation's size: the subview that cuts the tile (and
with it the kernel working on the tile) now takes a full tile in the last, partial iteration as well.
Run:  PYVC_REPO=<tree> /verif/.venv/bin/python findings_demos/F34_move_memref_dims_replaces_affine_min.py
exit 1 when, after the pass, the in-loop subview no longer takes its size from the affine.min (for a 10-wide dimension
tiled by 8 the second tile is 2 wide in the original program, 8 wide - out of bounds - afterwards).
The repository's own lit expectation (tests/filecheck/transforms/reuse-memref-allocs.mlir, @streamer_matmul_6) shows the
replaced size, i.e. encodes the behaviour."""
import sys
sys.path.insert(0, "/verif")
import pyvc.shim  # noqa
from xdsl.context import Context
from xdsl.dialects import affine, arith, builtin, func, memref, scf, test
from xdsl.parser import Parser
from snaxc.dialects.tsl import TSL
from snaxc.transforms.reuse_memref_allocs import ReuseMemrefAllocs

IR = '''
builtin.module {
  func.func @tiles(%arg0 : memref<?x?xi8, "L3">, %arg1 : memref<?x?xi32, "L3">, %n : index) {
    %c8 = arith.constant 8 : index
    %c1 = arith.constant 1 : index
    %c0 = arith.constant 0 : index
    scf.for %i = %c0 to %n step %c8 {
      %cols = "memref.dim"(%arg0, %c1) : (memref<?x?xi8, "L3">, index) -> index
      %rows = "affine.min"(%i, %n) <{"map" = affine_map<(d0)[s0] -> (8, ((d0 * -1) + s0))>}> : (index, index) -> index
      %tile = memref.subview %arg1[%i, %c0] [%rows, %cols] [1, 1] : memref<?x?xi32, "L3"> to memref<?x?xi32, strided<[?, 1], offset: ?>>
      "test.op"(%tile) : (memref<?x?xi32, strided<[?, 1], offset: ?>>) -> ()
      %d = "memref.dim"(%tile, %c0) : (memref<?x?xi32, strided<[?, 1], offset: ?>>, index) -> index
      %buf = memref.alloc(%d, %cols) {"alignment" = 64 : i64} : memref<?x?xi8, "L1">
    }
    func.return
  }
}
'''
ctx = Context()
for d in (builtin.Builtin, func.Func, memref.MemRef, arith.Arith, scf.Scf, affine.Affine, test.Test, TSL):
    ctx.load_dialect(d)
m = Parser(ctx, IR).parse_module()
ReuseMemrefAllocs().apply(ctx, m)
sub = [o for o in m.walk() if isinstance(o, memref.SubviewOp)][0]
size0 = sub.sizes[0].owner
print("row size of the tile after the pass comes from:", size0.name, getattr(getattr(size0, "value", None), "value", ""))
if not isinstance(size0, affine.MinOp):
    print("DEFECT: the tile cut in the last, partial iteration is a full tile (the affine.min was replaced everywhere)")
    sys.exit(1)
print("ok")
