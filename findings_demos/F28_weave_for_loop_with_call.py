"""Native demonstration for F28 (C07): scf.for bodies that call a function (which may reconfigure the accelerators).
  (a) setup(A,B); for { call }; setup(A)      -> the last setup was linked `from` the pre-loop setup: B assumed unchanged
  (b) for { setup; call }                     -> KeyError in the state tracing
Run:  PYVC_REPO=<tree> /verif/.venv/bin/python findings_demos/F28_weave_for_loop_with_call.py   (exit 1 = defect)"""
import sys
sys.path.insert(0, "/verif")
import pyvc.shim  # noqa
from xdsl.context import Context
from xdsl.parser import Parser
from xdsl.dialects import builtin, func, arith, scf
from snaxc.dialects import accfg
from snaxc.transforms.convert_linalg_to_accfg import TraceStatesPass

A = '''
func.func private @ext() -> ()
func.func @f(%a: i32, %b: i32, %lb: index, %ub: index, %st: index) {
  %s0 = accfg.setup "simple" to ("A" = %a : i32, "B" = %b : i32) : !accfg.state<"simple">
  scf.for %i = %lb to %ub step %st {
    func.call @ext() : () -> ()
    scf.yield
  }
  %s1 = accfg.setup "simple" to ("A" = %b : i32) : !accfg.state<"simple">
  func.return
}
'''
B = '''
func.func private @ext() -> ()
func.func @g(%a: i32, %lb: index, %ub: index, %st: index) {
  scf.for %i = %lb to %ub step %st {
    %s = accfg.setup "simple" to ("A" = %a : i32) : !accfg.state<"simple">
    func.call @ext() : () -> ()
    scf.yield
  }
  func.return
}
'''
bad = 0
for name, src in (("a", A), ("b", B)):
    ctx = Context()
    for d in (builtin.Builtin, func.Func, arith.Arith, scf.Scf, accfg.ACCFG):
        ctx.load_dialect(d)
    m = Parser(ctx, src).parse_module()
    try:
        TraceStatesPass().apply(ctx, m)
    except KeyError as e:
        print(f"({name}) state tracing crashed with KeyError {e}")
        bad += 1
        continue
    setups = [o for o in m.walk() if isinstance(o, accfg.SetupOp)]
    last = setups[-1]
    if name == "a" and last.in_state is not None:
        print("(a) the setup after the loop is linked to the state from BEFORE the loop although the loop body calls a function")
        bad += 1
if bad:
    print("DEFECT")
    sys.exit(1)
print("ok")
