"""Native demonstration for F22 (C13): a barrier inside a conditionally executed region clears the pending
synchronisation of operations OUTSIDE that region.
Run:  PYVC_REPO=<tree> /verif/.venv/bin/python findings_demos/F22_sync_barrier_conditional_clears_pending.py
exit 1 when the compute op after the scf.if has no barrier of its own (path with the branch not taken: copy -> generic
with no barrier in between)."""
import sys
sys.path.insert(0, "/verif")
import pyvc.shim  # noqa
from xdsl.parser import Parser
from xdsl.dialects import builtin, func, linalg, memref, arith, scf
from snaxc.accelerators.acc_context import AccContext
from snaxc.dialects.snax import Snax, ClusterSyncOp
from snaxc.transforms.insert_sync_barrier import InsertSyncBarrier

SRC = '''
func.func @f(%a: memref<8xi32>, %b: memref<8xi32>, %c: i1) {
  "memref.copy"(%a, %b) : (memref<8xi32>, memref<8xi32>) -> ()
  scf.if %c {
    "test.op"(%b) : (memref<8xi32>) -> ()
    scf.yield
  }
  linalg.generic {indexing_maps = [affine_map<(d0) -> (d0)>, affine_map<(d0) -> (d0)>], iterator_types = ["parallel"]} ins(%b : memref<8xi32>) outs(%b : memref<8xi32>) {
  ^bb0(%x: i32, %y: i32):
    linalg.yield %x : i32
  }
  func.return
}
'''
from xdsl.dialects import test
ctx = AccContext()
for d in (builtin.Builtin, func.Func, linalg.Linalg, memref.MemRef, arith.Arith, scf.Scf, Snax, test.Test):
    ctx.load_dialect(d)
m = Parser(ctx, SRC).parse_module()
InsertSyncBarrier().apply(ctx, m)
body = list(m.body.block.first_op.body.block.ops)
print([o.name for o in body])
gen = next(i for i, o in enumerate(body) if o.name == "linalg.generic")
cp = next(i for i, o in enumerate(body) if o.name == "memref.copy")
if not any(isinstance(o, ClusterSyncOp) for o in body[cp + 1:gen]):
    print("DEFECT: the only barrier between the copy (data-mover core) and the generic (compute core) sits inside the scf.if: "
          "when the branch is not taken nothing orders the two")
    sys.exit(1)
print("ok: a barrier at function-body level separates the copy from the generic")
