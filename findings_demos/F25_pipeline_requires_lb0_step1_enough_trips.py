"""Native demonstration for F25 (C15): construct-pipeline turned ANY loop of the recognised body shape into a pipeline,
although the unrolled form numbers iterations 0, 1, 2, ... (lb = 0, step = 1) and needs stages-1 iterations.
Run:  PYVC_REPO=<tree> /verif/.venv/bin/python findings_demos/F25_pipeline_requires_lb0_step1_enough_trips.py
exit 1 when a loop with lb = 4 / step = 2, or a 3-stage loop with ONE iteration, is pipelined: after unroll-pipeline the
prologue works on index 0 and 1 (the loop starts at 4; resp. iteration 1 does not exist)."""
import sys
sys.path.insert(0, "/verif")
import pyvc.shim  # noqa
from xdsl.parser import Parser
from xdsl.dialects import builtin, func, linalg, memref, arith, scf, test
from snaxc.accelerators.acc_context import AccContext
from snaxc.dialects.snax import Snax
from snaxc.dialects.pipeline import Pipeline, PipelineOp
from snaxc.transforms.pipeline.construct_pipeline import ConstructPipelinePass

TEMPLATE = '''
func.func @f(%a: memref<8xi32>, %b: memref<8xi32>, %c: memref<8xi32>, %d: memref<8xi32>) {
  %lb = arith.constant LB : index
  %ub = arith.constant UB : index
  %st = arith.constant ST : index
  scf.for %i = %lb to %ub step %st {
    %x = "test.op"(%i) : (index) -> index
    "memref.copy"(%a, %b) : (memref<8xi32>, memref<8xi32>) -> ()
    "snax.cluster_sync_op"() : () -> ()
    "memref.copy"(%b, %c) : (memref<8xi32>, memref<8xi32>) -> ()
    "snax.cluster_sync_op"() : () -> ()
    "memref.copy"(%c, %d) : (memref<8xi32>, memref<8xi32>) -> ()
    "snax.cluster_sync_op"() : () -> ()
    scf.yield
  }
  func.return
}
'''
bad = 0
for name, lb, ub, st, expect in (("lb=0 step=1 ub=10 (supported)", 0, 10, 1, True), ("lb=4 step=2", 4, 20, 2, False), ("3 stages, 1 iteration", 0, 1, 1, False)):
    ctx = AccContext()
    for d in (builtin.Builtin, func.Func, linalg.Linalg, memref.MemRef, arith.Arith, scf.Scf, Snax, test.Test, Pipeline):
        ctx.load_dialect(d)
    m = Parser(ctx, TEMPLATE.replace("LB", str(lb)).replace("UB", str(ub)).replace("ST", str(st))).parse_module()
    ConstructPipelinePass().apply(ctx, m)
    got = any(isinstance(o, PipelineOp) for o in m.walk())
    print(f"{name}: pipelined={got} (a valid unrolled form exists: {expect})")
    if got and not expect:
        bad += 1
if bad:
    print("DEFECT: loops the unrolled form is wrong for are pipelined")
    sys.exit(1)
print("ok")
