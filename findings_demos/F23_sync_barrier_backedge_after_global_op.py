"""Native demonstration for F23 (C13, open): for { copy(in -> a); "test.op"(a) } gets `copy; barrier; test.op` and
nothing before the yield, so test.op of iteration k (it runs on EVERY core, the compute core included) is not ordered
with the copy of iteration k+1 on the data-mover core.
Run:  PYVC_REPO=<tree> /verif/.venv/bin/python findings_demos/F23_sync_barrier_backedge_after_global_op.py   (exit 1 = defect present)"""
import sys
sys.path.insert(0, "/verif")
import pyvc.shim  # noqa
from xdsl.parser import Parser
from xdsl.dialects import builtin, func, linalg, memref, arith, scf, test
from snaxc.accelerators.acc_context import AccContext
from snaxc.dialects.snax import Snax, ClusterSyncOp
from snaxc.transforms.insert_sync_barrier import InsertSyncBarrier

SRC = '''
func.func @f(%in: memref<8xi32>, %a: memref<8xi32>) {
  %lb = arith.constant 0 : index
  %ub = arith.constant 4 : index
  %st = arith.constant 1 : index
  scf.for %i = %lb to %ub step %st {
    "memref.copy"(%in, %a) : (memref<8xi32>, memref<8xi32>) -> ()
    "test.op"(%a) : (memref<8xi32>) -> ()
    scf.yield
  }
  func.return
}
'''
ctx = AccContext()
for d in (builtin.Builtin, func.Func, linalg.Linalg, memref.MemRef, arith.Arith, scf.Scf, Snax, test.Test):
    ctx.load_dialect(d)
m = Parser(ctx, SRC).parse_module()
InsertSyncBarrier().apply(ctx, m)
loop = next(o for o in m.walk() if isinstance(o, scf.ForOp))
body = list(loop.body.block.ops)
print([o.name for o in body])
t = next(i for i, o in enumerate(body) if o.name == "test.op")
if not any(isinstance(o, ClusterSyncOp) for o in body[t + 1:]):
    print("DEFECT (open finding F23): no barrier between test.op and the end of the loop body")
    sys.exit(1)
print("ok")
