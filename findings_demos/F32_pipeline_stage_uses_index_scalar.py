"""Native demonstration for F32 (C15): a stage op that takes a per-iteration value OTHER than a buffer - a scalar computed
by the index computations (here `arith.index_cast %i`), or the loop index itself - kept using that value directly.  Buffers
become stage arguments and are re-bound per stage by unroll-pipeline (stage k works on iteration i-k); the scalar is not:
after unrolling, the compute stage of iteration i-1 adds the scalar of iteration i, and the epilogue uses a value defined
inside the loop.
Run:  PYVC_REPO=<tree> /verif/.venv/bin/python findings_demos/F32_pipeline_stage_uses_index_scalar.py
exit 1 when, after construct-pipeline + pipeline-duplicate-buffers + unroll-pipeline, some linalg.generic takes its scalar
from another index clone than its buffer (steady state), or from inside the loop while sitting behind it (epilogue)."""
import sys
sys.path.insert(0, "/verif")
import pyvc.shim  # noqa
from xdsl.parser import Parser
from xdsl.dialects import builtin, func, linalg, memref, arith, scf, test
from snaxc.accelerators.acc_context import AccContext
from snaxc.dialects.snax import Snax
from snaxc.dialects.pipeline import Pipeline
from snaxc.transforms.pipeline.construct_pipeline import ConstructPipelinePass
from snaxc.transforms.pipeline.pipeline_duplicate_buffers import PipelineDuplicateBuffersPass
from snaxc.transforms.pipeline.unroll_pipeline import UnrollPipelinePass

T = '''
func.func @f(%a: memref<8xi32>, %c: memref<8xi32>) {
  %b = memref.alloc() : memref<8xi32>
  %lb = arith.constant 0 : index
  %ub = arith.constant 10 : index
  %st = arith.constant 1 : index
  scf.for %i = %lb to %ub step %st {
    %x = arith.index_cast %i : index to i32
    "memref.copy"(%a, %b) : (memref<8xi32>, memref<8xi32>) -> ()
    "snax.cluster_sync_op"() : () -> ()
    linalg.generic {indexing_maps = [affine_map<(d0) -> ()>, affine_map<(d0) -> (d0)>, affine_map<(d0) -> (d0)>], iterator_types = ["parallel"]} ins(SCALAR, %b : TYPE, memref<8xi32>) outs(%c : memref<8xi32>) {
    ^bb0(%s: TYPE, %u: i32, %v: i32):
      linalg.yield %u : i32
    }
    "snax.cluster_sync_op"() : () -> ()
    scf.yield
  }
  func.return
}
'''


def root_index(v):
    """the loop-index expression a value is computed from: follow single-operand / (x - const) chains"""
    seen = 0
    while isinstance(v.owner, (arith.IndexCastOp, arith.RemUIOp, arith.CmpiOp, arith.SelectOp)) and seen < 10:
        o = v.owner
        v = o.operands[1] if isinstance(o, arith.CmpiOp) else o.operands[0]
        seen += 1
    return v


bad = 0
for name, scalar, typ in (("scalar computed by an index op", "%x", "i32"), ("the loop index itself", "%i", "index")):
    ctx = AccContext()
    for d in (builtin.Builtin, func.Func, linalg.Linalg, memref.MemRef, arith.Arith, scf.Scf, Snax, test.Test, Pipeline):
        ctx.load_dialect(d)
    m = Parser(ctx, T.replace("SCALAR", scalar).replace("TYPE", typ)).parse_module()
    for p in (ConstructPipelinePass(), PipelineDuplicateBuffersPass(), UnrollPipelinePass()):
        p.apply(ctx, m)
    loops = [o for o in m.walk() if isinstance(o, scf.ForOp)]
    gens = [o for o in m.walk() if isinstance(o, linalg.GenericOp)]
    pipelined = len(gens) > 1
    wrong = []
    for g in gens:
        s_root, b_root = root_index(g.operands[0]), root_index(g.operands[1])
        in_loop = any(l.is_ancestor(g) for l in loops)
        s_in_loop = any(l.is_ancestor(s_root.owner) if not isinstance(s_root.owner, type(loops[0].body.block)) else s_root.owner is l.body.block for l in loops)
        if pipelined and in_loop and s_root is not b_root:
            wrong.append("steady state: scalar from %s, buffer selected by %s" % (s_root.name_hint, b_root.name_hint))
        if pipelined and not in_loop and s_in_loop:
            wrong.append("epilogue: scalar defined inside the loop")
    print(f"{name}: pipelined={pipelined} {wrong}")
    bad += bool(wrong)
if bad:
    print("DEFECT: a pipelined stage takes a per-iteration scalar of the wrong iteration")
    sys.exit(1)
print("ok")
