"""Native demonstration for F24 (C06): a launch on the loop-carried state, guarded by an scf.if, IN FRONT of the first
setup of the loop body.  Hoisting that setup to the end of the previous iteration makes the guarded launch of iteration
k observe the registers of iteration k instead of those left by iteration k-1.
Run:  PYVC_REPO=<tree> /verif/.venv/bin/python findings_demos/F24_overlap_guarded_launch_before_setup.py
exit 1 when the loop-level pattern fires on this loop (the setup is no longer in front of the unconditional launch)."""
import sys
sys.path.insert(0, "/verif")
import pyvc.shim  # noqa
from xdsl.context import Context
from xdsl.parser import Parser
from xdsl.dialects import builtin, func, arith, scf
from snaxc.dialects import accfg
from snaxc.transforms.accfg_config_overlap import AccfgConfigOverlapPass

SRC = '''
func.func @f(%c: i1, %lb: index, %ub: index, %st: index) {
  %s0 = accfg.setup "simple" to () : !accfg.state<"simple">
  %r = scf.for %i = %lb to %ub step %st iter_args(%l0 = %s0) -> (!accfg.state<"simple">) {
    scf.if %c {
      %tg = "accfg.launch"(%l0) <{param_names = [], accelerator = "simple"}> : (!accfg.state<"simple">) -> !accfg.token<"simple">
      "accfg.await"(%tg) : (!accfg.token<"simple">) -> ()
      scf.yield
    }
    %l1 = accfg.setup "simple" from %l0 to ("i" = %i : index) : !accfg.state<"simple">
    %t = "accfg.launch"(%l1) <{param_names = [], accelerator = "simple"}> : (!accfg.state<"simple">) -> !accfg.token<"simple">
    "accfg.await"(%t) : (!accfg.token<"simple">) -> ()
    scf.yield %l1 : !accfg.state<"simple">
  }
  func.return
}
'''
ctx = Context()
for d in (builtin.Builtin, func.Func, arith.Arith, scf.Scf, accfg.ACCFG):
    ctx.load_dialect(d)
m = Parser(ctx, SRC).parse_module()
AccfgConfigOverlapPass().apply(ctx, m)
loop = next(o for o in m.walk() if isinstance(o, scf.ForOp))
body = [o.name for o in loop.body.block.ops]
print(body)
first_launch = body.index("accfg.launch")
if "accfg.setup" not in body[:first_launch]:
    print("DEFECT: the setup of iteration k was hoisted into iteration k-1 although a (guarded) launch in front of it "
          "still has to observe the registers left by iteration k-1")
    sys.exit(1)
print("ok: the loop is left alone")
