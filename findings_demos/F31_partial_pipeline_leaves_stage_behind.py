"""Native demonstration for F31 (C15): construct-pipeline stopped collecting stages at the first op that is neither a
stage op nor a barrier and built a pipeline from the stages found SO FAR; the rest of the body (e.g. the output subview
taken late, and the store stage using it) stayed in the loop next to the pipeline.  After unroll-pipeline the store of
iteration i writes the result of iteration i-1 to tile i, and the last result is never stored.
Run:  PYVC_REPO=<tree> /verif/.venv/bin/python findings_demos/F31_partial_pipeline_leaves_stage_behind.py
exit 1 when such a loop is pipelined AND the ops left behind are out of step with it (checked structurally: a stage op
of the original body is neither inside the pipeline nor is the loop left alone)."""
import sys
sys.path.insert(0, "/verif")
import pyvc.shim  # noqa
from xdsl.parser import Parser
from xdsl.dialects import builtin, func, linalg, memref, arith, scf, test
from snaxc.accelerators.acc_context import AccContext
from snaxc.dialects.snax import Snax
from snaxc.dialects.pipeline import Pipeline, PipelineOp
from snaxc.transforms.pipeline.construct_pipeline import ConstructPipelinePass

BODIES = {
    "whole body is stages (supported)": '''
    %x = "test.op"(%i) : (index) -> index
    "memref.copy"(%a, %b) : (memref<8xi32>, memref<8xi32>) -> ()
    "snax.cluster_sync_op"() : () -> ()
    "memref.copy"(%b, %c) : (memref<8xi32>, memref<8xi32>) -> ()
    "snax.cluster_sync_op"() : () -> ()
    "memref.copy"(%c, %d) {tag = "store"} : (memref<8xi32>, memref<8xi32>) -> ()
    "snax.cluster_sync_op"() : () -> ()''',
    "index computation in front of the last stage": '''
    %x = "test.op"(%i) : (index) -> index
    "memref.copy"(%a, %b) : (memref<8xi32>, memref<8xi32>) -> ()
    "snax.cluster_sync_op"() : () -> ()
    "memref.copy"(%b, %c) : (memref<8xi32>, memref<8xi32>) -> ()
    "snax.cluster_sync_op"() : () -> ()
    %y = "test.op"(%i) : (index) -> index
    "memref.copy"(%c, %d) {tag = "store"} : (memref<8xi32>, memref<8xi32>) -> ()
    "snax.cluster_sync_op"() : () -> ()''',
    "last stage without barrier, then an index computation": '''
    %x = "test.op"(%i) : (index) -> index
    "memref.copy"(%a, %b) : (memref<8xi32>, memref<8xi32>) -> ()
    "snax.cluster_sync_op"() : () -> ()
    "memref.copy"(%b, %c) : (memref<8xi32>, memref<8xi32>) -> ()
    "snax.cluster_sync_op"() : () -> ()
    "memref.copy"(%c, %d) {tag = "store"} : (memref<8xi32>, memref<8xi32>) -> ()
    %y = "test.op"(%i) : (index) -> index''',
}
TEMPLATE = '''
func.func @f(%a: memref<8xi32>, %b: memref<8xi32>, %c: memref<8xi32>, %d: memref<8xi32>) {
  %lb = arith.constant 0 : index
  %ub = arith.constant 10 : index
  %st = arith.constant 1 : index
  scf.for %i = %lb to %ub step %st {BODY
    scf.yield
  }
  func.return
}
'''
bad = 0
for name, body in BODIES.items():
    ctx = AccContext()
    for d in (builtin.Builtin, func.Func, linalg.Linalg, memref.MemRef, arith.Arith, scf.Scf, Snax, test.Test, Pipeline):
        ctx.load_dialect(d)
    m = Parser(ctx, TEMPLATE.replace("BODY", body)).parse_module()
    ConstructPipelinePass().apply(ctx, m)
    pipes = [o for o in m.walk() if isinstance(o, PipelineOp)]
    store = [o for o in m.walk() if isinstance(o, memref.CopyOp) and "tag" in o.attributes][0]
    inside = any(p.is_ancestor(store) for p in pipes)
    print(f"{name}: pipelined={bool(pipes)} store stage inside the pipeline={inside}")
    if pipes and not inside:
        bad += 1
if bad:
    print("DEFECT: a pipeline was built from part of the body; the store stage left behind runs one iteration out of step")
    sys.exit(1)
print("ok")
