"""Native demonstration for F29 (C20): a kernel that uses one value for both operands (a*a) is merged first, then a*b is
decoded against the merged PE.  ChooseOp.from_operations cloned the multiplication with a value mapper built from
zip(op.operands, block.args): with a repeated operand both operands map to the LAST block argument, so the 'mul'
alternative computes arg1*arg1 and ignores its first operand.
Run:  PYVC_REPO=<tree> /verif/.venv/bin/python findings_demos/F29_phs_choose_op_repeated_operand.py   (exit 1 = defect)"""
import sys
sys.path.insert(0, "/verif")
import pyvc.shim  # noqa
from xdsl.dialects import arith
from xdsl.dialects.builtin import i32
from xdsl.ir import Block, Region
from snaxc.dialects import phs
from snaxc.phs.combine import append_to_abstract_graph
from snaxc.phs.decode import decode_abstract_graph


def kernel(name, first, second):
    pe = phs.PEOp(name, ([i32, i32], [i32]), 0, Region(Block(arg_types=[i32, i32])))
    blk = pe.body.block
    op = arith.MuliOp(blk.args[first], blk.args[second])
    ch = phs.ChooseOp.from_operations("i_i32_i32_o_i32_0", [blk.args[first], blk.args[second]], pe.add_switch(), [op], [i32])
    blk.add_ops([ch, phs.YieldOp(ch)])
    return pe


merged = kernel("acc", 0, 0)                      # a * a
append_to_abstract_graph(kernel("acc", 0, 1), merged)   # then a * b
sw = decode_abstract_graph(merged, kernel("cand", 0, 1))
print("switch values decoded for a*b:", list(sw))
choose = merged.get_choose_op("i_i32_i32_o_i32_0")
inner = list(choose.operations())[0]
args = list(choose.regions[0].block.args)
uses = [args.index(o) for o in inner.operands]
print("the 'mul' alternative multiplies its block arguments", uses)
if uses != [0, 1]:
    print("DEFECT: configured as decoded, the merged PE computes arg%d * arg%d instead of arg0 * arg1" % tuple(uses))
    sys.exit(1)
print("ok")
