"""Contracts for snaxc/transforms/set_memory_layout.py (C09)."""
import numpy as np
from pyvc.api import SYMBOLIC, check, contract, implies, mk_memref_value
from xdsl.dialects.builtin import AffineMapAttr, ArrayAttr, IntegerType, MemRefType
from xdsl.ir import Block, Region
from xdsl.pattern_rewriter import PatternRewriter

import snaxc.transforms.set_memory_layout as sml
from snaxc.dialects import dart
from snaxc.dialects.tsl import TiledStridedLayoutAttr
from snaxc.ir.dart.affine_transform import AffineTransform
from snaxc.ir.tsl import Stride, TiledStride, TiledStridedLayout

G = {}


# ------------------------------------------------------------------ ensure_access_granularity (unbounded)
def spatial_dims_contract(local):
    """assumed: the accelerator template has G['sd'] spatial dimensions (dart dialect / accelerator plumbing)"""
    return G["sd"]


@contract
class ensure_access_granularity_contract:
    target = "snaxc.transforms.set_memory_layout.ensure_access_granularity"
    shapes = [dict(bits=b) for b in (8, 16, 32, 64)]
    native = False  # spatial_dims() is replaced by its assumed contract; arithmetic is replayed by the C09 bounded stand-in
    total = True
    modular = {"snaxc.transforms.set_memory_layout.spatial_dims": spatial_dims_contract}

    def args(sh, sym):
        G["sd"] = sym.int("spatial_dims", 0)
        operand = mk_memref_value(MemRefType(IntegerType(sh["bits"]), [4, 4]), [4, 4])
        return [None, sym.int("current_stride"), sym.int("schedule_dim", 0), None, operand]

    def requires(sh, a):
        return a[1] >= 1

    def ensures(sh, a, ret):
        cur, sdim = a[1], a[2]
        temporal = sdim >= G["sd"]
        g = (8 if sh["bits"] == 8 else 16) if temporal else (8 if sh["bits"] == 8 else 2)
        check("padding never decreases the stride (no aliasing introduced)", ret >= cur)
        check("a unit stride is kept", implies(cur == 1, ret == 1))
        check("result meets the access granularity", implies(cur != 1, ret % g == 0))
        check("padding is less than one bank row (64 elements)", ret - cur < 64)

    def canary(sh, a, ret):
        check("canary: the stride is never padded", ret == a[1])


# ------------------------------------------------------------------ AddCyclicMemoryLayout.match_and_rewrite (whole method)
def build_op(bounds, mats, shapes, bits):
    """a dart.schedule op with one memref operand per access matrix"""
    operands = [mk_memref_value(MemRefType(IntegerType(bits), list(s)), list(s)) for s in shapes]
    pats = []
    for m in mats:
        t = AffineTransform(np.array(m).reshape(len(m), len(bounds)), np.array([0] * len(m)).reshape(len(m)))
        # the view hands the matrix form to SchedulePattern directly; natively the attribute holds the affine map
        pats.append(AffineMapAttr(t if SYMBOLIC else t.to_affine_map()))
    op = dart.ScheduleOp(operands[:-1], operands[-1:], ArrayAttr(pats), Region(Block()), list(bounds), [[] for _ in shapes], "acc")
    return op


def identity_canonicalize(local):
    """TiledStridedLayout.canonicalize through its C10 contract: same index->address function and same product of
    bounds per dimension; the raw (pre-canonical) layout is therefore what is examined"""
    return local["self"]


def assignment_order(bounds, mat, rank):
    """ghost: the order in which the pass assigns levels - schedule dims innermost first, each to the first operand
    dimension it indexes; returns [(dim, position from the inner end)]"""
    order = []
    count = [0] * rank
    n = len(bounds)
    for j in reversed(range(n)):
        col = [mat[d][j] for d in range(rank)]
        hit = None
        for d in range(rank):
            if hit is None and col[d] != 0:
                hit = d
        if hit is not None:
            order.append((hit, count[hit]))
            count[hit] += 1
    return order, count


def is_valid_schedule(bounds, mat, shape):
    """is_valid of the view: non-negative coefficients, every loop indexes at most one operand dimension,
    the iteration box covers the operand exactly"""
    rank, n = len(shape), len(bounds)
    ok = all(b >= 1 for b in bounds) and all(s >= 1 for s in shape)
    ok = ok and all(mat[d][j] >= 0 for d in range(rank) for j in range(n))
    for j in range(n):
        for d in range(rank):
            for e in range(d + 1, rank):
                ok = ok and (mat[d][j] == 0 or mat[e][j] == 0)
    for d in range(rank):
        ok = ok and shape[d] == 1 + sum((bounds[j] - 1) * mat[d][j] for j in range(n))
    return ok


def check_layout(tag, layout, bounds, mat, shape):
    rank = len(shape)
    check(tag + "one tiled stride per operand dimension", len(layout.tstrides) == rank)
    # (ii) coverage
    for d in range(rank):
        p = 1
        for s in layout.tstrides[d].strides:
            p = p * s.bound
        check(tag + f"dim {d}: tile bounds multiply to the operand shape (covers exactly the shape)", p == shape[d])
    # (i) injectivity through the super-increasing property, in assignment order
    order, count = assignment_order(bounds, mat, rank)
    levels = []
    for d, pos in order:
        ts = layout.tstrides[d].strides
        levels.append(ts[len(ts) - 1 - pos])
    for d in range(rank):
        if count[d] == 0:
            levels.append(layout.tstrides[d].strides[0])
    check(tag + "every level of the layout is accounted for", len(levels) == sum(len(ts.strides) for ts in layout.tstrides))
    top = 0  # largest address offset reachable with the levels assigned so far
    for k, s in enumerate(levels):
        check(tag + f"level {k} (assignment order): bound >= 1", s.bound >= 1)
        check(tag + f"level {k} (assignment order): step exceeds every address reachable below it (one-to-one)", s.step >= top + 1)
        top = top + (s.bound - 1) * s.step


SCHED = (
    # (name, schedule dims, operand rank)
    [dict(n=n, rank=r, tiled=t, bits=b, sd=sd) for n in (1, 2, 3) for r in (1, 2) for t in (False, True) for b, sd in ((8, 0), (32, 1), (16, 2)) if sd <= n]
    # three loops on one dimension with the two inner bounds fixed: the coverage obligation (a product of three tile
    # bounds) stays linear and is decided; the fully symbolic three-loop shapes are left to the thorough tier
    + [dict(n=3, rank=1, tiled=True, bits=8, sd=0, inner=i) for i in ((2, 2), (2, 3), (3, 2), (4, 2))]
)


@contract
class AddCyclicMemoryLayout_contract:
    """the layout chosen for every operand is one-to-one and covers exactly the operand shape"""
    target = "snaxc.transforms.set_memory_layout.AddCyclicMemoryLayout.match_and_rewrite"
    shapes = SCHED
    # quick: up to two loops, plus three-loop shapes with fixed inner bounds
    quick = lambda sh: sh["n"] <= 2 or "inner" in sh
    # fully symbolic three-loop TILED shapes leave a non-linear coverage obligation undecided (z3 and cvc5): not covered,
    # except through the fixed-inner-bounds shapes
    thorough = lambda sh: not (sh["n"] == 3 and sh["tiled"] and "inner" not in sh)
    total = True
    compare_ret = False
    modular = {"snaxc.transforms.set_memory_layout.spatial_dims": spatial_dims_contract,
               "snaxc.ir.tsl.tiled_strided_layout.TiledStridedLayout.canonicalize": identity_canonicalize}

    def args(sh, sym):
        n, r = sh["n"], sh["rank"]
        G["sd"] = sh["sd"]
        bounds = [sym.int(f"B{j}", 1) for j in range(n)]
        if "inner" in sh:
            bounds = [bounds[0], sh["inner"][0], sh["inner"][1]]
        mat = [[sym.int(f"A{d}_{j}", 0) for j in range(n)] for d in range(r)]
        shape = [sym.int(f"N{d}", 1) for d in range(r)]
        return [bounds, mat, shape]

    def requires(sh, a):
        return is_valid_schedule(a[0], a[1], a[2])

    def run(sh, a):
        bounds, mat, shape = a
        op = build_op(bounds, [mat, mat], [shape, shape], sh["bits"])
        old = list(op.operands)
        rw = PatternRewriter(op)
        sml.AddCyclicMemoryLayout(None, sh["tiled"]).match_and_rewrite(op, rw)
        log = rw.log
        casts_ok = len(log) == 1 and log[0][0] == "insert_op" and len(log[0][1]) == 2 and log[0][2].kind == "before" and log[0][2].anchor is op
        casts_ok = casts_ok and all(op.operands[i] is log[0][1][i].dest and log[0][1][i].source is old[i] for i in range(2))
        return dict(casts_ok=casts_ok, types=[(o.type.get_shape(), o.type.element_type) for o in op.operands],
                    old_types=[(o.type.get_shape(), o.type.element_type) for o in old],
                    layouts=[o.type.layout.data for o in op.operands])

    def native_run(sh, a):
        """the same run on REAL xDSL objects: the real pattern applied by a real PatternRewriter; spatial_dims() and
        TiledStridedLayout.canonicalize are replaced by the same doubles the symbolic run uses"""
        from xdsl.dialects.builtin import ModuleOp
        from snaxc.dialects.snax import LayoutCast
        bounds, mat, shape = a
        op = build_op(bounds, [mat, mat], [shape, shape], sh["bits"])
        mod = ModuleOp([op])
        old = list(op.operands)
        saved = (sml.spatial_dims, TiledStridedLayout.canonicalize)
        sml.spatial_dims = lambda ctx, op_: sh["sd"]
        TiledStridedLayout.canonicalize = lambda self: self
        try:
            rw = PatternRewriter(op)
            sml.AddCyclicMemoryLayout(None, sh["tiled"]).match_and_rewrite(op, rw)
        finally:
            sml.spatial_dims, TiledStridedLayout.canonicalize = saved
        ops = list(mod.body.block.ops)
        casts_ok = len(ops) == 3 and ops[2] is op and all(isinstance(ops[i], LayoutCast) and op.operands[i] is ops[i].dest and ops[i].source is old[i] for i in range(2))
        return dict(casts_ok=casts_ok, types=[(o.type.get_shape(), o.type.element_type) for o in op.operands],
                    old_types=[(o.type.get_shape(), o.type.element_type) for o in old],
                    layouts=[o.type.layout.data for o in op.operands])

    def ensures(sh, a, ret):
        bounds, mat, shape = a
        check("one layout cast per operand is inserted before the op and replaces that operand", ret["casts_ok"])
        check("shape and element type are kept", ret["types"] == ret["old_types"])
        for i in range(2):
            check_layout(f"operand {i}: ", ret["layouts"][i], bounds, mat, shape)

    def canary(sh, a, ret):
        check("canary: every layout has a unit innermost step in the last dimension", ret["layouts"][0].tstrides[sh["rank"] - 1].strides[-1].step == 1)


@contract
class AddCyclicMemoryLayout_keeps_explicit_layouts:
    """operands that already carry an explicit (tsl) layout are left untouched"""
    target = "snaxc.transforms.set_memory_layout.AddCyclicMemoryLayout.match_and_rewrite"
    shapes = [dict(which=w, tiled=t) for w in (0, 1) for t in (False, True)]
    native = False
    total = True
    modular = {"snaxc.transforms.set_memory_layout.spatial_dims": spatial_dims_contract}

    def args(sh, sym):
        G["sd"] = 1
        return [[sym.int("B0", 1), sym.int("B1", 1)], [[sym.int("A0", 0), sym.int("A1", 0)]], [sym.int("N0", 1)]]

    def run(sh, a):
        bounds, mat, shape = a
        op = build_op(bounds, [mat, mat], [shape, shape], 8)
        tsl = TiledStridedLayoutAttr(TiledStridedLayout([TiledStride([Stride(3, shape[0])])]))
        old = op.operands[sh["which"]]
        op.operands[sh["which"]] = mk_memref_value(MemRefType(IntegerType(8), list(shape), tsl), list(shape))
        before = list(op.operands)
        rw = PatternRewriter(op)
        sml.AddCyclicMemoryLayout(None, sh["tiled"]).match_and_rewrite(op, rw)
        return (op, rw, before)

    def ensures(sh, a, ret):
        op, rw, before = ret
        check("nothing is inserted or replaced", len(rw.log) == 0)
        check("operands are untouched", all(x is y for x, y in zip(op.operands, before)) and len(op.operands) == len(before))

    def canary(sh, a, ret):
        check("canary: the pattern always rewrites", len(ret[1].log) > 0)
