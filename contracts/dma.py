"""Contract for snaxc/transforms/snax_copy_to_dma.py (C05): TransformDMA.match_and_rewrite as a whole.

DMA semantics (runtime/include/snax_rt.h, trusted):
  snax_dma_1d_transfer(src, dst, size):                 bytes [src, src+size) -> [dst, dst+size)
  snax_dma_2d_transfer(src, dst, size, ss, sd, repeat): for j < repeat: bytes [src+j*ss, +size) -> [dst+j*sd, +size)
The emitted scf.for nest binds each block argument to a fresh run-time symbol, so the pointer operands of the
recorded call ARE the symbolic transfer family."""
from pyvc.api import check, contract, den, implies, mk_memref_value
from xdsl.dialects import func, scf
from xdsl.dialects.builtin import IntegerType, MemRefType, NoneAttr, StridedLayoutAttr
from xdsl.dialects.memref import CopyOp
from xdsl.pattern_rewriter import PatternRewriter

import snaxc.transforms.snax_copy_to_dma as c2d
from contracts.tsl import mk_tsl
from snaxc.dialects.tsl import TiledStridedLayoutAttr
from snaxc.ir.tsl import Stride, TiledStride, TiledStridedLayout

G = {}


def on_bound_ops(local, result):
    G.setdefault("bound_ops", []).append(result[1])


def on_step_ops(local, result):
    G.setdefault("step_ops", []).append(result[1])


def shape_of(tsl):
    out = []
    for ts in tsl.tstrides:
        p = 1
        for s in ts.strides:
            p = p * s.bound
        out.append(p)
    return out


def mk_side(sym, kind, pfx, rank, depth, bits, like=None):
    """a memref value of layout kind 'tsl' | 'none' | 'strided'; `like`: a TSL whose tile bounds (hence shape) are shared"""
    if kind == "tsl":
        if like is None:
            tsl = mk_tsl(sym, rank, depth, pfx=pfx)
        else:
            tsl = TiledStridedLayout([TiledStride([Stride(sym.int(f"{pfx}s{d}_{k}", 1), s.bound) for k, s in enumerate(ts.strides)]) for d, ts in enumerate(like.tstrides)],
                                     offset=sym.int(f"{pfx}off", 0))
        shape = shape_of(tsl)
        ty = MemRefType(IntegerType(bits), shape, TiledStridedLayoutAttr(tsl))
        return mk_memref_value(ty, shape, None, 0, sym.int(f"{pfx}ptr", 0)), tsl, shape
    shape = shape_of(like) if like is not None else [sym.int(f"{pfx}N{d}", 1) for d in range(rank)]
    if kind == "none":
        ty = MemRefType(IntegerType(bits), shape, NoneAttr())
        return mk_memref_value(ty, shape, None, 0, sym.int(f"{pfx}ptr", 0)), None, shape
    strides = [sym.int(f"{pfx}S{d}", 1) for d in range(len(shape))]
    off = sym.int(f"{pfx}off", 0)
    ty = MemRefType(IntegerType(bits), shape, StridedLayoutAttr(strides, off))
    return mk_memref_value(ty, shape, strides, off, sym.int(f"{pfx}ptr", 0)), None, shape


def find_call(op, levels):
    if isinstance(op, func.CallOp):
        return op
    if isinstance(op, scf.ForOp):
        levels.append(op)
        for o in op.body.block.ops:
            if isinstance(o, (scf.ForOp, func.CallOp)):
                return find_call(o, levels)
    return None


PAIRS = [("tsl", "tsl"), ("none", "tsl"), ("tsl", "none"), ("strided", "strided"), ("strided", "none"), ("none", "none")]


@contract
class TransformDMA_contract:
    target = "snaxc.transforms.snax_copy_to_dma.TransformDMA.match_and_rewrite"
    shapes = [dict(src=s, dst=d, rank=r, depth=dp, bits=b) for s, d in PAIRS for r in (1, 2) for dp in (1, 2) for b in (8, 32)
              if not ("tsl" not in (s, d) and dp == 2) and not (r == 2 and dp == 2 and (s, d) != ("tsl", "tsl")) and not (b == 8 and (r, dp) != (1, 1))] + [
        # deep loop nests: no source level has step 1, so the common block is a single element and EVERY level becomes a loop
        dict(src="tsl", dst="tsl", rank=2, depth=2, bits=32, lcb="single"), dict(src="tsl", dst="tsl", rank=1, depth=3, bits=32, lcb="single"),
        # the same 4-level nest with the loop order fixed (bounds strictly decreasing in (dim, depth) order): 1/24 of the paths
        dict(src="tsl", dst="tsl", rank=2, depth=2, bits=32, lcb="single_sorted"),
        # element types that do not fill whole bytes: one (i1, i4) resp. two (i12) bytes per element in memory
        dict(src="tsl", dst="tsl", rank=1, depth=1, bits=1), dict(src="tsl", dst="tsl", rank=1, depth=1, bits=12), dict(src="tsl", dst="tsl", rank=1, depth=2, bits=4)]
    quick = lambda sh: sh["rank"] * sh["depth"] <= 2 or (sh.get("lcb") == "single" and sh["rank"] == 1) or sh.get("lcb") == "single_sorted"
    # the unconstrained 2 x 2 shape (4 symbolic levels per side, every ordering and every common block) does not finish
    # within an hour on 16 cores: NOT covered; its deep-nest sub-cases are the `lcb` shapes
    thorough = lambda sh: not (sh["rank"] == 2 and sh["depth"] == 2 and "lcb" not in sh)
    native = False
    total = True
    permissive = True
    observe = {"snaxc.dialects.tsl.TiledStridedLayoutAttr.get_bound_ops": on_bound_ops,
               "snaxc.dialects.tsl.TiledStridedLayoutAttr.get_step_ops": on_step_ops}

    def args(sh, sym):
        G.clear()
        r, dp, bits = sh["rank"], sh["depth"], sh["bits"]
        if sh["src"] == "tsl":
            src, tsl_s, shape = mk_side(sym, "tsl", "x", r, dp, bits)
            dst, tsl_d, _ = mk_side(sym, sh["dst"], "y", r, dp, bits, like=tsl_s)
        elif sh["dst"] == "tsl":
            dst, tsl_d, shape = mk_side(sym, "tsl", "y", r, dp, bits)
            src, tsl_s, _ = mk_side(sym, sh["src"], "x", r, dp, bits, like=tsl_d)
        else:
            src, tsl_s, shape = mk_side(sym, sh["src"], "x", r, dp, bits)
            dst, tsl_d, _ = mk_side(sym, sh["dst"], "y", r, dp, bits)
            dst.type.shape = src.type.shape
            dst.rt_shape = src.rt_shape
        op = CopyOp(src, dst)
        nlev = r * dp if "tsl" in (sh["src"], sh["dst"]) else r
        t = [sym.int(f"t{i}", 0) for i in range(nlev)]
        return [op, src, dst, t, shape]

    def requires(sh, a):
        if sh.get("lcb") in ("single", "single_sorted"):
            lv = [s for _, _, s in a[1].type.layout.data]
            ok = all(s.step >= 2 for s in lv)
            if sh["lcb"] == "single_sorted":
                ok = ok and all(lv[i].bound > lv[i + 1].bound for i in range(len(lv) - 1))
            return ok
        return True

    def run(sh, a):
        op = a[0]
        rw = PatternRewriter(op)
        c2d.TransformDMA().match_and_rewrite(op, rw)
        return rw.log

    def ensures(sh, a, ret):
        op, src, dst, t, shape = a
        el = ((sh["bits"] + 7) // 8)  # bytes an element occupies: ceil(bits / 8)
        rep = [e for e in ret if e[0] == "replace_op"]
        check("the copy is replaced by exactly one DMA call or loop nest", len(rep) == 1 and rep[0][1] is op and len(rep[0][2]) == 1)
        levels = []
        call = find_call(rep[0][2][0], levels)
        check("a DMA call is emitted", call is not None)
        bound_ops = G["bound_ops"][0]
        step_src, step_dst = G["step_ops"][0], G["step_ops"][1]
        keys = list(bound_ops.keys())
        check("one witness digit per (dim, depth)", len(keys) == len(t))
        dig = {k: t[i] for i, k in enumerate(keys)}
        in_range = all(dig[k] < den(bound_ops[k]) for k in keys)
        # the layouts' own address functions, in bytes (offset and element size included)
        off_s = src.type.layout.data.offset if sh["src"] == "tsl" else (src.rt_offset if sh["src"] == "strided" else 0)
        off_d = dst.type.layout.data.offset if sh["dst"] == "tsl" else (dst.rt_offset if sh["dst"] == "strided" else 0)
        full_src = src.rt_ptr + off_s * el + sum(dig[k] * den(step_src[k]) for k in keys)
        full_dst = dst.rt_ptr + off_d * el + sum(dig[k] * den(step_dst[k]) for k in keys)
        name = call.callee.string_value()
        nel = 1
        for n in shape:
            nel = nel * n
        if name == "snax_dma_1d_transfer":
            s, d, size = call.operands
            check("1-D: no loops around the call", len(levels) == 0)
            check("1-D: base pointers include the layout offsets", den(s) == src.rt_ptr + off_s * el and den(d) == dst.rt_ptr + off_d * el)
            check("1-D: size == element bytes * number of elements", den(size) == el * nel)
            check("1-D: every element sits at the same offset in source and destination, inside the burst",
                  implies(in_range, full_src - den(s) == full_dst - den(d) and 0 <= full_src - den(s) and full_src - den(s) + el <= den(size)))
        else:
            check("2-D transfer", name == "snax_dma_2d_transfer")
            s, d, size, ss, sd, repeat = call.operands
            used = []
            cond = True
            for lv in levels:
                m = [k for k in keys if bound_ops[k].results[0] is lv.ub]
                check("each loop runs over the bound of exactly one (dim, depth), from 0 with step 1", len(m) == 1 and den(lv.lb) == 0 and den(lv.step) == 1)
                if len(m) == 1:
                    used.append(m[0])
                    cond = cond and den(lv.body.block.args[0]) == dig[m[0]]
            mj = [k for k in keys if bound_ops[k].results[0] is repeat]
            check("the repeat count is the bound of exactly one (dim, depth) not used by a loop", len(mj) == 1 and not any(mj[0] == u for u in used))
            check("no (dim, depth) drives two loops", len(set(used)) == len(used))
            if len(mj) == 1:
                kj = mj[0]
                lcb = [k for k in keys if k != kj and not any(k == u for u in used)]
                b_src = sum(dig[k] * den(step_src[k]) for k in lcb)
                b_dst = sum(dig[k] * den(step_dst[k]) for k in lcb)
                check("every element is read at its source address: src(i) + j*stride_src + b == addr_src(t)",
                      implies(in_range and cond, den(s) + dig[kj] * den(ss) + b_src == full_src))
                check("every element is written at its destination address: dst(i) + j*stride_dst + b == addr_dst(t)",
                      implies(in_range and cond, den(d) + dig[kj] * den(sd) + b_dst == full_dst))
                check("inside a burst source and destination offsets agree and stay inside the burst",
                      implies(in_range, b_src == b_dst and 0 <= b_src and b_src + el <= den(size)))
                blk = el
                for k in lcb:
                    blk = blk * den(bound_ops[k])
                check("the burst is exactly the common contiguous block (nothing else is touched)", den(size) == blk)

    def canary(sh, a, ret):
        check("canary: every copy is a single 1-D transfer", find_call([e for e in ret if e[0] == "replace_op"][0][2][0], []).callee.string_value() == "snax_dma_1d_transfer" and sh["rank"] > 1)


from xdsl.dialects.builtin import DYNAMIC_INDEX  # noqa: E402


@contract
class get_total_size_op_contract:
    target = "snaxc.transforms.snax_copy_to_dma.get_total_size_op"
    shapes = [dict(rank=r, bits=b) for r in (1, 2, 3, 4) for b in (8, 16, 64)] + [dict(rank=r, bits=b) for r in (1, 2) for b in (1, 12)]
    quick = lambda sh: sh["rank"] <= 3
    native = False
    total = True

    def args(sh, sym):
        shape = [sym.int(f"N{d}", 0) for d in range(sh["rank"])]
        return [mk_memref_value(MemRefType(IntegerType(sh["bits"]), shape, NoneAttr()), shape, None, 0, 0)]

    def ensures(sh, a, ret):
        ops, total = ret
        n = 1
        for d in range(sh["rank"]):
            n = n * a[0].rt_shape[d]
        check("den(total size) == element bytes * product of the run-time shape", den(total) == ((sh["bits"] + 7) // 8) * n)
        check("the size op is in the returned op list, after everything it uses", ops[-1] is total)

    def canary(sh, a, ret):
        check("canary: size ignores the element width", den(ret[1]) == a[0].rt_shape[0])


@contract
class MatchSimpleCopy_contract:
    target = "snaxc.transforms.snax_copy_to_dma.MatchSimpleCopy.match_and_rewrite"
    shapes = [dict(rank=r, bits=b, layout=l) for r in (1, 2, 3) for b in (8, 32) for l in ("none", "src_tsl", "dst_strided")] + [dict(rank=1, bits=b, layout="none") for b in (1, 12)]
    native = False
    total = True
    permissive = True

    def args(sh, sym):
        shape = [sym.int(f"N{d}", 1) for d in range(sh["rank"])]
        ls = TiledStridedLayoutAttr(mk_tsl(sym, sh["rank"], 1)) if sh["layout"] == "src_tsl" else NoneAttr()
        ld = StridedLayoutAttr([1] * sh["rank"], 0) if sh["layout"] == "dst_strided" else NoneAttr()
        src = mk_memref_value(MemRefType(IntegerType(sh["bits"]), shape, ls), shape, None, 0, sym.int("ps", 0))
        dst = mk_memref_value(MemRefType(IntegerType(sh["bits"]), shape, ld), shape, None, 0, sym.int("pd", 0))
        return [CopyOp(src, dst), src, dst, shape]

    def run(sh, a):
        rw = PatternRewriter(a[0])
        c2d.MatchSimpleCopy().match_and_rewrite(a[0], rw)
        return rw.log

    def ensures(sh, a, ret):
        op, src, dst, shape = a
        if sh["layout"] != "none":
            check("copies with an explicit layout are left to TransformDMA", len(ret) == 0)
        else:
            rep = [e for e in ret if e[0] == "replace_op"]
            check("replaced by one call", len(rep) == 1 and rep[0][1] is op and len(rep[0][2]) == 1 and isinstance(rep[0][2][0], func.CallOp))
            call = rep[0][2][0]
            n = 1
            for x in shape:
                n = n * x
            check("one 1-D transfer of all bytes between the two aligned pointers",
                  call.callee.string_value() == "snax_dma_1d_transfer" and den(call.operands[0]) == src.rt_ptr and den(call.operands[1]) == dst.rt_ptr
                  and den(call.operands[2]) == ((sh["bits"] + 7) // 8) * n)

    def canary(sh, a, ret):
        check("canary: never rewritten", len(ret) == 0 and sh["layout"] == "none")


@contract
class extract_strides_offset_contract:
    target = "snaxc.transforms.snax_copy_to_dma.extract_strides"
    shapes = [dict(rank=r, layout=l, dyn=d) for r in (1, 2, 3, 4) for l in ("none", "strided") for d in range(-1, r) if not (l == "strided" and d > 0)]
    quick = lambda sh: sh["rank"] <= 3
    native = False
    total = True

    def args(sh, sym):
        r = sh["rank"]
        shape = [DYNAMIC_INDEX if d == sh["dyn"] else sym.int(f"N{d}", 1) for d in range(r)]
        if sh["layout"] == "none":
            return [MemRefType(IntegerType(32), shape, NoneAttr()), shape, None, None]
        strides = [None if (sh["dyn"] == 0 and d == 0) else sym.int(f"S{d}", 1) for d in range(r)]
        off = None if sh["dyn"] == 0 else sym.int("off", 0)
        return [MemRefType(IntegerType(32), shape, StridedLayoutAttr(strides, off)), shape, strides, off]

    def run(sh, a):
        return (c2d.extract_strides(a[0]), c2d.extract_offset(a[0]))

    def ensures(sh, a, ret):
        ty, shape, strides, off = a
        got, goff = ret
        r = sh["rank"]
        if sh["layout"] == "strided":
            check("strided layout: strides verbatim, dynamic ones as None", got == strides)
            check("strided layout: offset verbatim (None when dynamic)", goff == off or (goff is None and off is None))
        else:
            check("default layout: offset 0", goff == 0)
            check("innermost stride 1", got[r - 1] == 1)
            for i in range(r - 1):
                # s_i = prod_{j>i} shape_j, None from the first dynamic factor outwards
                dyn_inner = any(j == sh["dyn"] for j in range(i + 1, r))
                if dyn_inner:
                    check(f"stride {i}: unknown because an inner size is dynamic", got[i] is None)
                else:
                    p = 1
                    for j in range(i + 1, r):
                        p = p * shape[j]
                    check(f"stride {i}: row-major product of the inner sizes", got[i] == p)

    def canary(sh, a, ret):
        check("canary: all strides are 1", all(s == 1 for s in ret[0]) and sh["rank"] > 1)
