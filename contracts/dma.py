"""Contract for snaxc/transforms/snax_copy_to_dma.py (C05): TransformDMA.match_and_rewrite as a whole.

DMA semantics (runtime/include/snax_rt.h, trusted):
  snax_dma_1d_transfer(src, dst, size):                 bytes [src, src+size) -> [dst, dst+size)
  snax_dma_2d_transfer(src, dst, size, ss, sd, repeat): for j < repeat: bytes [src+j*ss, +size) -> [dst+j*sd, +size)
The emitted scf.for nest binds each block argument to a fresh run-time symbol, so the pointer operands of the
recorded call ARE the symbolic transfer family."""
from pyvc.api import check, contract, den, implies, mk_memref_value
from xdsl.dialects import func, scf
from xdsl.dialects.builtin import IntegerType, MemRefType, NoneAttr, StridedLayoutAttr
from xdsl.dialects.memref import CopyOp
from xdsl.pattern_rewriter import PatternRewriter

import snaxc.transforms.snax_copy_to_dma as c2d
from contracts.tsl import mk_tsl
from snaxc.dialects.tsl import TiledStridedLayoutAttr
from snaxc.ir.tsl import Stride, TiledStride, TiledStridedLayout

G = {}


def on_bound_ops(local, result):
    G.setdefault("bound_ops", []).append(result[1])


def on_step_ops(local, result):
    G.setdefault("step_ops", []).append(result[1])


def shape_of(tsl):
    out = []
    for ts in tsl.tstrides:
        p = 1
        for s in ts.strides:
            p = p * s.bound
        out.append(p)
    return out


def mk_side(sym, kind, pfx, rank, depth, bits, like=None):
    """a memref value of layout kind 'tsl' | 'none' | 'strided'; `like`: a TSL whose tile bounds (hence shape) are shared"""
    if kind == "tsl":
        if like is None:
            tsl = mk_tsl(sym, rank, depth, pfx=pfx)
        else:
            tsl = TiledStridedLayout([TiledStride([Stride(sym.int(f"{pfx}s{d}_{k}", 1), s.bound) for k, s in enumerate(ts.strides)]) for d, ts in enumerate(like.tstrides)],
                                     offset=sym.int(f"{pfx}off", 0))
        shape = shape_of(tsl)
        ty = MemRefType(IntegerType(bits), shape, TiledStridedLayoutAttr(tsl))
        return mk_memref_value(ty, shape, None, 0, sym.int(f"{pfx}ptr", 0)), tsl, shape
    shape = shape_of(like) if like is not None else [sym.int(f"{pfx}N{d}", 1) for d in range(rank)]
    if kind == "none":
        ty = MemRefType(IntegerType(bits), shape, NoneAttr())
        return mk_memref_value(ty, shape, None, 0, sym.int(f"{pfx}ptr", 0)), None, shape
    strides = [sym.int(f"{pfx}S{d}", 1) for d in range(len(shape))]
    off = sym.int(f"{pfx}off", 0)
    ty = MemRefType(IntegerType(bits), shape, StridedLayoutAttr(strides, off))
    return mk_memref_value(ty, shape, strides, off, sym.int(f"{pfx}ptr", 0)), None, shape


def find_call(op, levels):
    if isinstance(op, func.CallOp):
        return op
    if isinstance(op, scf.ForOp):
        levels.append(op)
        for o in op.body.block.ops:
            if isinstance(o, (scf.ForOp, func.CallOp)):
                return find_call(o, levels)
    return None


PAIRS = [("tsl", "tsl"), ("none", "tsl"), ("tsl", "none"), ("strided", "strided"), ("strided", "none"), ("none", "none")]


@contract
class TransformDMA_contract:
    target = "snaxc.transforms.snax_copy_to_dma.TransformDMA.match_and_rewrite"
    shapes = [dict(src=s, dst=d, rank=r, depth=dp, bits=b) for s, d in PAIRS for r in (1, 2) for dp in (1, 2) for b in (8, 32)
              if not ("tsl" not in (s, d) and dp == 2) and not (r == 2 and dp == 2 and (s, d) != ("tsl", "tsl")) and not (b == 8 and (r, dp) != (1, 1))]
    quick = lambda sh: sh["rank"] * sh["depth"] <= 2
    native = False
    total = True
    permissive = True
    observe = {"snaxc.dialects.tsl.TiledStridedLayoutAttr.get_bound_ops": on_bound_ops,
               "snaxc.dialects.tsl.TiledStridedLayoutAttr.get_step_ops": on_step_ops}

    def args(sh, sym):
        G.clear()
        r, dp, bits = sh["rank"], sh["depth"], sh["bits"]
        if sh["src"] == "tsl":
            src, tsl_s, shape = mk_side(sym, "tsl", "x", r, dp, bits)
            dst, tsl_d, _ = mk_side(sym, sh["dst"], "y", r, dp, bits, like=tsl_s)
        elif sh["dst"] == "tsl":
            dst, tsl_d, shape = mk_side(sym, "tsl", "y", r, dp, bits)
            src, tsl_s, _ = mk_side(sym, sh["src"], "x", r, dp, bits, like=tsl_d)
        else:
            src, tsl_s, shape = mk_side(sym, sh["src"], "x", r, dp, bits)
            dst, tsl_d, _ = mk_side(sym, sh["dst"], "y", r, dp, bits)
            dst.type.shape = src.type.shape
            dst.rt_shape = src.rt_shape
        op = CopyOp(src, dst)
        nlev = r * dp if "tsl" in (sh["src"], sh["dst"]) else r
        t = [sym.int(f"t{i}", 0) for i in range(nlev)]
        return [op, src, dst, t, shape]

    def run(sh, a):
        op = a[0]
        rw = PatternRewriter(op)
        c2d.TransformDMA().match_and_rewrite(op, rw)
        return rw.log

    def ensures(sh, a, ret):
        op, src, dst, t, shape = a
        el = sh["bits"] // 8
        rep = [e for e in ret if e[0] == "replace_op"]
        check("the copy is replaced by exactly one DMA call or loop nest", len(rep) == 1 and rep[0][1] is op and len(rep[0][2]) == 1)
        levels = []
        call = find_call(rep[0][2][0], levels)
        check("a DMA call is emitted", call is not None)
        bound_ops = G["bound_ops"][0]
        step_src, step_dst = G["step_ops"][0], G["step_ops"][1]
        keys = list(bound_ops.keys())
        check("one witness digit per (dim, depth)", len(keys) == len(t))
        dig = {k: t[i] for i, k in enumerate(keys)}
        in_range = all(dig[k] < den(bound_ops[k]) for k in keys)
        # the layouts' own address functions, in bytes (offset and element size included)
        off_s = src.type.layout.data.offset if sh["src"] == "tsl" else (src.rt_offset if sh["src"] == "strided" else 0)
        off_d = dst.type.layout.data.offset if sh["dst"] == "tsl" else (dst.rt_offset if sh["dst"] == "strided" else 0)
        full_src = src.rt_ptr + off_s * el + sum(dig[k] * den(step_src[k]) for k in keys)
        full_dst = dst.rt_ptr + off_d * el + sum(dig[k] * den(step_dst[k]) for k in keys)
        name = call.callee.string_value()
        nel = 1
        for n in shape:
            nel = nel * n
        if name == "snax_dma_1d_transfer":
            s, d, size = call.operands
            check("1-D: no loops around the call", len(levels) == 0)
            check("1-D: base pointers include the layout offsets", den(s) == src.rt_ptr + off_s * el and den(d) == dst.rt_ptr + off_d * el)
            check("1-D: size == element bytes * number of elements", den(size) == el * nel)
            check("1-D: every element sits at the same offset in source and destination, inside the burst",
                  implies(in_range, full_src - den(s) == full_dst - den(d) and 0 <= full_src - den(s) and full_src - den(s) + el <= den(size)))
        else:
            check("2-D transfer", name == "snax_dma_2d_transfer")
            s, d, size, ss, sd, repeat = call.operands
            used = []
            cond = True
            for lv in levels:
                m = [k for k in keys if bound_ops[k].results[0] is lv.ub]
                check("each loop runs over the bound of exactly one (dim, depth), from 0 with step 1", len(m) == 1 and den(lv.lb) == 0 and den(lv.step) == 1)
                if len(m) == 1:
                    used.append(m[0])
                    cond = cond and den(lv.body.block.args[0]) == dig[m[0]]
            mj = [k for k in keys if bound_ops[k].results[0] is repeat]
            check("the repeat count is the bound of exactly one (dim, depth) not used by a loop", len(mj) == 1 and not any(mj[0] == u for u in used))
            check("no (dim, depth) drives two loops", len(set(used)) == len(used))
            if len(mj) == 1:
                kj = mj[0]
                lcb = [k for k in keys if k != kj and not any(k == u for u in used)]
                b_src = sum(dig[k] * den(step_src[k]) for k in lcb)
                b_dst = sum(dig[k] * den(step_dst[k]) for k in lcb)
                check("every element is read at its source address: src(i) + j*stride_src + b == addr_src(t)",
                      implies(in_range and cond, den(s) + dig[kj] * den(ss) + b_src == full_src))
                check("every element is written at its destination address: dst(i) + j*stride_dst + b == addr_dst(t)",
                      implies(in_range and cond, den(d) + dig[kj] * den(sd) + b_dst == full_dst))
                check("inside a burst source and destination offsets agree and stay inside the burst",
                      implies(in_range, b_src == b_dst and 0 <= b_src and b_src + el <= den(size)))
                blk = el
                for k in lcb:
                    blk = blk * den(bound_ops[k])
                check("the burst is exactly the common contiguous block (nothing else is touched)", den(size) == blk)

    def canary(sh, a, ret):
        check("canary: every copy is a single 1-D transfer", find_call([e for e in ret if e[0] == "replace_op"][0][2][0], []).callee.string_value() == "snax_dma_1d_transfer" and sh["rank"] > 1)
