"""Contracts for kernel recognition / dispatch / expansion (C18) and dispatching rules (C14)."""
import itertools

from pyvc.api import SYMBOLIC, check, contract, den, implies, ite, mk_ident_value, mk_ssa
from xdsl.dialects import arith, linalg
from xdsl.dialects.builtin import IntegerType, i8, i32
from xdsl.ir import Block, Operation, Region
from xdsl.pattern_rewriter import PatternRewriter

import snaxc.transforms.convert_kernel_to_linalg as k2l
import snaxc.transforms.convert_linalg_to_kernel as l2k
import snaxc.transforms.dispatch_kernels as dk
from snaxc.accelerators.dispatching import SupportedKernel
from snaxc.dialects import kernel

KTYPES = {"mac": kernel.MacOp, "add": kernel.AddOp, "mul": kernel.MulOp}


class AccView:
    """view of a DispatchTemplate accelerator: a name and its declared supported kernels"""

    def __init__(self, name, supported_kernels):
        self.name = name
        self.supported_kernels = tuple(supported_kernels)


def mk_kernel_op(kind, widths):
    a, b = mk_ident_value(9001, IntegerType(widths[0])), mk_ident_value(9002, IntegerType(widths[1]))
    return KTYPES[kind].create(operands=[a, b], result_types=[IntegerType(widths[2])])


@contract
class SupportedKernel_is_same_kernel_contract:
    target = "snaxc.accelerators.dispatching.SupportedKernel.is_same_kernel"
    shapes = [dict(sk=s, op=o) for s in ("mac", "add") for o in ("mac", "add", "none")]
    native = False
    total = True

    def args(sh, sym):
        tw = [sym.int(f"tw{i}", 1, 64) for i in range(3)]
        kw = [sym.int(f"kw{i}", 1, 64) for i in range(3)]
        sk = SupportedKernel(KTYPES[sh["sk"]], [IntegerType(w) for w in tw])
        op = None if sh["op"] == "none" else mk_kernel_op(sh["op"], kw)
        return [sk, op, tw, kw]

    def ensures(sh, a, ret):
        sk, op, tw, kw = a
        check("same kernel <=> same kernel class AND every operand/result type equal", ret == (sh["sk"] == sh["op"] and all(tw[i] == kw[i] for i in range(3))))

    def canary(sh, a, ret):
        check("canary: types never matter", ret == (sh["sk"] == sh["op"]))


@contract
class DispatchTemplatePattern_contract:
    """a kernel is dispatched only to an accelerator that declares support for that kernel WITH those operand types"""
    target = "snaxc.transforms.dispatch_kernels.DispatchTemplatePattern.match_and_rewrite"
    shapes = [dict(kind=k, accs=a) for k in ("mac", "add") for a in (("mac",), ("add", "mac"), ("mac", "mac"), ("mul",))]
    native = False
    total = True
    permissive = True

    def args(sh, sym):
        kw = [sym.int(f"kw{i}", 1, 64) for i in range(3)]
        kop = mk_kernel_op(sh["kind"], kw)
        accs = []
        tws = []
        for j, s in enumerate(sh["accs"]):
            tw = [sym.int(f"tw{j}_{i}", 1, 64) for i in range(3)]
            tws.append(tw)
            accs.append(AccView(f"acc{j}", [SupportedKernel(KTYPES[s], [IntegerType(w) for w in tw])]))
        body = Region([Block([kop, linalg.YieldOp(kop.results[0])])])
        lop = linalg.GenericOp([], [], body, None, None, [], None, None)
        return [lop, accs, kw, tws]

    def run(sh, a):
        rw = PatternRewriter(a[0])
        dk.DispatchTemplatePattern(a[1]).match_and_rewrite(a[0], rw)
        return a[0].library_call

    def ensures(sh, a, ret):
        lop, accs, kw, tws = a
        supported = [sh["accs"][j] == sh["kind"] and all(tws[j][i] == kw[i] for i in range(3)) for j in range(len(accs))]
        if ret is None:
            check("not dispatched only if no accelerator supports the kernel with these types", not any(supported))
        else:
            name = ret.data
            check("dispatched to an accelerator that declares a kernel of this CLASS",
                  any(sh["accs"][j] == sh["kind"] and name == f"acc{j}" for j in range(len(accs))))
            check("dispatched to an accelerator that declares this kernel with exactly these operand types",
                  any(supported[j] and name == f"acc{j}" for j in range(len(accs))))

    def canary(sh, a, ret):
        check("canary: nothing is ever dispatched", ret is None)


class BodyOp(Operation):
    """an op of a linalg body that is neither a kernel op nor the yield"""

    def __init__(self):
        self._init_op([], [], [])


@contract
class LowerLinalgBody_contract:
    """a body is expanded into a kernel's arithmetic only if it consists of exactly that one kernel op"""
    target = "snaxc.transforms.convert_kernel_to_linalg.LowerLinalgBody.match_and_rewrite"
    shapes = [dict(body=list(b)) for b in (("add",), ("mul",), ("add", "rescale"), ("mul", "rescale"), ("add", "mul"), ("rescale",), ("other", "add"), ("add", "other"))]
    native = False
    total = True
    permissive = True

    def args(sh, sym):
        ops = []
        x = mk_ident_value(9100, i32)
        for k in sh["body"]:
            if k in KTYPES:
                ops.append(KTYPES[k].create(operands=[x, x], result_types=[i32]))
            elif k == "rescale":
                ops.append(kernel.RescaleOp(x, i8, 0, 0, [1], [0], 127, -128, False))
            else:
                ops.append(BodyOp())
        body = Region([Block(ops + [linalg.YieldOp(x)])])
        return [linalg.GenericOp([], [], body, None, None, [], None, None), ops]

    def run(sh, a):
        rw = PatternRewriter(a[0])
        k2l.LowerLinalgBody().match_and_rewrite(a[0], rw)
        return rw.log

    def ensures(sh, a, ret):
        lop, ops = a
        single = len(sh["body"]) == 1 and sh["body"][0] in KTYPES
        if len(ret) == 0:
            check("a body of exactly one expandable kernel op is expanded", not single)
        else:
            check("only a body consisting of exactly one kernel op (plus the yield) is replaced by that kernel's arithmetic", single)
            if not single:
                return
            rep = [e for e in ret if e[0] == "replace_op"]
            check("the whole generic is replaced once", len(rep) == 1 and rep[0][1] is lop and len(rep[0][2]) == 1)
            new = rep[0][2][0]
            blk = new.body.block
            kind = sh["body"][0]
            exp = dict(add=arith.AddiOp, mul=arith.MuliOp, mac=arith.MuliOp)[kind]
            check("the new body is the kernel's equivalent region: its arithmetic on the block arguments, then a yield of the result",
                  isinstance(blk.ops[0], exp) and blk.ops[0].operands[0] is blk.args[0] and blk.ops[0].operands[1] is blk.args[1]
                  and isinstance(blk.ops[-1], linalg.YieldOp) and blk.ops[-1].operands[0] is blk.ops[-2].results[0])

    def canary(sh, a, ret):
        check("canary: never expanded", len(ret) == 0)


# =====================================================================================
# check_kernel_equivalence: bodies that merely contain the same KINDS of ops but wire them differently are not equivalent
# =====================================================================================
from pyvc.api import bv_eq  # noqa: E402

OPK = {"add": arith.AddiOp, "sub": arith.SubiOp, "mul": arith.MuliOp}


def set_bv_all(on):
    import xdsl.dialects.arith as arith_mod
    if hasattr(arith_mod, "MODE"):
        arith_mod.MODE["bv"] = "all" if on else False


def pick(sym, name, cands):
    """one of the candidate SSA values, chosen by a symbolic index (symbolic WIRING): the value whose denotation is the
    ite-selection of the candidates' denotations"""
    idx = sym.int(name, 0, len(cands) - 1)
    d = den(cands[len(cands) - 1])
    for k in reversed(range(len(cands) - 1)):
        d = ite(idx == k, den(cands[k]), d)
    return mk_ssa(d, cands[0].type), idx


def mk_body(sym, pfx, kinds, args, w):
    vals = list(args)
    ops = []
    wiring = []
    for k, kind in enumerate(kinds):
        x, ix = pick(sym, f"{pfx}w{k}a", vals)
        y, iy = pick(sym, f"{pfx}w{k}b", vals)
        o = OPK[kind](x, y)
        ops.append(o)
        vals.append(o.results[0])
        wiring.append((ix, iy))
    ops.append(linalg.YieldOp(ops[-1].results[0]))
    return Block(ops), den(ops[-2].results[0]), wiring


KSEQ = [list(s) for n in (1, 2, 3) for s in itertools.product(("add", "mul", "sub"), repeat=n) if n < 3 or s in (("mul", "add", "add"), ("add", "mul", "sub"))]


@contract
class check_kernel_equivalence_contract:
    """`True` only for bodies that compute the same function of their scalar inputs, for ALL input values (w-bit
    wrap-around arithmetic) - wiring and operand order included"""
    target = "snaxc.transforms.convert_linalg_to_kernel.check_kernel_equivalence"
    shapes = [dict(a=ka, b=kb, w=w) for ka in KSEQ for kb in (ka, ka[:-1] + ["mul" if ka[-1] != "mul" else "add"], ka + ["add"]) for w in (8, 32) if not (w == 32 and len(ka) > 2)]
    quick = lambda sh: sh["w"] == 8 and len(sh["a"]) <= 2
    native = False
    total = True

    def args(sh, sym):
        set_bv_all(True)
        w = sh["w"]
        ins = [mk_ssa(sym.bv(f"x{i}", w), IntegerType(w)) for i in range(3)]
        ba, ea, wa = mk_body(sym, "a", sh["a"], ins, w)
        bb, eb, wb = mk_body(sym, "b", sh["b"], ins, w)
        return [ba, bb, ea, eb, wa, wb]

    def ensures(sh, a, ret):
        ba, bb, ea, eb, wa, wb = a
        if ret:
            check("bodies accepted as equivalent compute the same value for all inputs", bv_eq(ea, eb, sh["w"]))
        else:
            check("bodies with different op sequences are rejected", sh["a"] != sh["b"])

    def canary(sh, a, ret):
        check("canary: nothing is ever equivalent", not ret)


# =====================================================================================
# C14: dispatching rules and the dispatcher
# =====================================================================================
from xdsl.dialects import func, memref, scf  # noqa: E402
from xdsl.dialects.builtin import ArrayAttr, AffineMapAttr  # noqa: E402

import snaxc.transforms.dispatch_regions as dr  # noqa: E402
import snaxc.util.dispatching_rules as rules  # noqa: E402
from snaxc.accelerators.snax_alu import SNAXAluAccelerator  # noqa: E402
from snaxc.accelerators.snax_xdma import SNAXXDMAAccelerator  # noqa: E402
from snaxc.dialects import dart, snax  # noqa: E402


class CtxView:
    def __init__(self, acc):
        self.acc = acc

    def get_acc(self, name):
        return self.acc


def mk_region_op(body_kind):
    x = mk_ident_value(9200, i32)
    y8 = mk_ident_value(9201, i8)
    if body_kind == "add_i32":
        k = kernel.AddOp.create(operands=[x, x], result_types=[i32])
    elif body_kind == "rescale_down":
        k = kernel.RescaleOp(x, i8, 0, 0, [1], [0], 127, -128, False)
    elif body_kind == "rescale_up":
        k = kernel.RescaleOp(y8, i32, 0, 0, [1], [0], 127, -128, False)
    elif body_kind == "mul_i32":
        k = kernel.MulOp.create(operands=[x, x], result_types=[i32])
    else:
        k = None
    body_ops = [dart.GenericOp([], Region([Block([k])]))] if k is not None else [BodyOp()]
    return dart.AccessPatternOp([], [], ArrayAttr([]), Region([Block(body_ops)]), [], "acc")


RULE_SHAPES = ([dict(op=o, acc="none", body="none") for o in ("copy", "generic", "sync", "other")]
               + [dict(op="region", acc=a, body=b) for a in ("xdma", "alu") for b in ("add_i32", "rescale_down", "rescale_up", "mul_i32", "nogeneric")])


@contract
class dispatching_rules_contract:
    """each op belongs to exactly the cores the rule names: never both; data movement / compute ops to one of them;
    everything else - in particular the cluster barrier - to neither (it runs on all cores)"""
    target = "snaxc.util.dispatching_rules.dispatch_to_dm"
    shapes = RULE_SHAPES
    native = False
    total = True
    permissive = True

    def args(sh, sym):
        acc = None
        if sh["op"] == "copy":
            op = memref.CopyOp(mk_ident_value(9300), mk_ident_value(9301))
        elif sh["op"] == "generic":
            op = linalg.GenericOp([], [], Region([Block([])]), None, None, [], None, None)
        elif sh["op"] == "sync":
            op = snax.ClusterSyncOp()
        elif sh["op"] == "other":
            op = BodyOp()
        else:
            op = mk_region_op(sh["body"])
            acc = SNAXXDMAAccelerator() if sh["acc"] == "xdma" else SNAXAluAccelerator()
        return [op, CtxView(acc)]

    def run(sh, a):
        return (rules.dispatch_to_dm(a[0], a[1]), rules.dispatch_to_compute(a[0], a[1]))

    def ensures(sh, a, ret):
        dm, comp = ret
        check("never both the data-mover and the compute core", not (dm and comp))
        if sh["op"] == "copy":
            check("memref.copy runs on the data-mover core", dm and not comp)
        elif sh["op"] == "generic":
            check("linalg.generic runs on the compute core", comp and not dm)
        elif sh["op"] in ("sync", "other"):
            check("barriers and all other ops are guarded for no core (they run on all cores)", not dm and not comp)
        elif sh["acc"] == "alu":
            check("a streaming region of a compute accelerator runs on the compute core", comp and not dm)
        elif sh["body"] in ("add_i32", "rescale_down", "rescale_up"):
            check("an xDMA region whose kernel is provided by a streamer extension runs on the data-mover core", dm and not comp)
        else:
            # kernels no extension provides are rejected earlier by get_template (RuntimeError): outside the precondition;
            # what holds regardless is stated above (never both)
            check("an xDMA region with an unsupported kernel is not sent to the data mover", not dm)

    def canary(sh, a, ret):
        check("canary: nothing is dispatched anywhere", not ret[0] and not ret[1])


from pyvc.api import performing_rewriter  # noqa: E402


class DOp(Operation):
    """an op of the function body with ghost dispatch flags (the rules are used through their contract)"""

    def __init__(self, dm, comp, regions=()):
        self._init_op([], [], [])
        self.dm = dm
        self.comp = comp
        self.regions = list(regions)
        for r in self.regions:
            r.parent = self


def dm_rule(local):
    return getattr(local["op"], "dm", False)


def comp_rule(local):
    return getattr(local["op"], "comp", False)


def collect_guarded(log, func_call):
    """from the recorded rewrites: {op: 'dm' | 'compute'} for every op moved under a core guard"""
    ifs = {}
    moved = []
    for e in log:
        if e[0] != "insert_op":
            continue
        for o in e[1]:
            if isinstance(o, scf.IfOp):
                ifs[len(ifs)] = o
            elif isinstance(o, DOp):
                anchor = e[2].anchor
                owner = [i for i in ifs.values() if any(y is anchor for y in i.true_region.block.ops)]
                moved.append((o, owner[0] if len(owner) == 1 else None))
    return moved


DISPATCH_SHAPES = [dict(n=n, nested=ne, cores=c) for n in (1, 2, 3) for ne in (False, True) for c in (2, 3) if not (n == 3 and ne)] + [
    dict(n=2, nested=False, cores=2, blocks=2)]


@contract
class DispatchRegionsRewriter_contract:
    """every op ends up guarded for exactly the core its rule names (or unguarded), each at most once, in the original
    relative order; the two guards are `core == nb_cores-1` and `core == 0` on one core-id call pinned to 0..nb_cores-1"""
    target = "snaxc.transforms.dispatch_regions.DispatchRegionsRewriter.match_and_rewrite"
    shapes = DISPATCH_SHAPES
    native = False
    total = True
    permissive = True
    modular = {"snaxc.util.dispatching_rules.dispatch_to_dm": dm_rule, "snaxc.util.dispatching_rules.dispatch_to_compute": comp_rule}

    def args(sh, sym):
        ops = []
        for k in range(sh["n"]):
            ops.append(DOp(sym.bool(f"dm{k}"), sym.bool(f"comp{k}")))
        top = list(ops)
        if sh["nested"]:
            inner = [DOp(sym.bool("dm_in0"), sym.bool("comp_in0")), DOp(False, False)]
            loop = DOp(False, False, [Region([Block(inner)])])
            top.insert(1, loop)
            ops = [ops[0], inner[0]] + ops[1:]
        top.append(DOp(False, False))  # terminator
        if sh.get("blocks") == 2:
            # a function with two blocks: the first op (and a terminator) in ^bb0, the rest in ^bb1
            f = func.FuncOp("f", None, Region([Block([top[0], DOp(False, False)]), Block(top[1:])]))
        else:
            f = func.FuncOp("f", None, Region([Block(top)]))
        return [f, ops, top]

    def requires(sh, a):
        # dispatching_rules_contract: no op belongs to both cores
        return all(not (o.dm and o.comp) for o in a[1])

    def run(sh, a):
        # the compute phase walks the function the data-mover phase has just rewritten: insertions and detaches are PERFORMED
        rw = performing_rewriter(a[0])
        dr.DispatchRegionsRewriter(sh["cores"], None).match_and_rewrite(a[0], rw)
        return rw.log

    def ensures(sh, a, ret):
        f, ops, top = a
        moved = collect_guarded(ret, None)
        calls = [o for e in ret if e[0] == "insert_op" for o in e[1] if isinstance(o, func.CallOp)]
        for k, o in enumerate(ops):
            mine = [m for m in moved if m[0] is o]
            check(f"op {k}: guarded at most once", len(mine) <= 1)
            check(f"op {k}: guarded exactly when a rule names a core for it", (len(mine) == 1) == (o.dm or o.comp))
            if len(mine) == 1 and mine[0][1] is not None:
                cmp_ = mine[0][1].cond.owner
                check(f"op {k}: the guard compares the core id call with the constant of ITS core (data mover = nb_cores-1, compute = 0)",
                      isinstance(cmp_, arith.CmpiOp) and isinstance(cmp_.operands[0].owner, func.CallOp) and cmp_.operands[0].owner.callee.string_value() == "snax_cluster_core_idx"
                      and cmp_.predicate == "eq" and ((o.dm and den(cmp_.operands[1]) == sh["cores"] - 1) or (o.comp and den(cmp_.operands[1]) == 0)))
            elif len(mine) == 1:
                check(f"op {k}: moved under an scf.if created by the dispatcher", False)
        check("only ops a rule names are ever moved under a guard", all(any(o is m[0] for o in ops) for m in moved))
        by_if = {}
        for m in moved:
            idx = [i for i, o in enumerate(ops) if o is m[0]]
            if len(idx) == 1:
                by_if.setdefault(id(m[1]), []).append(idx[0])
        check("inside each guard the ops keep their original relative order", all(v == sorted(v) for v in by_if.values()))
        if len(moved) > 0:
            check("the core id is obtained by exactly one call, pinned to the constants 0..nb_cores-1", len(calls) == 1
                  and [x.value.data for x in calls[0].attributes["pin_to_constants"].data] == list(range(sh["cores"])))
        check("for nb_cores >= 2 no core id satisfies both guards", sh["cores"] - 1 != 0)

    def canary(sh, a, ret):
        check("canary: nothing is ever guarded", len(collect_guarded(ret, None)) == 0)


# =====================================================================================
# C18: tosa.rescale (+clamp) -> kernel.rescale, and kernel.rescale -> arithmetic
# =====================================================================================
from pyvc.api import bv_add, bv_ashr, bv_mul, bv_sext, bv_sle, bv_smax, bv_smin, bv_sub  # noqa: E402
from xdsl.dialects import tosa  # noqa: E402
from xdsl.dialects.builtin import DenseArrayBase, IntegerAttr, StringAttr, TensorType  # noqa: E402
from xdsl.ir import Use  # noqa: E402

import snaxc.transforms.convert_tosa_to_kernel as t2k  # noqa: E402


@contract
class RescaleClampPattern_contract:
    """tosa.rescale (+ tosa.clamp) -> linalg.generic { kernel.rescale }: every parameter is carried over unchanged, the
    clamp bounds are those of the tosa.clamp, and WITHOUT a clamp they are exactly the signed range of the output
    element type (tosa.rescale saturates to the output type)"""
    target = "snaxc.transforms.convert_tosa_to_kernel.RescaleClampPattern.match_and_rewrite"
    shapes = [dict(clamp=c, out=o, uses=u, dr=d) for c in (False, True) for o in (8, 32, 16) for u in (1, 2) for d in (False, True)
              if not (u == 2 and (c or d)) and not (o == 16 and d)]
    native = False
    total = True
    permissive = True
    compare_ret = False

    def args(sh, sym):
        w = sh["out"]
        in_t = TensorType(i32, [4, 4])
        out_t = TensorType(IntegerType(w), [4, 4])
        x = mk_ssa(None, in_t)
        p = dict(zi=sym.int("input_zp", -(1 << 31), (1 << 31) - 1), zo=sym.int("output_zp", -(1 << 31), (1 << 31) - 1),
                 m=sym.int("multiplier", -(1 << 31), (1 << 31) - 1), s=sym.int("shift", 0, 63),
                 lo=sym.int("clamp_min", -(1 << (w - 1)), (1 << (w - 1)) - 1), hi=sym.int("clamp_max", -(1 << (w - 1)), (1 << (w - 1)) - 1))
        consts = [tosa.ConstOp(DenseArrayBase((v,), i32)) for v in (p["m"], p["s"], p["zi"], p["zo"])]
        r = tosa.RescaleOp(x, consts[0].output, consts[1].output, consts[2].output, consts[3].output, out_t,
                           StringAttr("DOUBLE_ROUND" if sh["dr"] else "SINGLE_ROUND"))
        users = []
        if sh["clamp"]:
            c = tosa.ClampOp(r.output, IntegerAttr(p["lo"], IntegerType(w)), IntegerAttr(p["hi"], IntegerType(w)), out_t)
            r.output.uses.append(Use(c, 0))
            users.append(c)
        else:
            for _ in range(sh["uses"]):
                u = BodyOp()
                r.output.uses.append(Use(u, 0))
                users.append(u)
        return [t2k.RescaleClampPattern(), r, p, users]

    def run(sh, a):
        rw = PatternRewriter(a[1])
        a[0].match_and_rewrite(a[1], rw)
        return rw.log

    def ensures(sh, a, ret):
        pat, r, p, users = a
        w = sh["out"]
        if len(ret) == 0:
            check("a rescale is only left alone when it has several users or an output type without a default range",
                  sh["uses"] != 1 or (not sh["clamp"] and w not in (8, 32)))
            return
        reps = [e for e in ret if e[0] == "replace_op"]
        last = users[0] if sh["clamp"] else r
        check("the last op of the pair is replaced by the new generic", len(reps) == 1 and reps[0][1] is last)
        check("the rescale is erased when the clamp was replaced", (not sh["clamp"]) or any(e[0] == "erase_op" and e[1] is r for e in ret))
        g = reps[0][2][-1]
        check("the replacement ends in a linalg.generic on the rescale input", isinstance(g, linalg.GenericOp) and g.inputs[0] is r.input)
        k = g.body.block.ops[0]
        check("its body is one kernel.rescale on the input element, yielded", isinstance(k, kernel.RescaleOp) and k.operands[0] is g.body.block.args[0]
              and isinstance(g.body.block.ops[1], linalg.YieldOp) and g.body.block.ops[1].operands[0] is k.results[0])
        at = k.attributes
        check("zero points, multiplier and shift are those of the tosa.rescale",
              at["input_zp"].value.data == p["zi"] and at["output_zp"].value.data == p["zo"]
              and list(at["multiplier"].get_values()) == [p["m"]] and list(at["shift"].get_values()) == [p["s"]])
        check("double_round mirrors the rounding mode", at["double_round"].value.data == (1 if sh["dr"] else 0))
        if sh["clamp"]:
            check("clamp bounds are those of the tosa.clamp", at["min_int"].value.data == p["lo"] and at["max_int"].value.data == p["hi"])
        else:
            check("without a clamp the result saturates to the signed range of the output element type: [-(2^(w-1)), 2^(w-1) - 1]",
                  at["min_int"].value.data == -(1 << (w - 1)) and at["max_int"].value.data == (1 << (w - 1)) - 1)
        check("the kernel result has the output element type", k.results[0].type == IntegerType(w))

    def canary(sh, a, ret):
        check("canary: never rewritten", len(ret) == 0 and sh["uses"] == 1 and sh["out"] == 8)


def golden_rescale(x, zi, zo, m, s, lo, hi, dr):
    """util/gemmx/simd_golden_model.py (the repository's reference for the rescale unit) in fixed-width words"""
    d = bv_sub(x, zi, 32)
    prod = bv_mul(bv_sext(d, 32, 64), m, 64)  # np.int64(var) * np.int64(multiplier): m is already a 64-bit word
    v64 = bv_ashr(prod, bv_sub(s, 1, 64), 64)
    v = bv_sext(v64, 64, 32)  # np.int32(...): truncation
    if dr:
        v = ite(bv_sle(0, v, 32), bv_add(v, 1, 32), bv_sub(v, 1, 32))
    v = bv_ashr(v, 1, 32)
    v = bv_add(v, zo, 32)
    v = bv_smin(bv_smax(v, lo, 32), hi, 32)  # np.clip
    return v, v64


@contract
class LowerRescale_contract:
    """kernel.rescale -> arith: the emitted arithmetic (exact 32/64-bit word semantics) equals the repository's golden
    model of the rescale unit (util/gemmx/simd_golden_model.py) for every input, zero point, multiplier, shift and clamp
    range for which the golden model's own intermediate fits its int32"""
    target = "snaxc.transforms.convert_kernel_to_linalg.LowerRescale.match_and_rewrite"
    shapes = [dict(dr=False, shift=k) for k in range(1, 64)] + [dict(dr=True, shift=k) for k in (1, 2, 17, 40, 63)]
    total = True
    permissive = True
    compare_ret = False

    def args(sh, sym):
        # parameters are 64-bit words read as signed numbers in their attribute ranges: no integer <-> bit-vector
        # conversions in the verification conditions; the shift is enumerated (all 63 values)
        i32lo, i32hi = -(1 << 31), (1 << 31) - 1
        return [sym.bv("x", 32), sym.sbv("input_zp", 64, i32lo, i32hi), sym.sbv("output_zp", 64, i32lo, i32hi), sym.sbv("multiplier", 64, i32lo, i32hi),
                sh["shift"], sym.sbv("min_int", 64, -128, 127), sym.sbv("max_int", 64, -128, 127)]

    def requires(sh, a):
        return bv_sle(a[5], a[6], 64)

    def run(sh, a):
        set_bv_all(True)
        x, zi, zo, m, s, lo, hi = a
        k = kernel.RescaleOp(mk_ssa(x, i32), i8, IntegerAttr(zi, i32), IntegerAttr(zo, i32), DenseArrayBase((m,), i32), DenseArrayBase((s,), i32),
                             IntegerAttr(hi, i32), IntegerAttr(lo, i32), sh["dr"])
        body = Region([Block([k, linalg.YieldOp(k)])])
        linalg.GenericOp([], [], body, None, None, [], None, None)
        rw = PatternRewriter(k)
        k2l.LowerRescale().match_and_rewrite(k, rw)
        reps = [e for e in rw.log if e[0] == "replace_op" and e[1] is k]
        if len(reps) != 1:
            return dict(replaced=False)
        out = reps[0][2][-1]
        return dict(replaced=True, i8=out.results[0].type == i8, got=den(out), np_ref=None, prod=den(reps[0][2][2]))

    def native_run(sh, a):
        from xdsl.dialects.builtin import AffineMapAttr, ArrayAttr, MemRefType, ModuleOp
        from xdsl.ir.affine import AffineMap
        from xdsl.utils.test_value import create_ssa_value
        x, zi, zo, m, s, lo, hi = a
        blk = Block(arg_types=[i32, i8])
        k = kernel.RescaleOp(blk.args[0], i8, zi, zo, [m], [s], hi, lo, sh["dr"])
        blk.add_ops([k, linalg.YieldOp(k)])
        g = linalg.GenericOp([create_ssa_value(MemRefType(i32, [4]))], [create_ssa_value(MemRefType(i8, [4]))], Region([blk]),
                             [AffineMapAttr(AffineMap.identity(1)), AffineMapAttr(AffineMap.identity(1))],
                             ArrayAttr([linalg.IteratorTypeAttr.parallel()]), [])
        mod = ModuleOp([g])
        rw = PatternRewriter(k)
        k2l.LowerRescale().match_and_rewrite(k, rw)
        y = blk.last_op
        out = y.operands[0]
        if out is k.results[0]:
            return dict(replaced=False)
        # the ORIGINAL numpy golden model on the same input (cross-checks the word-level transcription `golden_rescale`)
        import numpy as np
        try:
            from util.gemmx.simd_golden_model import postprocessing_simd_golden_model
        except ImportError:
            postprocessing_simd_golden_model = None  # tree without util/: the cross-check is skipped, nothing else changes
        np_ref = None
        if postprocessing_simd_golden_model is not None:
            xs = x - (1 << 32) if x >> 31 else x
            with np.errstate(all="ignore"):
                np_ref = int(postprocessing_simd_golden_model(np.array([xs], dtype=np.int64), zi, zo, s, hi, lo, 1 if sh["dr"] else 0, m)[0])
        return dict(replaced=True, i8=out.type == i8, got=den(out, {id(blk.args[0]): x}), np_ref=np_ref, prod=None)

    def ensures(sh, a, ret):
        x, zi, zo, m, s, lo, hi = a
        check("the kernel op is replaced by arithmetic", ret["replaced"])
        check("the result is an i8 value", ret["i8"])
        got = ret["got"]
        ref, v64 = golden_rescale(x, zi, zo, m, s, lo, hi, sh["dr"])
        fits = bv_eq(bv_sext(bv_sext(v64, 64, 32), 32, 64), v64, 64) and bv_eq(bv_sub(bv_sext(x, 32, 64), bv_sext(zi, 32, 64), 64), bv_sext(bv_sub(x, zi, 32), 32, 64), 64)
        check("(decided natively only) the contract's word-level transcription agrees with the numpy golden model",
              True if ret["np_ref"] is None else implies(fits, bv_eq(ref, ret["np_ref"], 32)))
        if sh["dr"]:
            check("with double rounding the lowered arithmetic equals the golden model (rounding is NOT ignored)", implies(fits, bv_eq(bv_sext(got, 8, 32), ref, 32)))
        else:
            # the 64-bit product is the same term in the code and in the model: the proof does not need to look inside
            check("the lowered arithmetic equals the golden model (single rounding) whenever the model's intermediate fits int32",
                  implies(fits, bv_eq(bv_sext(got, 8, 32), ref, 32)), generalize=[ret["prod"]])
        check("the result always lies inside the clamp range", bv_sle(lo, bv_sext(got, 8, 32), 32) and bv_sle(bv_sext(got, 8, 32), hi, 32), generalize=[ret["prod"]])

    def canary(sh, a, ret):
        check("canary: the result is always 0", bv_eq(ret["got"], 0, 8))


EXT_CASES = ["narrow_mac", "ext_add", "canonical_mac"]


@contract
class check_kernel_equivalence_ext_contract:
    """mixed-width bodies: where the sign extension sits matters (a narrow multiply wraps before it is widened) - bodies
    that differ in the position of arith.extsi are only accepted if they compute the same function"""
    target = "snaxc.transforms.convert_linalg_to_kernel.check_kernel_equivalence"
    shapes = [dict(case=c, w=w) for c in EXT_CASES for w in (8, 16)]
    native = False
    total = True

    def args(sh, sym):
        set_bv_all(True)
        w = sh["w"]
        tn, tw = IntegerType(w), IntegerType(2 * w)
        x0, x1, acc = mk_ssa(sym.bv("x0", w), tn), mk_ssa(sym.bv("x1", w), tn), mk_ssa(sym.bv("acc", 2 * w), tw)
        # B: the kernel's own form  extsi; extsi; muli; addi acc
        e0, e1 = arith.ExtSIOp(x0, tw), arith.ExtSIOp(x1, tw)
        mb = arith.MuliOp(e0, e1)
        rb = arith.AddiOp(mb, acc)
        blk_b = Block([e0, e1, mb, rb, linalg.YieldOp(rb)])
        if sh["case"] == "narrow_mac":
            # A: multiply in the NARROW type, then widen, then accumulate
            m = arith.MuliOp(x0, x1)
            e = arith.ExtSIOp(m, tw)
            r = arith.AddiOp(e, acc)
            blk_a = Block([m, e, r, linalg.YieldOp(r)])
        elif sh["case"] == "ext_add":
            f0, f1 = arith.ExtSIOp(x0, tw), arith.ExtSIOp(x1, tw)
            r = arith.AddiOp(f0, f1)
            blk_a = Block([f0, f1, r, linalg.YieldOp(r)])
        else:
            f0, f1 = arith.ExtSIOp(x0, tw), arith.ExtSIOp(x1, tw)
            m = arith.MuliOp(f0, f1)
            r = arith.AddiOp(m, acc)
            blk_a = Block([f0, f1, m, r, linalg.YieldOp(r)])
        return [blk_a, blk_b, den(r), den(rb)]

    def ensures(sh, a, ret):
        if ret:
            check("bodies accepted as equivalent compute the same value for all inputs (mixed widths)", bv_eq(a[2], a[3], 2 * sh["w"]))
        else:
            check("the kernel's own form is accepted", sh["case"] != "canonical_mac")

    def canary(sh, a, ret):
        check("canary: nothing is ever equivalent", not ret)


# =====================================================================================
# the regions kernel ops expand to: signature == the kernel op's own operand / result types, body == the kernel's function
# =====================================================================================
EQ_WIDTHS = [(8, 8, 32), (8, 16, 32), (16, 8, 32), (32, 32, 32), (8, 32, 64), (16, 16, 16), (8, 8, 8), (32, 8, 64)]


@contract
class kernel_equivalent_region_contract:
    """the body a linalg.generic gets when its kernel op is expanded is fed one element of EACH operand: block argument k has
    the type of operand k of the kernel op (left and right input may differ in width), the last one the result type; a
    widening mac sign-extends the argument of ITS OWN position to the accumulator type, multiplies, and adds the accumulator"""
    target = "snaxc.dialects.kernel.MacOp.equivalent_region"
    shapes = [dict(kind="mac", widths=w) for w in EQ_WIDTHS] + [dict(kind=k, widths=w) for k in ("mul", "add") for w in EQ_WIDTHS if w[0] == w[1] == w[2]]
    native = False
    total = True
    compare_ret = False

    def args(sh, sym):
        wl, wr, wo = sh["widths"]
        a, b = mk_ident_value(9201, IntegerType(wl)), mk_ident_value(9202, IntegerType(wr))
        return [KTYPES[sh["kind"]].create(operands=[a, b], result_types=[IntegerType(wo)])]

    def run(sh, a):
        return a[0].equivalent_region

    def ensures(sh, a, ret):
        wl, wr, wo = sh["widths"]
        blk = ret.block
        args_ = list(blk.args)
        check("three block arguments: left element, right element, accumulator / result element", len(args_) == 3)
        check("argument 0 has the LEFT operand's type, argument 1 the RIGHT operand's type, argument 2 the result type",
              args_[0].type == IntegerType(wl) and args_[1].type == IntegerType(wr) and args_[2].type == IntegerType(wo))
        ops = list(blk.ops)
        y = ops[-1]
        check("the region ends in a yield of one value", isinstance(y, linalg.YieldOp) and len(y.operands) == 1)

        def ext_of(v, arg):
            """v is `arg` itself (same width as the result) or the sign extension of `arg` to the result type"""
            if v is arg:
                return True
            o = getattr(v, "owner", None)
            return isinstance(o, arith.ExtSIOp) and o.operands[0] is arg and v.type == IntegerType(wo)

        top = y.operands[0].owner
        if sh["kind"] == "mac":
            check("mac: result = accumulator + product", isinstance(top, arith.AddiOp) and any(x is args_[2] for x in top.operands))
            muls = [x.owner for x in top.operands if x is not args_[2] and isinstance(getattr(x, "owner", None), arith.MuliOp)]
            check("mac: the product multiplies (the sign extensions of) argument 0 and argument 1", len(muls) == 1 and (
                (ext_of(muls[0].operands[0], args_[0]) and ext_of(muls[0].operands[1], args_[1])) or (ext_of(muls[0].operands[0], args_[1]) and ext_of(muls[0].operands[1], args_[0]))))
            if len(muls) == 1:
                check("mac: inputs narrower than the accumulator are sign-extended, not used at their own width",
                      all(x.type == IntegerType(wo) for x in muls[0].operands))
        else:
            want = arith.MuliOp if sh["kind"] == "mul" else arith.AddiOp
            check(f"{sh['kind']}: result = argument 0 (op) argument 1", isinstance(top, want) and top.operands[0] is args_[0] and top.operands[1] is args_[1])

    def canary(sh, a, ret):
        check("canary: all three arguments have one type", ret.block.args[0].type == ret.block.args[1].type and ret.block.args[1].type == ret.block.args[2].type and sh["widths"][0] == sh["widths"][2])


@contract
class LowerRescale_channel_pairing_contract:
    """per-channel parameter arrays: the (documented: channel-blind) lowering may use the parameters of ONE channel only, but
    then the multiplier AND the shift of that same channel - a multiplier of one channel with the shift of another is the
    rescale function of no channel"""
    target = "snaxc.transforms.convert_kernel_to_linalg.LowerRescale.match_and_rewrite"
    shapes = [dict(n=n) for n in (1, 2, 3)]
    native = False
    total = True
    permissive = True
    compare_ret = False

    def args(sh, sym):
        n = sh["n"]
        return [[sym.int(f"mult{j}", 1, 1 << 30) for j in range(n)], [sym.int(f"shift{j}", 1, 63) for j in range(n)]]

    def requires(sh, a):
        mults, shifts = a
        # the channels are distinguishable: no two share a multiplier or a shift
        return all(mults[i] != mults[j] and shifts[i] != shifts[j] for i in range(len(mults)) for j in range(i))

    def run(sh, a):
        mults, shifts = a
        k = kernel.RescaleOp(mk_ident_value(9301, i32), i8, 0, 0, list(mults), list(shifts), 127, -128, False)
        body = Region([Block([k, linalg.YieldOp(k)])])
        linalg.GenericOp([], [], body, None, None, [], None, None)
        rw = PatternRewriter(k)
        k2l.LowerRescale().match_and_rewrite(k, rw)
        return rw.log

    def ensures(sh, a, ret):
        mults, shifts = a
        reps = [e for e in ret if e[0] == "replace_op"]
        check("the rescale is expanded", len(reps) == 1)
        if len(reps) != 1:
            return
        ops = reps[0][2]
        muls = [o for o in ops if isinstance(o, arith.MuliOp)]
        shrs = [o for o in ops if isinstance(o, arith.ShRSIOp)]
        check("one multiplication and one arithmetic shift right", len(muls) == 1 and len(shrs) == 1)
        if len(muls) != 1 or len(shrs) != 1:
            return
        m, s = den(muls[0].operands[1]), den(shrs[0].operands[1])
        check("the multiplier and the shift applied are those of ONE channel", any(m == mults[j] and s == shifts[j] for j in range(sh["n"])))

    def canary(sh, a, ret):
        check("canary: the shift applied is 0", any(isinstance(o, arith.ShRSIOp) and den(o.operands[1]) == 0 for e in ret if e[0] == "replace_op" for o in e[2]))
