"""Contracts for kernel recognition / dispatch / expansion (C18) and dispatching rules (C14)."""
import itertools

from pyvc.api import SYMBOLIC, check, contract, den, implies, ite, mk_ident_value, mk_ssa
from xdsl.dialects import arith, linalg
from xdsl.dialects.builtin import IntegerType, i8, i32
from xdsl.ir import Block, Operation, Region
from xdsl.pattern_rewriter import PatternRewriter

import snaxc.transforms.convert_kernel_to_linalg as k2l
import snaxc.transforms.convert_linalg_to_kernel as l2k
import snaxc.transforms.dispatch_kernels as dk
from snaxc.accelerators.dispatching import SupportedKernel
from snaxc.dialects import kernel

KTYPES = {"mac": kernel.MacOp, "add": kernel.AddOp, "mul": kernel.MulOp}


class AccView:
    """view of a DispatchTemplate accelerator: a name and its declared supported kernels"""

    def __init__(self, name, supported_kernels):
        self.name = name
        self.supported_kernels = tuple(supported_kernels)


def mk_kernel_op(kind, widths):
    a, b = mk_ident_value(9001, IntegerType(widths[0])), mk_ident_value(9002, IntegerType(widths[1]))
    return KTYPES[kind].create(operands=[a, b], result_types=[IntegerType(widths[2])])


@contract
class SupportedKernel_is_same_kernel_contract:
    target = "snaxc.accelerators.dispatching.SupportedKernel.is_same_kernel"
    shapes = [dict(sk=s, op=o) for s in ("mac", "add") for o in ("mac", "add", "none")]
    native = False
    total = True

    def args(sh, sym):
        tw = [sym.int(f"tw{i}", 1, 64) for i in range(3)]
        kw = [sym.int(f"kw{i}", 1, 64) for i in range(3)]
        sk = SupportedKernel(KTYPES[sh["sk"]], [IntegerType(w) for w in tw])
        op = None if sh["op"] == "none" else mk_kernel_op(sh["op"], kw)
        return [sk, op, tw, kw]

    def ensures(sh, a, ret):
        sk, op, tw, kw = a
        check("same kernel <=> same kernel class AND every operand/result type equal", ret == (sh["sk"] == sh["op"] and all(tw[i] == kw[i] for i in range(3))))

    def canary(sh, a, ret):
        check("canary: types never matter", ret == (sh["sk"] == sh["op"]))


@contract
class DispatchTemplatePattern_contract:
    """a kernel is dispatched only to an accelerator that declares support for that kernel WITH those operand types"""
    target = "snaxc.transforms.dispatch_kernels.DispatchTemplatePattern.match_and_rewrite"
    shapes = [dict(kind=k, accs=a) for k in ("mac", "add") for a in (("mac",), ("add", "mac"), ("mac", "mac"), ("mul",))]
    native = False
    total = True
    permissive = True

    def args(sh, sym):
        kw = [sym.int(f"kw{i}", 1, 64) for i in range(3)]
        kop = mk_kernel_op(sh["kind"], kw)
        accs = []
        tws = []
        for j, s in enumerate(sh["accs"]):
            tw = [sym.int(f"tw{j}_{i}", 1, 64) for i in range(3)]
            tws.append(tw)
            accs.append(AccView(f"acc{j}", [SupportedKernel(KTYPES[s], [IntegerType(w) for w in tw])]))
        body = Region([Block([kop, linalg.YieldOp(kop.results[0])])])
        lop = linalg.GenericOp([], [], body, None, None, [], None, None)
        return [lop, accs, kw, tws]

    def run(sh, a):
        rw = PatternRewriter(a[0])
        dk.DispatchTemplatePattern(a[1]).match_and_rewrite(a[0], rw)
        return a[0].library_call

    def ensures(sh, a, ret):
        lop, accs, kw, tws = a
        supported = [sh["accs"][j] == sh["kind"] and all(tws[j][i] == kw[i] for i in range(3)) for j in range(len(accs))]
        if ret is None:
            check("not dispatched only if no accelerator supports the kernel with these types", not any(supported))
        else:
            name = ret.data
            check("dispatched to an accelerator that declares this kernel with exactly these operand types",
                  any(supported[j] and name == f"acc{j}" for j in range(len(accs))))

    def canary(sh, a, ret):
        check("canary: nothing is ever dispatched", ret is None)


class BodyOp(Operation):
    """an op of a linalg body that is neither a kernel op nor the yield"""

    def __init__(self):
        self._init_op([], [], [])


@contract
class LowerLinalgBody_contract:
    """a body is expanded into a kernel's arithmetic only if it consists of exactly that one kernel op"""
    target = "snaxc.transforms.convert_kernel_to_linalg.LowerLinalgBody.match_and_rewrite"
    shapes = [dict(body=list(b)) for b in (("add",), ("mul",), ("add", "rescale"), ("mul", "rescale"), ("add", "mul"), ("rescale",), ("other", "add"), ("add", "other"))]
    native = False
    total = True
    permissive = True

    def args(sh, sym):
        ops = []
        x = mk_ident_value(9100, i32)
        for k in sh["body"]:
            if k in KTYPES:
                ops.append(KTYPES[k].create(operands=[x, x], result_types=[i32]))
            elif k == "rescale":
                ops.append(kernel.RescaleOp(x, i8, 0, 0, [1], [0], 127, -128, False))
            else:
                ops.append(BodyOp())
        body = Region([Block(ops + [linalg.YieldOp(x)])])
        return [linalg.GenericOp([], [], body, None, None, [], None, None), ops]

    def run(sh, a):
        rw = PatternRewriter(a[0])
        k2l.LowerLinalgBody().match_and_rewrite(a[0], rw)
        return rw.log

    def ensures(sh, a, ret):
        lop, ops = a
        single = len(sh["body"]) == 1 and sh["body"][0] in KTYPES
        if len(ret) == 0:
            check("a body of exactly one expandable kernel op is expanded", not single)
        else:
            check("only a body consisting of exactly one kernel op (plus the yield) is replaced by that kernel's arithmetic", single)
            rep = [e for e in ret if e[0] == "replace_op"]
            check("the whole generic is replaced once", len(rep) == 1 and rep[0][1] is lop and len(rep[0][2]) == 1)
            new = rep[0][2][0]
            blk = new.body.block
            kind = sh["body"][0]
            exp = dict(add=arith.AddiOp, mul=arith.MuliOp, mac=arith.MuliOp)[kind]
            check("the new body is the kernel's equivalent region: its arithmetic on the block arguments, then a yield of the result",
                  isinstance(blk.ops[0], exp) and blk.ops[0].operands[0] is blk.args[0] and blk.ops[0].operands[1] is blk.args[1]
                  and isinstance(blk.ops[-1], linalg.YieldOp) and blk.ops[-1].operands[0] is blk.ops[-2].results[0])

    def canary(sh, a, ret):
        check("canary: never expanded", len(ret) == 0)


# =====================================================================================
# check_kernel_equivalence: bodies that merely contain the same KINDS of ops but wire them differently are not equivalent
# =====================================================================================
from pyvc.api import bv_eq  # noqa: E402

OPK = {"add": arith.AddiOp, "sub": arith.SubiOp, "mul": arith.MuliOp}


def set_bv_all(on):
    import xdsl.dialects.arith as arith_mod
    if hasattr(arith_mod, "MODE"):
        arith_mod.MODE["bv"] = "all" if on else False


def pick(sym, name, cands):
    """one of the candidate SSA values, chosen by a symbolic index (symbolic WIRING): the value whose denotation is the
    ite-selection of the candidates' denotations"""
    idx = sym.int(name, 0, len(cands) - 1)
    d = den(cands[len(cands) - 1])
    for k in reversed(range(len(cands) - 1)):
        d = ite(idx == k, den(cands[k]), d)
    return mk_ssa(d, cands[0].type), idx


def mk_body(sym, pfx, kinds, args, w):
    vals = list(args)
    ops = []
    wiring = []
    for k, kind in enumerate(kinds):
        x, ix = pick(sym, f"{pfx}w{k}a", vals)
        y, iy = pick(sym, f"{pfx}w{k}b", vals)
        o = OPK[kind](x, y)
        ops.append(o)
        vals.append(o.results[0])
        wiring.append((ix, iy))
    ops.append(linalg.YieldOp(ops[-1].results[0]))
    return Block(ops), den(ops[-2].results[0]), wiring


KSEQ = [list(s) for n in (1, 2, 3) for s in itertools.product(("add", "mul", "sub"), repeat=n) if n < 3 or s in (("mul", "add", "add"), ("add", "mul", "sub"))]


@contract
class check_kernel_equivalence_contract:
    """`True` only for bodies that compute the same function of their scalar inputs, for ALL input values (w-bit
    wrap-around arithmetic) - wiring and operand order included"""
    target = "snaxc.transforms.convert_linalg_to_kernel.check_kernel_equivalence"
    shapes = [dict(a=ka, b=kb, w=w) for ka in KSEQ for kb in (ka, ka[:-1] + ["mul" if ka[-1] != "mul" else "add"], ka + ["add"]) for w in (8, 32) if not (w == 32 and len(ka) > 2)]
    quick = lambda sh: sh["w"] == 8 and len(sh["a"]) <= 2
    native = False
    total = True

    def args(sh, sym):
        set_bv_all(True)
        w = sh["w"]
        ins = [mk_ssa(sym.bv(f"x{i}", w), IntegerType(w)) for i in range(3)]
        ba, ea, wa = mk_body(sym, "a", sh["a"], ins, w)
        bb, eb, wb = mk_body(sym, "b", sh["b"], ins, w)
        return [ba, bb, ea, eb, wa, wb]

    def ensures(sh, a, ret):
        ba, bb, ea, eb, wa, wb = a
        if ret:
            check("bodies accepted as equivalent compute the same value for all inputs", bv_eq(ea, eb, sh["w"]))
        else:
            check("bodies with different op sequences are rejected", sh["a"] != sh["b"])

    def canary(sh, a, ret):
        check("canary: nothing is ever equivalent", not ret)
