"""Contracts for snaxc/transforms/memref_to_snax.py and snax_allocate.py (C11)."""
from pyvc.api import SYMBOLIC, check, contract, den, implies, mk_memref_value, mk_opresult
from xdsl.dialects import memref
from xdsl.dialects.builtin import DYNAMIC_INDEX, IndexType, IntegerType, MemRefType, NoneAttr, StringAttr
from xdsl.pattern_rewriter import PatternRewriter

import snaxc.transforms.memref_to_snax as m2s
from contracts.tsl import DYN, mk_tsl
from snaxc.dialects import snax
from snaxc.dialects.tsl import TiledStridedLayoutAttr


def build_alloc(sym, sh):
    """memref.alloc of the given layout kind; returns (op, layout or None, run-time shape list, element bytes)"""
    bits = sh["bits"]
    if sh["layout"] == "none":
        rank = sh["rank"]
        dyn = sh["dyn"]
        shape, rt, dyn_sizes = [], [], []
        for d in range(rank):
            n = sym.int(f"N{d}", 1)
            if dyn == "dyn0" and d == 0:
                shape.append(DYNAMIC_INDEX)
                dyn_sizes.append(mk_opresult(n, IndexType()))
            else:
                shape.append(n)
            rt.append(n)
        op = memref.AllocOp.get(IntegerType(bits), 64, shape, dyn_sizes, NoneAttr(), StringAttr("L1"))
        return op, None, rt, (bits + 7) // 8
    tsl = mk_tsl(sym, sh["rank"], sh["depth"], sh["dyn"])
    shape, rt, dyn_sizes = [], [], []
    for d in range(sh["rank"]):
        inner = 1
        for s in tsl.tstrides[d].strides[1:]:
            inner = inner * s.bound
        outer = tsl.tstrides[d].strides[0].bound
        if outer is None:
            q = sym.int(f"Q{d}", 1)  # run-time outer bound: the run-time shape is outer bound * inner tile product
            shape.append(DYNAMIC_INDEX)
            dyn_sizes.append(mk_opresult(q * inner, IndexType()))
            rt.append(q * inner)
        else:
            shape.append(outer * inner)
            rt.append(outer * inner)
    op = memref.AllocOp.get(IntegerType(bits), 64, shape, dyn_sizes, TiledStridedLayoutAttr(tsl), StringAttr("L1"))
    return op, tsl, rt, (bits + 7) // 8


ALLOC_SHAPES = ([dict(layout="none", rank=r, depth=0, dyn=v, bits=b) for r in (1, 2, 3, 4) for v in ("static", "dyn0") for b in (8, 32)]
                + [dict(layout="tsl", rank=r, depth=d, dyn=v, bits=b) for r in (1, 2) for d in (1, 2, 3) for v in DYN for b in (8, 32, 64) if r * d <= 4]
                + [dict(layout=l, rank=1, depth=(0 if l == "none" else 1), dyn="static", bits=b) for l in ("none", "tsl") for b in (1, 12)])


@contract
class AllocOpRewrite_contract:
    """the byte size handed to snax.alloc covers the highest address the layout can touch (element size and offset included)"""
    target = "snaxc.transforms.memref_to_snax.AllocOpRewrite.match_and_rewrite"
    shapes = ALLOC_SHAPES
    quick = lambda sh: sh["rank"] * max(sh["depth"], 1) <= 2 or (sh["rank"] == 2 and sh["depth"] == 2 and sh["bits"] == 32)
    total = True
    permissive = True
    compare_ret = False

    def args(sh, sym):
        op, tsl, rt, el = build_alloc(sym, sh)
        # witness digits of an arbitrary element
        if tsl is None:
            t = [sym.int(f"i{d}", 0) for d in range(sh["rank"])]
        else:
            t = [[sym.int(f"t{d}_{k}", 0) for k in range(sh["depth"])] for d in range(sh["rank"])]
        return [op, tsl, rt, el, t]

    def run(sh, a):
        op = a[0]
        rw = PatternRewriter(op)
        m2s.AllocOpRewrite().match_and_rewrite(op, rw)
        assert len(rw.log) == 1 and rw.log[0][0] == "replace_op" and rw.log[0][1] is op
        new_ops = rw.log[0][2]
        allocs = [o for o in new_ops if isinstance(o, snax.Alloc)]
        return dict(allocs=allocs, new_ops=new_ops, new_results=rw.log[0][3])

    def native_run(sh, a):
        from xdsl.dialects.builtin import ModuleOp
        op = a[0]
        mod = ModuleOp([op])
        rw = PatternRewriter(op)
        m2s.AllocOpRewrite().match_and_rewrite(op, rw)
        new_ops = list(mod.body.block.ops)
        allocs = [o for o in new_ops if isinstance(o, snax.Alloc)]
        return dict(allocs=allocs, new_ops=new_ops, new_results=None)

    def ensures(sh, a, ret):
        op, tsl, rt, el, t = a
        check("exactly one snax.alloc replaces the memref.alloc", len(ret["allocs"]) == 1)
        alloc = ret["allocs"][0]
        size = den(alloc.size)
        check("one shape operand per dimension, denoting the run-time shape", [den(s) for s in alloc.shapes] == rt)
        if tsl is None:
            n = 1
            for d in range(sh["rank"]):
                n = n * rt[d]
            check("row-major: size == element bytes * number of elements", size == el * n)
        else:
            # the bounds / byte steps are the ones the layout's own views denote (proved consistent under C10)
            _, b = TiledStridedLayoutAttr(tsl).get_bound_ops([mk_opresult(x, IndexType()).op if SYMBOLIC else mk_opresult(x, IndexType()).owner for x in rt])
            _, s = TiledStridedLayoutAttr(tsl).get_step_ops(b, op.memref, True)
            in_range = all(0 <= t[d][k] and t[d][k] < den(b[(d, k)]) for d in range(sh["rank"]) for k in range(sh["depth"]))
            last_byte = tsl.offset * el + sum(t[d][k] * den(s[(d, k)]) for d in range(sh["rank"]) for k in range(sh["depth"])) + el - 1
            check("every element's last byte lies inside the allocation (offset and element size included)", implies(in_range, last_byte < size))

    def canary(sh, a, ret):
        check("canary: allocation is a single element", den(ret["allocs"][0].size) == a[3])


# ---- the same postcondition when the size computation consults the layout's own predicates ----------------------
from pyvc.api import assume, fresh_int  # noqa: E402


def _extent(tsl):
    """highest offset-free address + 1 and number of elements of a static layout"""
    hi, n = 0, 1
    for ts in tsl.tstrides:
        for st in ts.strides:
            hi = hi + (st.bound - 1) * st.step
            n = n * st.bound
    return hi, n


def is_dense_contract(local):
    """TiledStridedLayout.is_dense through its contract (bounded check `overlap_dense` under C10: true exactly when the
    OFFSET-FREE address function is a bijection onto [0, N)); what follows from it here: the highest offset-free address
    is N - 1.  Nothing is promised about the offset - is_dense does not look at it"""
    tsl = local["self"]
    dense = fresh_int("is_dense") == 1
    hi, n = _extent(tsl)
    assume(implies(dense, hi == n - 1))
    return dense


def self_overlaps_contract(local):
    """self_overlaps(): two elements share an address (an arbitrary answer is a sound abstraction here)"""
    return fresh_int("self_overlaps") == 1


@contract
class AllocOpRewrite_layout_predicates_contract(AllocOpRewrite_contract):
    """AllocOpRewrite's postcondition again for static tiled-strided layouts, with is_dense / self_overlaps available to
    the code through their contracts: a size computation that special-cases dense (gap-free) layouts must still include
    the layout OFFSET and the element size"""
    shapes = [sh for sh in ALLOC_SHAPES if sh["layout"] == "tsl" and sh["dyn"] == "static" and sh["rank"] * sh["depth"] <= 2]
    quick = lambda sh: True
    native = False
    modular = {"snaxc.ir.tsl.tiled_strided_layout.TiledStridedLayout.is_dense": is_dense_contract,
               "snaxc.ir.tsl.tiled_strided_layout.TiledStridedLayout.self_overlaps": self_overlaps_contract}


# =====================================================================================
# snaxc/transforms/snax_allocate.py
# =====================================================================================
from xdsl.dialects import arith, llvm  # noqa: E402
from xdsl.dialects.builtin import IntegerAttr, i32  # noqa: E402

import snaxc.transforms.snax_allocate as sa  # noqa: E402
from snaxc.util.snax_memory import SnaxMemory  # noqa: E402


def mk_snax_alloc(size, nshapes, alignment, sym):
    size_op = arith.ConstantOp.from_int_and_width(size, IndexType())
    shapes = [mk_opresult(sym.int(f"S{i}", 1), IndexType()) for i in range(nshapes)]
    return snax.Alloc(nshapes, size_op.result, shapes, StringAttr("Test"), IntegerAttr(alignment, IntegerType(64)))


def struct_of(ops):
    """denotation {position: SSA value} of the memref descriptor built by a list of llvm ops (the last InsertValueOp)"""
    d = {}
    for o in ops:
        if isinstance(o, llvm.InsertValueOp):
            if SYMBOLIC:
                d[tuple(o.position.data)] = o.value
            else:
                d[tuple(o.position.get_values())] = o.value
    return d


@contract
class StaticAllocs_contract:
    """bump allocator: data-structure invariant with ghost history (UNBOUNDED over addresses, sizes, alignments,
    memory windows).  Inv: start <= cur <= start+capacity and every range handed out so far lies in [start, cur).
    Each call returns an aligned range [addr, addr+size) inside [old cur, new cur) - hence disjoint from all earlier
    ranges and inside the window - or raises."""
    target = "snaxc.transforms.snax_allocate.StaticAllocs.match_and_rewrite"
    shapes = [dict(present=p, nshapes=n) for p in (False, True) for n in (0, 2)]
    permissive = True
    compare_ret = False
    may_not_return = False

    def args(sh, sym):
        mem = SnaxMemory(StringAttr("Test"), sym.int("capacity", 0), sym.int("start", 0))
        cur = sym.int("cur", 0)
        pat = sa.StaticAllocs(lambda name: mem)
        if sh["present"]:
            pat.current_addresses[mem] = cur
        size = sym.int("size", 0)
        alignment = sym.int("alignment", 1)
        op = mk_snax_alloc(size, sh["nshapes"], alignment, sym)
        return [pat, op, mem, cur, size, alignment]

    def requires(sh, a):
        pat, op, mem, cur, size, alignment = a
        # Inv(self) for the memory if it was used before
        return (not sh["present"]) or (mem.start <= cur and cur <= mem.start + mem.capacity)

    def run(sh, a):
        pat, op = a[0], a[1]
        rw = PatternRewriter(op)
        pat.match_and_rewrite(op, rw)
        assert len(rw.log) == 1 and rw.log[0][0] == "replace_op" and rw.log[0][1] is op
        return dict(new_ops=rw.log[0][2])

    def native_run(sh, a):
        from xdsl.dialects.builtin import ModuleOp
        pat, op = a[0], a[1]
        mod = ModuleOp([op.size.owner, op])
        rw = PatternRewriter(op)
        pat.match_and_rewrite(op, rw)
        return dict(new_ops=[o for o in mod.body.block.ops][1:])

    def ensures(sh, a, ret):
        pat, op, mem, cur, size, alignment = a
        old = cur if sh["present"] else mem.start
        new_cur = pat.current_addresses[mem]
        consts = [o for o in ret["new_ops"] if isinstance(o, arith.ConstantOp) and o.results[0].type == i32 and any(isinstance(u, llvm.IntToPtrOp) and u.input is o.results[0] for u in ret["new_ops"])]
        check("the emitted pointer is one i32 constant fed to inttoptr", len(consts) == 1)
        addr = den(consts[0])
        check("aligned", addr % alignment == 0)
        check("monotone: never below the previous bump pointer (disjoint from every earlier range)", old <= addr)
        check("minimal padding", addr - old < alignment)
        check("bump: new pointer is exactly the end of the range", new_cur == addr + size)
        check("inside the memory window", mem.start <= addr and new_cur <= mem.start + mem.capacity)
        check("invariant re-established", mem.start <= new_cur and new_cur <= mem.start + mem.capacity)
        st = struct_of(ret["new_ops"])
        ptrs = [o for o in ret["new_ops"] if isinstance(o, llvm.IntToPtrOp)]
        check("descriptor: pointer and aligned pointer are the allocated address", len(ptrs) == 1 and st[(0,)] is ptrs[0].output and st[(1,)] is ptrs[0].output)

    def raises(sh, a, exc):
        pat, op, mem, cur, size, alignment = a
        old = cur if sh["present"] else mem.start
        aligned = old if old % alignment == 0 else old + alignment - old % alignment
        check("only RuntimeError may be raised", exc == "RuntimeError")
        check("raising only when the aligned request does not fit in the window", aligned + size > mem.start + mem.capacity)
        if sh["present"]:
            check("state untouched on failure", pat.current_addresses[mem] is cur or pat.current_addresses[mem] == cur)

    def canary(sh, a, ret):
        check("canary: allocation always starts at the window start", den([o for o in ret["new_ops"] if isinstance(o, arith.ConstantOp) and o.results[0].type == i32][0]) == a[2].start)


@contract
class create_memref_struct_contract:
    target = "snaxc.transforms.snax_allocate.create_memref_struct"
    shapes = [dict(nshapes=n, aligned=al) for n in (0, 1, 2, 3, 4) for al in (False, True)]
    permissive = True
    compare_ret = False
    total = True

    def args(sh, sym):
        op = mk_snax_alloc(sym.int("size", 0), sh["nshapes"], 1, sym)
        p = mk_opresult(sym.int("p", 0), llvm.LLVMPointerType())
        q = mk_opresult(sym.int("q", 0), llvm.LLVMPointerType()) if sh["aligned"] else None
        return [op, p, q]

    def ensures(sh, a, ret):
        op, p, q = a
        last, ops = ret
        st = struct_of(ops)
        check("the returned op is the last inserted op", last is ops[-1] and isinstance(last, llvm.InsertValueOp))
        check("pointer at [0]", st[(0,)] is p)
        check("aligned pointer at [1] (defaults to the pointer)", st[(1,)] is (q if sh["aligned"] else p))
        check("offset 0 at [2]", den(st[(2,)]) == 0)
        for i in range(sh["nshapes"]):
            v = st[(3, i)]
            src = v.owner.operands[0] if SYMBOLIC else v.owner.operands[0]
            check(f"shape {i} at [3,{i}] (through an index->i32 cast)", src is op.shapes[i])
        check("exactly the positions [0],[1],[2],[3,i] are written", sorted(st.keys()) == sorted([(0,), (1,), (2,)] + [(3, i) for i in range(sh["nshapes"])]))
        # the inserts are chained: each InsertValueOp consumes the previous aggregate
        ins = [o for o in ops if isinstance(o, llvm.InsertValueOp)]
        check("inserts are chained on one aggregate", all(ins[k + 1].container is ins[k].res for k in range(len(ins) - 1)))

    def canary(sh, a, ret):
        check("canary: aligned pointer is always the base pointer", struct_of(ret[1])[(1,)] is a[1] and sh["aligned"])


# =====================================================================================
# MiniMallocate: the lifetimes handed to the (external, assumed) solver cover every real use
# =====================================================================================
from xdsl.dialects import func  # noqa: E402
from xdsl.dialects.builtin import UnrealizedConversionCastOp  # noqa: E402
from xdsl.ir import Block, Operation, Region, Use  # noqa: E402


class UserOp(Operation):
    """an op that uses some values, possibly nested `depth` region levels below the function body"""

    def __init__(self, values, is_terminator=False):
        self._init_op(values, [], [])
        self.is_terminator = is_terminator
        k = 0
        for v in values:
            v.uses.append(Use(self, k))
            k += 1


def nest(op, depth):
    """wrap `op` into `depth` levels of region-holding ops; returns the top-level op"""
    top = op
    for _ in range(depth):
        w = UserOp([])
        r = Region([Block([top])])
        r.parent = w
        w.regions = [r]
        top = w
    return top


MM_SHAPES = [dict(late_use=lu, depth=d, via=v) for lu in (False, True) for d in (0, 1, 2, 3) for v in ("cast", "alloc") if lu or (d == 0 and v == "cast")]


@contract
class MiniMallocate_lifetimes_contract:
    """the lifetime of a buffer handed to the solver ends at the top-level op that contains its LAST use - through its
    cast and at any nesting depth; with the solver's (assumed) contract two buffers that are live at the same time then
    get disjoint ranges inside the memory window"""
    target = "snaxc.transforms.snax_allocate.MiniMallocate.match_and_rewrite"
    shapes = MM_SHAPES
    native = False
    total = True
    permissive = True
    compare_ret = False

    def args(sh, sym):
        mem = SnaxMemory(StringAttr("Test"), sym.int("capacity", 0), sym.int("start", 0))
        sizes = [sym.int("size0", 0), sym.int("size1", 0)]
        allocs, casts, body = [], [], []
        for k in range(2):
            a = mk_snax_alloc(sizes[k], 0, 1, sym)
            body.append(a.size.owner)
            body.append(a)
            c = UnrealizedConversionCastOp([a.results[0]], [None])
            a.results[0].uses.append(Use(c, 0))
            body.append(c)
            allocs.append(a)
            casts.append(c)
            body.append(UserOp([c.results[0]]))  # an early use of the buffer, right after its allocation
        if sh["late_use"]:
            # buffer 0 is used again AFTER buffer 1 was allocated: both are live at the same time
            v = casts[0].results[0] if sh["via"] == "cast" else allocs[0].results[0]
            body.append(nest(UserOp([v]), sh["depth"]))
        body.append(UserOp([], True))
        f = func.FuncOp("f", None, Region([Block(body)]))
        return [sa.MiniMallocate(lambda name: mem), f, allocs, casts, body, mem, sizes]

    def run(sh, a):
        rw = PatternRewriter(a[1])
        a[0].match_and_rewrite(a[1], rw)
        return rw.log

    def ensures(sh, a, ret):
        pat, f, allocs, casts, body, mem, sizes = a
        reps = [e for e in ret if e[0] == "replace_op"]
        check("each snax.alloc is replaced once", len(reps) == 2 and all(any(e[1] is al for e in reps) for al in allocs))
        addr = []
        for al in allocs:
            e = [e for e in reps if e[1] is al][0]
            consts = [o for o in e[2] if isinstance(o, arith.ConstantOp) and o.results[0].type == i32 and any(isinstance(u, llvm.IntToPtrOp) and u.input is o.results[0] for u in e[2])]
            check("one pointer constant per buffer", len(consts) == 1)
            addr.append(den(consts[0]))
        for k in range(2):
            check(f"buffer {k} lies inside the memory window", mem.start <= addr[k] and addr[k] + sizes[k] <= mem.start + mem.capacity)
        if sh["late_use"]:
            check("buffers that are live at the same time get disjoint address ranges", addr[0] + sizes[0] <= addr[1] or addr[1] + sizes[1] <= addr[0])
        ins = [e for e in ret if e[0] == "insert_op"]
        # the dealloc of a buffer goes after the top-level op holding its last use (never before a later use)
        last0 = body[len(body) - 2] if sh["late_use"] else body[3]
        check("a dealloc is inserted after the top-level op that holds the last use of buffer 0 (not earlier)",
              any(e[2].kind == "after" and e[2].anchor is last0 for e in ins))

    def canary(sh, a, ret):
        check("canary: both buffers always get the same address", len([e for e in ret if e[0] == "replace_op"]) == 0)


# =====================================================================================
# SnaxAllocatePass.apply: ONE address-assigning scheme per module
# =====================================================================================
import xdsl.pattern_rewriter as xpr  # noqa: E402
from xdsl.dialects.builtin import ModuleOp  # noqa: E402

from snaxc.accelerators.acc_context import AccContext  # noqa: E402


class AllocCtxV(AccContext):
    def __init__(self, mem):
        self._mem = mem

    def get_memory(self, name):
        return self._mem


def flatten_patterns(p):
    if isinstance(p, xpr.GreedyRewritePatternApplier):
        return [q for x in p.rewrite_patterns for q in flatten_patterns(x)]
    return [p]


@contract
class SnaxAllocatePass_one_scheme_contract:
    """StaticAllocs (bump pointer starting at the memory's start) and MiniMallocate (solver over the whole window) each
    own the address window of a memory: their contracts (StaticAllocs_contract's invariant 'every range handed out so far
    lies below the bump pointer', MiniMallocate's disjointness of live buffers) only compose to C11 if at most ONE of them
    hands out addresses in a module.  Call-site condition on the pass driver, for every mode and both outcomes of the
    auto detection"""
    target = "snaxc.transforms.snax_allocate.SnaxAllocatePass.apply"
    shapes = [dict(mode=m, static=s) for m in ("dynamic", "static", "minimalloc", "auto") for s in (True, False)]
    native = False
    total = True
    permissive = True
    compare_ret = False

    def args(sh, sym):
        xpr.WALKER_LOG.clear()
        mem = SnaxMemory(StringAttr("L1"), sym.int("capacity", 0), sym.int("start", 0))
        size = arith.ConstantOp.from_int_and_width(sym.int("size", 0), IndexType()).result if sh["static"] else mk_opresult(sym.int("size", 0), IndexType())
        alloc = snax.Alloc(0, size, [], StringAttr("L1"), IntegerAttr(64, IntegerType(64)))
        ops = ([size.owner] if sh["static"] else []) + [alloc]
        module = ModuleOp(ops)
        return [sa.SnaxAllocatePass(sh["mode"]), AllocCtxV(mem), module]

    def ensures(sh, a, ret):
        p, ctx, module = a
        runs = list(xpr.WALKER_LOG)
        pats = [q for pat, _ in runs for q in flatten_patterns(pat)]
        check("every pattern run goes over the module handed to the pass", all(tgt is module for _, tgt in runs))
        assigning = [q for q in pats if isinstance(q, (sa.StaticAllocs, sa.MiniMallocate))]
        check("at most one address-assigning pattern (StaticAllocs / MiniMallocate) is let loose on the module", len(assigning) <= 1)
        want = dict(dynamic=sa.DynamicAllocs, static=sa.StaticAllocs, minimalloc=sa.MiniMallocate)
        if sh["mode"] != "auto":
            check(f"mode {sh['mode']}: its own pattern, once", len(pats) == 1 and type(pats[0]) is want[sh["mode"]])
        elif sh["static"]:
            check("auto, all allocation sizes known: static addresses (one scheme)", len(pats) == 1 and isinstance(pats[0], (sa.StaticAllocs, sa.MiniMallocate)))
        else:
            check("auto, some allocation size only known at run time: the run-time allocator, no static addresses", len(pats) == 1 and type(pats[0]) is sa.DynamicAllocs)

    def canary(sh, a, ret):
        check("canary: no pattern is ever run", len(xpr.WALKER_LOG) == 0)
