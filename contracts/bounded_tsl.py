"""Bounded stand-ins for C10 (NOT proofs): functions outside the VC generator's reach
(np.unique-based predicates, the xDSL text parser/printer) checked by exhaustive enumeration of a
stated small domain against the same contract statements."""
import itertools
import random


def _layouts(tier, seed):
    """all layouts with rank<=2, depth<=2, bounds in 1..3(4), steps from a small set; plus random ones beyond"""
    from snaxc.ir.tsl import Stride, TiledStride, TiledStridedLayout

    steps = (1, 2, 3, 4, 6, 8) if tier == "quick" else (1, 2, 3, 4, 5, 6, 8, 9, 12, 16)
    bounds = (1, 2, 3) if tier == "quick" else (1, 2, 3, 4)
    out = []
    lv = [(s, b) for s in steps for b in bounds]
    for a in lv:  # rank 1 depth 1
        out.append(TiledStridedLayout([TiledStride([Stride(*a)])]))
    for a, b in itertools.product(lv, lv):  # rank1 depth2, rank2 depth1
        out.append(TiledStridedLayout([TiledStride([Stride(*a), Stride(*b)])]))
        out.append(TiledStridedLayout([TiledStride([Stride(*a)]), TiledStride([Stride(*b)])]))
    rnd = random.Random(seed)
    n_rand = 300 if tier == "quick" else 4000
    for _ in range(n_rand):
        rank = rnd.randint(1, 3)
        ts = []
        for _d in range(rank):
            depth = rnd.randint(1, 3)
            ts.append(TiledStride([Stride(rnd.choice(steps + (16, 32, 64)), rnd.randint(1, 4)) for _k in range(depth)]))
        out.append(TiledStridedLayout(ts, offset=rnd.choice((0, 0, 3))))
    return out


def _addresses(tsl):
    """reference enumeration of addr_T(t) - offset over all digit vectors (row-major)"""
    lv = [(s.step, s.bound) for _, _, s in tsl]
    addrs = []
    for t in itertools.product(*[range(b) for _, b in lv]):
        addrs.append(sum(ti * s for ti, (s, _) in zip(t, lv)))
    return addrs


def overlap_dense(tier="quick", seed=0):
    from pyvc import shim  # noqa: F401

    cases = 0
    viol = []
    for tsl in _layouts(tier, seed):
        addrs = _addresses(tsl)
        if len(addrs) > 4096:
            continue
        cases += 1
        exp_overlap = len(set(addrs)) != len(addrs)
        exp_dense = (not exp_overlap) and sorted(addrs) == list(range(len(addrs)))
        got_overlap = bool(tsl.self_overlaps())
        got_dense = bool(tsl.is_dense())
        if got_overlap != exp_overlap and len(viol) < 5:
            viol.append(dict(clause="self_overlaps() <=> two digit vectors share an address", input=str(tsl), expected=exp_overlap, observed=got_overlap))
        if got_dense != exp_dense and len(viol) < 5:
            viol.append(dict(clause="is_dense() <=> addr is a bijection onto [0,N)", input=str(tsl), expected=exp_dense, observed=got_dense))
    return dict(domain="all layouts rank<=2 x depth<=2 (rank*depth<=2) over a small step/bound set + random rank<=3 depth<=3", cases=cases, violations=viol)


def print_parse(tier="quick", seed=0):
    """print then parse gives an equal layout, including dynamic entries and offset"""
    from pyvc import shim  # noqa: F401
    from xdsl.context import Context
    from xdsl.parser import Parser

    from snaxc.dialects.tsl import TSL, TiledStridedLayoutAttr
    from snaxc.ir.tsl import Stride, TiledStride, TiledStridedLayout

    ctx = Context()
    ctx.load_dialect(TSL)
    layouts = list(_layouts(tier, seed))
    # dynamic entries and offsets
    for off in (0, 5, None):
        layouts.append(TiledStridedLayout([TiledStride([Stride(None, None), Stride(4, 4)]), TiledStride([Stride(1, 4)])], offset=off))
        layouts.append(TiledStridedLayout([TiledStride([Stride(16, None), Stride(1, 4)])], offset=off))
        layouts.append(TiledStridedLayout([TiledStride([Stride(2, 3)])], offset=off))
    cases = 0
    viol = []
    for tsl in layouts:
        cases += 1
        attr = TiledStridedLayoutAttr(tsl)
        text = f"#tsl.tsl<{tsl}>"
        try:
            back = Parser(ctx, text).parse_attribute()
            ok = isinstance(back, TiledStridedLayoutAttr) and back.data == tsl
            obs = str(getattr(back, "data", back))
        except Exception as e:  # noqa
            ok = False
            obs = f"{type(e).__name__}: {str(e)[:120]}"
        if not ok and len(viol) < 5:
            kind = "dynamic offset" if tsl.offset is None else "static"
            viol.append(dict(clause=f"parse(print(layout)) == layout ({kind})", input=text, expected=str(tsl), observed=obs,
                             shape=dict(offset="dynamic" if tsl.offset is None else "static")))
    return dict(domain="the enumerated layouts + dynamic-entry and offset variants", cases=cases, violations=viol)
