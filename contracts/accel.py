"""Contracts for snaxc/accelerators/*.py (C08: generated values line up with field names; C04: register maps)."""
import itertools

from pyvc.api import SYMBOLIC, check, contract, den, implies, ite, mk_ident_value, mk_opresult
from xdsl.dialects import arith
from xdsl.dialects.builtin import ArrayAttr, IndexType, IntegerAttr, i32

from snaxc.accelerators.snax import SNAXStreamer
from snaxc.accelerators.streamers.extensions.transpose_extension import TransposeExtension
from snaxc.accelerators.streamers.streamers import (HasAddressRemap, HasBroadcast, HasByteMask, HasChannelMask, Streamer, StreamerConfiguration,
                                                     StreamerFlag, StreamerType)
from snaxc.dialects.snax_stream import StridePattern

OPTS = {"a": HasAddressRemap, "c": HasChannelMask, "b": HasBroadcast, "t": TransposeExtension, "m": HasByteMask}


class PlainStreamer(SNAXStreamer):
    """the abstract streamer interface with its one abstract method closed (the template is irrelevant here)"""

    def get_template(self, op):
        return None


class RegionView:
    """view of snax_stream.StreamingRegionOp: operands and one stride pattern per operand"""

    def __init__(self, operands, patterns):
        self.operands = list(operands)
        self.stride_patterns = ArrayAttr(patterns)


def mk_streamers(spec):
    """spec: list of (flags string, n spatial, option letters)"""
    return [Streamer(StreamerType.Reader, list(flags), [8] * ns, [OPTS[o]() for o in opts]) for flags, ns, opts in spec]


def mk_operand(sym, k, kind):
    """'ptr': an arbitrary SSA pointer; 'const': the result of an index constant with a symbolic value (0 => zero pattern)"""
    if kind == "ptr":
        return mk_opresult(sym.int(f"ptr{k}", 0), IndexType())  # an op RESULT in both executions (the code asks isinstance(.., OpResult))
    if kind == "barg":
        # a pointer that is a BLOCK ARGUMENT (function argument), not the result of an op
        return Block(arg_types=[IndexType()]).args[0]
    return arith.ConstantOp.from_int_and_width(sym.int(f"cst{k}", 0, 1), IndexType()).result


def mk_patterns(sym, spec, short):
    pats, raw = [], []
    for k, (flags, ns, opts) in enumerate(spec):
        nt = len(flags) - (1 if short and len(flags) > 1 else 0)
        ub = [sym.int(f"ub{k}_{d}", 0) for d in range(nt)]
        ts = [sym.int(f"ts{k}_{d}") for d in range(nt)]
        ss = [sym.int(f"ss{k}_{d}", 0) for d in range(ns)]
        pats.append(StridePattern(ub, ts, ss))
        raw.append((ub, ts, ss))
    return pats, raw


def is_zero_operand(v):
    """the streamer must generate zeros: the operand is the result of an index constant 0"""
    if SYMBOLIC:
        return isinstance(getattr(v, "owner", None), arith.ConstantOp) and den(v) == 0
    from xdsl.ir import OpResult
    return isinstance(v, OpResult) and isinstance(v.owner, arith.ConstantOp) and v.owner.value == IntegerAttr(0, IndexType())


def expected_streamer_value(field, names, spec, operands, raw, zero_address):
    """MEANING of a streamer setup field, read off its NAME: ('value', ssa) or ('const', integer)"""
    name, rest = field.split("_", 1)
    k = names.index(name)
    flags, ns, opts = spec[k]
    ub, ts, ss = raw[k]
    zero = is_zero_operand(operands[k])
    if rest == "ptr_low":
        return ("zeroptr", zero, operands[k], zero_address)
    if rest == "ptr_high":
        return ("const", 0)
    if rest.startswith("sstride_"):
        return ("const", ss[int(rest[8:])])
    if rest.startswith("bound_"):
        d = int(rest[6:])
        b = ub[d] if d < len(ub) else 1  # padded with bound 1
        t = ts[d] if d < len(ts) else 0
        if flags[d] == "r":
            return ("const_ite", b > 1 and t == 0, 1, b)  # internally reused dimension collapses to a single fetch
        return ("const", b)
    if rest.startswith("tstride_"):
        d = int(rest[8:])
        return ("const", ts[d] if d < len(ts) else 0)  # padded with stride 0
    if rest == "address_remap":
        return ("const", 0)
    if rest == "channel_mask":
        return ("const_ite", zero, 0, -1)
    if rest == "transpose":
        return ("const", 0)
    if rest == "broadcast":
        return ("const_ite", any(s == 0 for s in ss), 1, 0)
    raise AssertionError("unknown streamer field " + field)


def check_value(tag, got, exp):
    if exp[0] == "const":
        check(tag, den(got) == exp[1])
    elif exp[0] == "const_ite":
        check(tag, (exp[1] and den(got) == exp[2]) or (not exp[1] and den(got) == exp[3]))
    elif exp[0] == "zeroptr":
        check(tag, (exp[1] and den(got) == exp[3]) or (not exp[1] and got is exp[2]))
    else:
        check(tag, got is exp[1])


def _streamer_shapes():
    out = []
    # one streamer: all flag words for t <= 3 (quick: t <= 2), spatial 1..2, every subset of {a,c,b,t}
    subsets = ["".join(c) for r in range(5) for c in itertools.combinations("acbt", r)]
    for t in (1, 2, 3):
        for flags in itertools.product("nir", repeat=t):
            for ns in (1, 2):
                for opts in subsets:
                    if t == 3 and (ns == 2 or opts not in ("", "acbt", "cb")):
                        continue
                    out.append(dict(spec=[("".join(flags), ns, opts)], operands=["const"], short=False))
    # longer streamers: at most one non-'n' flag at each position
    for t in (4, 5, 6):
        for pos in range(t):
            for f in "ir":
                fl = "n" * pos + f + "n" * (t - pos - 1)
                out.append(dict(spec=[(fl, 1, "c")], operands=["ptr"], short=True))
    # multi-streamer structures (the trailing transpose / broadcast sections interleave streamers)
    multi = [[("n", 1, "b"), ("n", 1, "t")], [("nr", 1, "t"), ("n", 2, "cb")], [("n", 1, "ab"), ("nn", 1, "t"), ("r", 1, "cbt")],
             [("nnn", 2, "t"), ("nnn", 2, "t"), ("rnn", 2, "cb")], [("n", 1, ""), ("n", 1, ""), ("n", 1, "")],
             [("rnn", 1, "c"), ("inn", 1, "c"), ("nnn", 1, "ab"), ("nn", 1, "tb")]]
    for spec in multi:
        for short in (False, True):
            out.append(dict(spec=spec, operands=["ptr"] + ["const"] * (len(spec) - 1), short=short))
    # a (possibly zero) constant operand FOLLOWED by pointers - op results and block arguments: each stream's zero-pattern
    # decision is its own
    for spec in (multi[1], multi[2], multi[5]):
        out.append(dict(spec=spec, operands=["const"] + ["barg"] * (len(spec) - 1), short=False))
        out.append(dict(spec=spec, operands=["const", "ptr"] + ["barg"] * (len(spec) - 2), short=False))
    return out


@contract
class SNAXStreamer_setup_vals_match_fields:
    """one value per declared streamer field, in the declared order, each with the meaning its field name states"""
    target = "snaxc.accelerators.snax.SNAXStreamer._generate_streamer_setup_vals"
    shapes = _streamer_shapes()
    quick = lambda sh: (len(sh["spec"]) == 1 and len(sh["spec"][0][0]) <= 2 and sh["spec"][0][2] in ("", "acbt", "c", "b", "at")) or len(sh["spec"]) > 1 or len(sh["spec"][0][0]) >= 5
    total = True
    compare_ret = False

    def args(sh, sym):
        spec = [tuple(x) for x in sh["spec"]]
        acc = PlainStreamer(StreamerConfiguration(mk_streamers(spec)))
        operands = [mk_operand(sym, k, kind) for k, kind in enumerate(sh["operands"])]
        pats, raw = mk_patterns(sym, spec, sh["short"])
        return [acc, RegionView(operands, pats), spec, operands, raw]

    def requires(sh, a):
        acc, op, spec, operands, raw = a
        # streaming-region verifier / streamer semantics: irrelevant dimensions carry a zero stride
        ok = True
        for k, (flags, ns, opts) in enumerate(spec):
            ub, ts, ss = raw[k]
            for d in range(len(ts)):
                if flags[d] == "i":
                    ok = ok and ts[d] == 0
        return ok

    def run(sh, a):
        return a[0]._generate_streamer_setup_vals(a[1])

    def ensures(sh, a, ret):
        acc, op, spec, operands, raw = a
        fields = list(acc.streamer_setup_fields)
        vals = list(ret)
        check("exactly one value per declared field", len(vals) == len(fields))
        check("field names are unique", len(set(fields)) == len(fields))
        for i in range(min(len(vals), len(fields))):
            exp = expected_streamer_value(fields[i], list(acc.streamer_names), spec, operands, raw, acc.zero_address)
            check_value(f"field {fields[i]} receives the value with that meaning", vals[i][1], exp)
            # every op needed to compute the value is listed with it (def before use)
            v = vals[i][1]
            owner = getattr(v, "owner", None)
            if isinstance(owner, arith.ConstantOp) and not any(v is o for o in operands):
                check(f"field {fields[i]}: the constant defining its value is emitted with it", any(o is owner for o in vals[i][0]))

    def canary(sh, a, ret):
        check("canary: all values are the constant 0", all(den(v) == 0 for _, v in ret))


# =====================================================================================
# xDMA streamer (snax_xdma.py): declared fields vs generated values
# =====================================================================================
from xdsl.dialects.builtin import DenseArrayBase, i8  # noqa: E402
from xdsl.ir import Block, Region  # noqa: E402

from snaxc.accelerators.snax_xdma import SNAXXDMAAccelerator  # noqa: E402
from snaxc.accelerators.streamers.extensions import (AddExtension, MaxPoolExtension, MemSetExtension, RescaleDownExtension,  # noqa: E402
                                                      RescaleUpExtension, StreamerExtension)
from snaxc.accelerators.streamers.extensions.add_extension import AddLongExtension  # noqa: E402
from snaxc.accelerators.streamers.streamers import StreamerSystemType  # noqa: E402
from snaxc.dialects import dart, kernel  # noqa: E402

XOPTS = dict(OPTS, A=AddExtension, L=AddLongExtension, P=MaxPoolExtension, S=MemSetExtension, D=RescaleDownExtension, U=RescaleUpExtension)


class XRegionView(RegionView):
    def __init__(self, operands, patterns, body_ops):
        self.operands = list(operands)
        self.stride_patterns = ArrayAttr(patterns)
        self.body = Region([Block(body_ops)])


def mk_kernel(sym, kind):
    """the op inside the dart.generic of the streaming region (or no generic at all)"""
    if kind == "nogeneric":
        return [], None
    x = mk_opresult(0, i32) if not SYMBOLIC else mk_ident_value(2000, i32)
    if kind == "add_i32":
        k = kernel.AddOp.create(operands=[x, x], result_types=[i32])
    elif kind == "mul_i32":
        k = kernel.MulOp.create(operands=[x, x], result_types=[i32])
    else:
        k = kernel.RescaleOp.create(operands=[x], result_types=[i8], attributes={
            "input_zp": IntegerAttr(sym.int("in_zp", -8, 8), i32), "output_zp": IntegerAttr(sym.int("out_zp", -8, 8), i32),
            "multiplier": DenseArrayBase.from_list(i32, [sym.int("mult", 1, 100)]), "shift": DenseArrayBase.from_list(i32, [sym.int("shift", 0, 31)])})
    g = dart.GenericOp([], Region([Block([k])]))
    return [g], k


def expected_xdma_value(field, names, spec, streamers, operands, raw, zero_address, kernel_op):
    name, rest = field.split("_", 1)
    k = names.index(name)
    zero = is_zero_operand(operands[k])
    if rest == "enabled_chan" or rest == "enabled_byte":
        return ("const_ite", zero, 0, -1)
    exts = [o for o in streamers[k].opts if isinstance(o, StreamerExtension)]
    if rest == "bypass":
        v = 0
        for i, e in enumerate(exts):
            if kernel_op is not None and e.supported_kernel is not None and e.supported_kernel.is_same_kernel(kernel_op):
                v = v + 2 ** i
        return ("const", v)
    for e in exts:
        if rest.startswith(e.name + "_") and rest[len(e.name) + 1:].isdigit():
            j = int(rest[len(e.name) + 1:])
            if kernel_op is not None and e.supported_kernel is not None and e.supported_kernel.is_same_kernel(kernel_op):
                return ("const", list(e.get_csr_values(kernel_op))[j])
            return ("const", 0)
    return expected_streamer_value(field, names, spec, operands, raw, zero_address)


XDMA_CONFIGS = [
    ("default", None),
    ("nomask", [("nn", 1, "A"), ("nn", 1, "S")]),
    ("readermask", [("n", 1, "Ac"), ("n", 1, "t")]),
    ("bytemask", [("n", 1, "c"), ("n", 1, "cm")]),
    ("rescale", [("nn", 1, "DUc"), ("nn", 1, "cm")]),
    ("plain", [("n", 1, ""), ("n", 1, "")]),
    ("allreader", [("n", 1, "PALDUc"), ("n", 1, "Stcm")]),
    # temporal dims flagged for internal reuse: the bound collapses to 1 ONLY for a pattern that really repeats (stride 0)
    ("reuse", [("nr", 1, "c"), ("rn", 1, "cm")]),
    # plain options listed IN FRONT OF extensions: a bypass bit is the extension's position among the EXTENSIONS
    ("optfirst", [("n", 1, "cAD"), ("n", 1, "ctmS")]),
    ("optamid", [("n", 1, "AcD"), ("n", 1, "c")]),
]


@contract
class XDMA_setup_vals_match_fields:
    target = "snaxc.accelerators.snax_xdma.SNAXXDMAAccelerator._generate_stream_setup_vals"
    shapes = [dict(config=c, kernel=k, operands=o) for c, _ in XDMA_CONFIGS for k in ("nogeneric", "add_i32", "mul_i32", "rescale_down")
              for o in (("ptr", "ptr"), ("const", "ptr"), ("ptr", "const"))]
    quick = lambda sh: (sh["config"] in ("default", "nomask", "rescale", "bytemask") and (sh["operands"] != ("ptr", "const") or sh["config"] == "default")) or (
        sh["config"] == "reuse" and sh["operands"] == ("ptr", "ptr") and sh["kernel"] in ("nogeneric", "add_i32")) or (
        sh["config"] in ("optfirst", "optamid") and sh["operands"] == ("ptr", "ptr") and sh["kernel"] in ("add_i32", "rescale_down"))
    total = True
    compare_ret = False

    def args(sh, sym):
        cfg = dict(XDMA_CONFIGS)[sh["config"]]
        if cfg is None:
            acc = SNAXXDMAAccelerator()
            spec = [("n" * len(s.temporal_dims), len(s.spatial_dims), "") for s in acc.streamer_config.data.streamers]
        else:
            spec = cfg
            streamers = [Streamer(StreamerType.Reader if i == 0 else StreamerType.Writer, list(f), [8] * ns, [XOPTS[o]() for o in opts]) for i, (f, ns, opts) in enumerate(cfg)]
            acc = SNAXXDMAAccelerator(StreamerConfiguration(streamers, StreamerSystemType.DmaExt))
        operands = [mk_operand(sym, k, kind) for k, kind in enumerate(sh["operands"])]
        pats, raw = mk_patterns(sym, spec, False)
        body, kop = mk_kernel(sym, sh["kernel"])
        return [acc, XRegionView(operands, pats, body), spec, operands, raw, kop]

    def requires(sh, a):
        return True

    def run(sh, a):
        return a[0]._generate_stream_setup_vals(a[1])

    def ensures(sh, a, ret):
        acc, op, spec, operands, raw, kop = a
        fields = list(acc.fields)
        vals = list(ret)
        check("exactly one value per declared field", len(vals) == len(fields))
        check("field names are unique", len(set(fields)) == len(fields))
        if len(vals) == len(fields):
            for i in range(len(fields)):
                exp = expected_xdma_value(fields[i], list(acc.streamer_names), spec, list(acc.streamer_config.data.streamers), operands, raw, acc.zero_address, kop)
                check_value(f"field {fields[i]} receives the value with that meaning", vals[i][1], exp)

    def canary(sh, a, ret):
        check("canary: all values are the constant 0", all(den(v) == 0 for _, v in ret))


# =====================================================================================
# GEMMX (snax_gemmx.py): accelerator fields vs generated values (streamer part through its own contract)
# =====================================================================================
from pyvc.api import bv_and, bv_const, bv_eq, bv_or, bv_shl, mk_ssa  # noqa: E402
from xdsl.dialects.builtin import IntegerType  # noqa: E402

from snaxc.accelerators.snax_gemmx import SNAXGEMMXAccelerator  # noqa: E402

GX = {}


def set_bv(on):
    import xdsl.dialects.arith as arith_mod
    if hasattr(arith_mod, "MODE"):
        arith_mod.MODE["bv"] = on


def streamer_vals_contract(local):
    """_generate_streamer_setup_vals through its contract (SNAXStreamer_setup_vals_match_fields): one value per
    declared streamer field - here abstract, distinguishable values"""
    acc = local["self"]
    vals = [([], mk_ident_value(5000 + i)) for i in range(len(acc.streamer_setup_fields))]
    GX["streamer_vals"] = vals
    return vals


def mk_rescale(sym, x, nvals, out_type):
    return kernel.RescaleOp(x, out_type, sym.int("in_zp", -128, 127), sym.int("out_zp", -128, 127),
                            [sym.int(f"mult{j}", 0, 1000) for j in range(nvals)], [sym.int(f"shift{j}", 0, 63) for j in range(nvals)],
                            sym.int("max_int", -128, 127), sym.int("min_int", -128, 127), False)


def pack_fields(vals_offs, w=32):
    r = bv_const(0, w)
    for v, o in vals_offs:
        r = bv_or(r, bv_shl(v, o, w), w)
    return r


# qmac_i32_zpswap: the dart.generic lists the two zero points in the other order (.., zp_rhs, zp_lhs) and the kernel.qmac binds them
# accordingly: which value is the LEFT zero point is what the kernel says, not the position in the input list
GEMMX_KERNELS = ("mac_i32", "qmac_i32", "qmac_i32_zpswap", "mac_i8_plain", "mac_i8_rescale1", "mac_i8_rescaleN", "qmac_i8_rescale2N", "rescale_only")


@contract
class GEMMX_setup_vals_match_fields:
    target = "snaxc.accelerators.snax_gemmx.SNAXGEMMXAccelerator._generate_setup_vals"
    shapes = [dict(kernel=k, n=n, nt=nt) for k in GEMMX_KERNELS for n in (4, 8, 16) for nt in (2, 3) if not (n == 16 and nt == 3)]
    quick = lambda sh: sh["n"] in (4, 8) and (sh["nt"] == 2 or sh["kernel"] in ("mac_i32", "rescale_only"))
    total = True
    compare_ret = False
    native = False  # the streamer part is replaced by its contract; the arithmetic below is replayed by the bounded stand-in
    modular = {"snaxc.accelerators.snax.SNAXStreamer._generate_streamer_setup_vals": streamer_vals_contract}

    def args(sh, sym):
        set_bv(True)
        n, nt, kind = sh["n"], sh["nt"], sh["kernel"]
        acc = SNAXGEMMXAccelerator(n=n)
        ns = len(acc.streamer_config.data.streamers)
        pats, raw = [], []
        for k in range(ns):
            ub = [sym.int(f"ub{k}_{d}", 1) for d in range(nt)]
            ts = [sym.int(f"ts{k}_{d}") for d in range(nt)]
            pats.append(StridePattern(ub, ts, [8]))
            raw.append((ub, ts))
        x8 = mk_ident_value(3001, i8)
        acc32 = mk_ident_value(3002, i32)
        zp_a, zp_b = mk_ssa(sym.bv("zp_a", 32), i32), mk_ssa(sym.bv("zp_b", 32), i32)
        i8_out = "_i8_" in kind
        stream8, stream32 = dart.StreamType(IntegerType(8)), dart.StreamType(IntegerType(32))
        body_ops = []
        rescale = None
        if kind == "rescale_only":
            rescale = mk_rescale(sym, acc32, 1, i8)
            g = dart.GenericOp([x8], Region([Block([rescale])]), None, None, [stream8])
            body_ops = [g]
            out_val = g.outputs[0]
        else:
            blk = Block(arg_types=[i8, i8, i32, i32])
            swap = kind.endswith("zpswap")
            if swap:
                kop = kernel.QMacOp.create(operands=[blk.args[0], blk.args[1], blk.args[3], blk.args[2]], result_types=[i32])
            elif kind.startswith("qmac"):
                kop = kernel.QMacOp.create(operands=[blk.args[0], blk.args[1], blk.args[2], blk.args[3]], result_types=[i32])
            else:
                kop = kernel.MacOp.create(operands=[blk.args[0], blk.args[1]], result_types=[i32])
            blk.add_op(kop)
            g = dart.GenericOp([x8, x8, zp_b, zp_a] if swap else [x8, x8, zp_a, zp_b], Region([blk]), None, None, [stream32])
            body_ops = [g]
            out_val = g.outputs[0]
            if "rescale" in kind:
                nvals = 1 if kind.endswith("rescale1") else (n if kind.endswith("rescaleN") else 2 * n)
                rescale = mk_rescale(sym, acc32, nvals, i8)
                g2 = dart.GenericOp([out_val], Region([Block([rescale])]), None, None, [stream8])
                body_ops.append(g2)
                out_val = g2.outputs[0]
            elif i8_out:
                out_val = mk_ident_value(3003, stream8)
        body_ops.append(dart.YieldOp(out_val))
        op = XRegionView([mk_ident_value(4000 + k) for k in range(ns)], pats, body_ops)
        return [acc, op, raw, rescale, zp_a, zp_b]

    def requires(sh, a):
        acc, op, raw, rescale, zp_a, zp_b = a
        # is_valid(streaming region): the A stream's number of steps is a multiple of the number of output tiles
        # (each output tile accumulates a whole number of steps).  Nothing is assumed about the other streams: the
        # output pattern may list only the tiles it writes.
        if sh["kernel"] == "rescale_only":
            return True
        i8_out = "_i8_" in sh["kernel"]
        ub, ts = raw[2] if i8_out else raw[len(raw) - 1]
        M = 1
        for d in range(len(ub)):
            M = M * ite(ts[d] != 0, ub[d], 1)
        return prodl(raw[0][0]) % M == 0

    def run(sh, a):
        return a[0]._generate_setup_vals(a[1])

    def ensures(sh, a, ret):
        acc, op, raw, rescale, zp_a, zp_b = a
        vals, launch_attrs = ret
        vals = list(vals)
        fields = list(acc.fields)
        n, kind = sh["n"], sh["kernel"]
        check("exactly one value per declared field", len(vals) == len(fields))
        nsf = len(acc.streamer_setup_fields)
        check("the streamer values come first, in the streamer's order", all(vals[i][1] is GX["streamer_vals"][i][1] for i in range(min(nsf, len(vals)))))
        if len(vals) != len(fields):
            return
        got = {fields[i]: vals[i][1] for i in range(len(fields))}
        i8_out = "_i8_" in kind
        steps = prodl(raw[0][0])
        if kind == "rescale_only":
            M = steps
        else:
            ub, ts = raw[2] if i8_out else raw[len(raw) - 1]
            M = 1
            for d in range(len(ub)):
                M = M * ite(ts[d] != 0, ub[d], 1)
        check("N == 1", den(got["N"]) == 1)
        check("M == product of the output stream's non-reduction bounds", den(got["M"]) == M)
        check("K*N*M == number of steps of the A stream (loop counts agree with the streams)", den(got["K"]) * den(got["M"]) == steps)
        w = 32
        if kind.startswith("qmac"):
            exp_sub = pack_fields([(bv_and(den(zp_a), 255, w), 0), (bv_and(den(zp_b), 255, w), 8)])
        else:
            exp_sub = bv_const(0, w)
        check("subtractions == zp_b (8 bit) | zp_a (8 bit)", bv_eq(den(got["subtractions"]), exp_sub, w))
        if rescale is not None:
            rv = lambda at: getattr(rescale, at).value.data
            exp_csr0 = pack_fields([(bv_and(rv("min_int"), 255, w), 24), (bv_and(rv("max_int"), 255, w), 16), (bv_and(rv("output_zp"), 255, w), 8), (bv_and(rv("input_zp"), 255, w), 0)])
            shifts = list(rescale.shift.get_values())
            mults = list(rescale.multiplier.get_values())
            dr = rescale.double_round.value.data
        elif i8_out:
            exp_csr0 = pack_fields([(bv_and(-128, 255, w), 24), (bv_and(127, 255, w), 16), (0, 8), (0, 0)])
            shifts, mults, dr = [9], [1], 0
        else:
            exp_csr0, shifts, mults, dr = None, None, None, 0
        if exp_csr0 is None:
            check("no SIMD: csr0, csr1 are 0, shifts 0, multipliers 1", den(got["csr0"]) == 0 and den(got["csr1"]) == 0
                  and all(den(got[f"shift_{j}"]) == 0 for j in range(-(-n // 4))) and all(den(got[f"mult_{j}"]) == 1 for j in range(n)))
        else:
            check("csr0 == min_int | max_int | out_zp | in_zp (8 bit each)", bv_eq(den(got["csr0"]), exp_csr0, w))
            check("csr1 == double_round", den(got["csr1"]) == dr)
            sh_j = lambda j: shifts[j] if len(shifts) > 1 else shifts[0]
            mu_j = lambda j: mults[j] if len(mults) > 1 else mults[0]
            for q in range(-(-n // 4)):
                exp = pack_fields([(sh_j(4 * q + r), 8 * r) for r in range(4) if 4 * q + r < n])
                check(f"shift_{q} packs the shifts of channels {4 * q}..{4 * q + 3}, 8 bit each, channel {4 * q} lowest", bv_eq(den(got[f"shift_{q}"]), exp, w))
            for j in range(n):
                check(f"mult_{j} is the multiplier of channel {j}", den(got[f"mult_{j}"]) == mu_j(j))
        check("bypassSIMD == 1 exactly when the output is the 32-bit accumulator", den(got["bypassSIMD"]) == (0 if (i8_out or kind == "rescale_only") else 1))
        check("temporal_loop_bound == number of output tiles when the SIMD unit is used, else 0", den(got["temporal_loop_bound"]) == (M if (i8_out or kind == "rescale_only") else 0))

    def canary(sh, a, ret):
        check("canary: K is always 1", den(list(ret[0])[len(a[0].streamer_setup_fields)][1]) == 1)


def prodl(xs):
    r = 1
    for x in xs:
        r = r * x
    return r


# =====================================================================================
# ALU and HWPE-mult: accelerator fields vs generated values
# =====================================================================================
from pyvc.api import mk_memref_value, rt_shape  # noqa: E402
from xdsl.dialects.builtin import MemRefType, StridedLayoutAttr  # noqa: E402

from snaxc.accelerators.snax_alu import SNAXAluAccelerator  # noqa: E402
from snaxc.accelerators.snax_hwpe_mult import SNAXHWPEMultAccelerator  # noqa: E402


@contract
class ALU_stream_setup_vals_match_fields:
    target = "snaxc.accelerators.snax_alu.SNAXAluAccelerator._generate_stream_setup_vals"
    shapes = [dict(nt=1), dict(nt=2)]
    total = True
    compare_ret = False
    native = False
    modular = {"snaxc.accelerators.snax.SNAXStreamer._generate_streamer_setup_vals": streamer_vals_contract}

    def args(sh, sym):
        nt = sh["nt"]
        cfg = StreamerConfiguration([Streamer(StreamerType.Reader, ["n"] * nt, [4]), Streamer(StreamerType.Reader, ["n"] * nt, [4]), Streamer(StreamerType.Writer, ["n"] * nt, [4])])
        acc = SNAXAluAccelerator(cfg)
        raw = [[sym.int(f"ub{k}_{d}", 1) for d in range(nt)] for k in range(3)]
        pats = [StridePattern(raw[k], [sym.int(f"ts{k}_{d}") for d in range(nt)], [8]) for k in range(3)]
        return [acc, RegionView([mk_ident_value(4000 + k) for k in range(3)], pats), raw]

    def run(sh, a):
        return a[0]._generate_stream_setup_vals(a[1])

    def ensures(sh, a, ret):
        acc, op, raw = a
        vals = list(ret)
        fields = list(acc.fields)
        check("exactly one value per declared field", len(vals) == len(fields))
        nsf = len(acc.streamer_setup_fields)
        check("the streamer values come first, in the streamer's order", all(vals[i][1] is GX["streamer_vals"][i][1] for i in range(min(nsf, len(vals)))))
        if len(vals) == len(fields):
            got = {fields[i]: vals[i][1] for i in range(len(fields))}
            check("alu_mode == 0", den(got["alu_mode"]) == 0)
            check("loop_bound_alu == number of temporal steps of the streams", den(got["loop_bound_alu"]) == prodl(raw[0]))

    def canary(sh, a, ret):
        check("canary: loop bound is 1", den(list(ret)[len(list(ret)) - 1][1]) == 1)


@contract
class HWPE_setup_vals_match_fields:
    target = "snaxc.accelerators.snax_hwpe_mult.SNAXHWPEMultAccelerator._generate_setup_vals"
    shapes = [dict(bits=b) for b in (8, 32)]
    total = True
    compare_ret = False
    native = False

    def args(sh, sym):
        refs = []
        for k in range(3):
            ty = MemRefType(IntegerType(sh["bits"]), [sym.int(f"N{k}", 1)], StridedLayoutAttr([1], None))
            refs.append(mk_memref_value(ty, [ty.get_shape()[0]], [1], sym.int(f"off{k}", 0), sym.int(f"ptr{k}", 0)))

        class V:
            pass
        op = RegionView(refs, [])
        return [SNAXHWPEMultAccelerator(), op, refs]

    def run(sh, a):
        return a[0]._generate_setup_vals(a[1])

    def ensures(sh, a, ret):
        acc, op, refs = a
        vals = list(ret)
        fields = list(acc.fields)
        el = ((sh["bits"] + 7) // 8)
        check("exactly one value per declared field", len(vals) == len(fields))
        if len(vals) == len(fields):
            got = {fields[i]: vals[i][1] for i in range(len(fields))}
            for name, k in (("A", 0), ("B", 1), ("O", 2)):
                check(f"{name} == aligned pointer + offset in bytes of operand {k}", den(got[name]) == refs[k].rt_ptr + refs[k].rt_offset * el)
            check("vector_length == length of the first operand", den(got["vector_length"]) == rt_shape(refs[0], 0))
            check("nr_iters == 1", den(got["nr_iters"]) == 1)
            check("mode == 1", den(got["mode"]) == 1)

    def canary(sh, a, ret):
        check("canary: all pointers are 0", den(list(ret)[0][1]) == 0)


# =====================================================================================
# GEMMX template: the spatial unrolling offered to the scheduler is the array geometry (m x k) * (k x n) -> (m x n)
# =====================================================================================
from snaxc.accelerators.snax_gemmx import default_streamer as gemmx_default_streamer  # noqa: E402

TEMPLATE_KERNELS = ("mac", "qmac", "mac_add", "mac_rescale", "mac_add_rescale", "rescale_only")


def template_body(sym, kind):
    x8, acc32 = mk_ident_value(3101, i8), mk_ident_value(3102, i32)
    stream8, stream32 = dart.StreamType(IntegerType(8)), dart.StreamType(IntegerType(32))
    if kind == "rescale_only":
        g = dart.GenericOp([x8], Region([Block([mk_rescale(sym, acc32, 1, i8)])]), None, None, [stream8])
        return [g, dart.YieldOp(g.outputs[0])]
    blk = Block(arg_types=[i8, i8, i32, i32])
    if kind.startswith("qmac"):
        blk.add_op(kernel.QMacOp.create(operands=[blk.args[0], blk.args[1], blk.args[2], blk.args[3]], result_types=[i32]))
    else:
        blk.add_op(kernel.MacOp.create(operands=[blk.args[0], blk.args[1]], result_types=[i32]))
    ops = [dart.GenericOp([x8, x8, acc32, acc32], Region([blk]), None, None, [stream32])]
    if "add" in kind:
        ops.append(dart.GenericOp([ops[-1].outputs[0], acc32], Region([Block([kernel.AddOp.create(operands=[acc32, acc32], result_types=[i32])])]), None, None, [stream32]))
    if "rescale" in kind:
        ops.append(dart.GenericOp([ops[-1].outputs[0]], Region([Block([mk_rescale(sym, acc32, 1, i8)])]), None, None, [stream8]))
    ops.append(dart.YieldOp(ops[-1].outputs[0]))
    return ops


def footprint(tp):
    """per result of the operand's template pattern: how many distinct index values one hardware step covers"""
    A = tp.pattern.A.tolist()
    out = []
    for row in A:
        ext = 1
        for j in range(len(row)):
            if row[j] != 0:
                ext = ext + abs(row[j]) * (tp.bounds[j] - 1)
        out.append(ext)
    return out


@contract
class GEMMX_get_template_contract:
    """one hardware step of a gemmx array built as (m, n, k) consumes an m x k tile of A and a k x n tile of B and produces
    an m x n tile of the result (C / D likewise); the rescale-only function streams m x k tiles - for EVERY geometry, not
    only the cubic default"""
    target = "snaxc.accelerators.snax_gemmx.SNAXGEMMXAccelerator.get_template"
    shapes = [dict(kernel=kn, geom=g) for kn in TEMPLATE_KERNELS for g in ((8, 8, 8), (4, 8, 16), (2, 3, 5), (16, 4, 8))]
    quick = lambda sh: sh["geom"] != (16, 4, 8)
    native = False
    total = True
    compare_ret = False

    def args(sh, sym):
        m, n, k = sh["geom"]
        acc = SNAXGEMMXAccelerator(gemmx_default_streamer, m, n, k)
        op = XRegionView([], [], template_body(sym, sh["kernel"]))
        return [acc, op]

    def ensures(sh, a, ret):
        m, n, k = sh["geom"]
        pats = list(ret)
        kind = sh["kernel"]
        if kind == "rescale_only":
            check("rescale only: input and output stream m x k tiles", len(pats) == 2 and all(footprint(p) == [m, k] for p in pats))
            return
        check("one template pattern per streamed operand: A, B, (C,) result", len(pats) == (4 if "add" in kind else 3))
        check("A is consumed in m x k tiles", footprint(pats[0]) == [m, k])
        check("B is consumed in k x n tiles", footprint(pats[1]) == [k, n])
        for j in range(2, len(pats)):
            check(f"operand {j} (C / result) is produced in m x n tiles", footprint(pats[j]) == [m, n])
        check("all operands share one iteration space", all(tuple(p.bounds) == tuple(pats[0].bounds) for p in pats))
        bs = list(pats[0].bounds)
        check("the iteration space of one step has m * n * k points", bs[0] * bs[1] * bs[2] == m * n * k and len(bs) == 3)

    def canary(sh, a, ret):
        check("canary: every tile is 8 x 8", all(footprint(p) == [8, 8] for p in ret) and sh["geom"] != (8, 8, 8))
