"""Contracts for snaxc/accelerators/*.py (C08: generated values line up with field names; C04: register maps)."""
import itertools

from pyvc.api import SYMBOLIC, check, contract, den, implies, mk_ident_value, mk_opresult
from xdsl.dialects import arith
from xdsl.dialects.builtin import ArrayAttr, IndexType, IntegerAttr, i32

from snaxc.accelerators.snax import SNAXStreamer
from snaxc.accelerators.streamers.extensions.transpose_extension import TransposeExtension
from snaxc.accelerators.streamers.streamers import (HasAddressRemap, HasBroadcast, HasByteMask, HasChannelMask, Streamer, StreamerConfiguration,
                                                     StreamerFlag, StreamerType)
from snaxc.dialects.snax_stream import StridePattern

OPTS = {"a": HasAddressRemap, "c": HasChannelMask, "b": HasBroadcast, "t": TransposeExtension, "m": HasByteMask}


class PlainStreamer(SNAXStreamer):
    """the abstract streamer interface with its one abstract method closed (the template is irrelevant here)"""

    def get_template(self, op):
        return None


class RegionView:
    """view of snax_stream.StreamingRegionOp: operands and one stride pattern per operand"""

    def __init__(self, operands, patterns):
        self.operands = list(operands)
        self.stride_patterns = ArrayAttr(patterns)


def mk_streamers(spec):
    """spec: list of (flags string, n spatial, option letters)"""
    return [Streamer(StreamerType.Reader, list(flags), [8] * ns, [OPTS[o]() for o in opts]) for flags, ns, opts in spec]


def mk_operand(sym, k, kind):
    """'ptr': an arbitrary SSA pointer; 'const': the result of an index constant with a symbolic value (0 => zero pattern)"""
    if kind == "ptr":
        return mk_opresult(sym.int(f"ptr{k}", 0), IndexType()) if not SYMBOLIC else mk_ident_value(1000 + k)
    return arith.ConstantOp.from_int_and_width(sym.int(f"cst{k}", 0, 1), IndexType()).result


def mk_patterns(sym, spec, short):
    pats, raw = [], []
    for k, (flags, ns, opts) in enumerate(spec):
        nt = len(flags) - (1 if short and len(flags) > 1 else 0)
        ub = [sym.int(f"ub{k}_{d}", 0) for d in range(nt)]
        ts = [sym.int(f"ts{k}_{d}") for d in range(nt)]
        ss = [sym.int(f"ss{k}_{d}", 0) for d in range(ns)]
        pats.append(StridePattern(ub, ts, ss))
        raw.append((ub, ts, ss))
    return pats, raw


def is_zero_operand(v):
    """the streamer must generate zeros: the operand is the result of an index constant 0"""
    if SYMBOLIC:
        return isinstance(getattr(v, "owner", None), arith.ConstantOp) and den(v) == 0
    from xdsl.ir import OpResult
    return isinstance(v, OpResult) and isinstance(v.owner, arith.ConstantOp) and v.owner.value == IntegerAttr(0, IndexType())


def expected_streamer_value(field, names, spec, operands, raw, zero_address):
    """MEANING of a streamer setup field, read off its NAME: ('value', ssa) or ('const', integer)"""
    name, rest = field.split("_", 1)
    k = names.index(name)
    flags, ns, opts = spec[k]
    ub, ts, ss = raw[k]
    zero = is_zero_operand(operands[k])
    if rest == "ptr_low":
        return ("zeroptr", zero, operands[k], zero_address)
    if rest == "ptr_high":
        return ("const", 0)
    if rest.startswith("sstride_"):
        return ("const", ss[int(rest[8:])])
    if rest.startswith("bound_"):
        d = int(rest[6:])
        b = ub[d] if d < len(ub) else 1  # padded with bound 1
        t = ts[d] if d < len(ts) else 0
        if flags[d] == "r":
            return ("const_ite", b > 1 and t == 0, 1, b)  # internally reused dimension collapses to a single fetch
        return ("const", b)
    if rest.startswith("tstride_"):
        d = int(rest[8:])
        return ("const", ts[d] if d < len(ts) else 0)  # padded with stride 0
    if rest == "address_remap":
        return ("const", 0)
    if rest == "channel_mask":
        return ("const_ite", zero, 0, -1)
    if rest == "transpose":
        return ("const", 0)
    if rest == "broadcast":
        return ("const_ite", any(s == 0 for s in ss), 1, 0)
    raise AssertionError("unknown streamer field " + field)


def check_value(tag, got, exp):
    if exp[0] == "const":
        check(tag, den(got) == exp[1])
    elif exp[0] == "const_ite":
        check(tag, (exp[1] and den(got) == exp[2]) or (not exp[1] and den(got) == exp[3]))
    elif exp[0] == "zeroptr":
        check(tag, (exp[1] and den(got) == exp[3]) or (not exp[1] and got is exp[2]))
    else:
        check(tag, got is exp[1])


def _streamer_shapes():
    out = []
    # one streamer: all flag words for t <= 3 (quick: t <= 2), spatial 1..2, every subset of {a,c,b,t}
    subsets = ["".join(c) for r in range(5) for c in itertools.combinations("acbt", r)]
    for t in (1, 2, 3):
        for flags in itertools.product("nir", repeat=t):
            for ns in (1, 2):
                for opts in subsets:
                    if t == 3 and (ns == 2 or opts not in ("", "acbt", "cb")):
                        continue
                    out.append(dict(spec=[("".join(flags), ns, opts)], operands=["const"], short=False))
    # longer streamers: at most one non-'n' flag at each position
    for t in (4, 5, 6):
        for pos in range(t):
            for f in "ir":
                fl = "n" * pos + f + "n" * (t - pos - 1)
                out.append(dict(spec=[(fl, 1, "c")], operands=["ptr"], short=True))
    # multi-streamer structures (the trailing transpose / broadcast sections interleave streamers)
    multi = [[("n", 1, "b"), ("n", 1, "t")], [("nr", 1, "t"), ("n", 2, "cb")], [("n", 1, "ab"), ("nn", 1, "t"), ("r", 1, "cbt")],
             [("nnn", 2, "t"), ("nnn", 2, "t"), ("rnn", 2, "cb")], [("n", 1, ""), ("n", 1, ""), ("n", 1, "")],
             [("rnn", 1, "c"), ("inn", 1, "c"), ("nnn", 1, "ab"), ("nn", 1, "tb")]]
    for spec in multi:
        for short in (False, True):
            out.append(dict(spec=spec, operands=["ptr"] + ["const"] * (len(spec) - 1), short=short))
    return out


@contract
class SNAXStreamer_setup_vals_match_fields:
    """one value per declared streamer field, in the declared order, each with the meaning its field name states"""
    target = "snaxc.accelerators.snax.SNAXStreamer._generate_streamer_setup_vals"
    shapes = _streamer_shapes()
    quick = lambda sh: (len(sh["spec"]) == 1 and len(sh["spec"][0][0]) <= 2 and sh["spec"][0][2] in ("", "acbt", "c", "b", "at")) or len(sh["spec"]) > 1 or len(sh["spec"][0][0]) >= 5
    total = True
    compare_ret = False

    def args(sh, sym):
        spec = [tuple(x) for x in sh["spec"]]
        acc = PlainStreamer(StreamerConfiguration(mk_streamers(spec)))
        operands = [mk_operand(sym, k, kind) for k, kind in enumerate(sh["operands"])]
        pats, raw = mk_patterns(sym, spec, sh["short"])
        return [acc, RegionView(operands, pats), spec, operands, raw]

    def requires(sh, a):
        acc, op, spec, operands, raw = a
        # streaming-region verifier / streamer semantics: irrelevant dimensions carry a zero stride
        ok = True
        for k, (flags, ns, opts) in enumerate(spec):
            ub, ts, ss = raw[k]
            for d in range(len(ts)):
                if flags[d] == "i":
                    ok = ok and ts[d] == 0
        return ok

    def run(sh, a):
        return a[0]._generate_streamer_setup_vals(a[1])

    def ensures(sh, a, ret):
        acc, op, spec, operands, raw = a
        fields = list(acc.streamer_setup_fields)
        vals = list(ret)
        check("exactly one value per declared field", len(vals) == len(fields))
        check("field names are unique", len(set(fields)) == len(fields))
        for i in range(min(len(vals), len(fields))):
            exp = expected_streamer_value(fields[i], list(acc.streamer_names), spec, operands, raw, acc.zero_address)
            check_value(f"field {fields[i]} receives the value with that meaning", vals[i][1], exp)
            # every op needed to compute the value is listed with it (def before use)
            v = vals[i][1]
            owner = getattr(v, "owner", None)
            if isinstance(owner, arith.ConstantOp) and not any(v is o for o in operands):
                check(f"field {fields[i]}: the constant defining its value is emitted with it", any(o is owner for o in vals[i][0]))

    def canary(sh, a, ret):
        check("canary: all values are the constant 0", all(den(v) == 0 for _, v in ret))


# =====================================================================================
# xDMA streamer (snax_xdma.py): declared fields vs generated values
# =====================================================================================
from xdsl.dialects.builtin import DenseArrayBase, i8  # noqa: E402
from xdsl.ir import Block, Region  # noqa: E402

from snaxc.accelerators.snax_xdma import SNAXXDMAAccelerator  # noqa: E402
from snaxc.accelerators.streamers.extensions import (AddExtension, MaxPoolExtension, MemSetExtension, RescaleDownExtension,  # noqa: E402
                                                      RescaleUpExtension, StreamerExtension)
from snaxc.accelerators.streamers.extensions.add_extension import AddLongExtension  # noqa: E402
from snaxc.accelerators.streamers.streamers import StreamerSystemType  # noqa: E402
from snaxc.dialects import dart, kernel  # noqa: E402

XOPTS = dict(OPTS, A=AddExtension, L=AddLongExtension, P=MaxPoolExtension, S=MemSetExtension, D=RescaleDownExtension, U=RescaleUpExtension)


class XRegionView(RegionView):
    def __init__(self, operands, patterns, body_ops):
        self.operands = list(operands)
        self.stride_patterns = ArrayAttr(patterns)
        self.body = Region([Block(body_ops)])


def mk_kernel(sym, kind):
    """the op inside the dart.generic of the streaming region (or no generic at all)"""
    if kind == "nogeneric":
        return [], None
    x = mk_opresult(0, i32) if not SYMBOLIC else mk_ident_value(2000, i32)
    if kind == "add_i32":
        k = kernel.AddOp.create(operands=[x, x], result_types=[i32])
    elif kind == "mul_i32":
        k = kernel.MulOp.create(operands=[x, x], result_types=[i32])
    else:
        k = kernel.RescaleOp.create(operands=[x], result_types=[i8], attributes={
            "input_zp": IntegerAttr(sym.int("in_zp", -8, 8), i32), "output_zp": IntegerAttr(sym.int("out_zp", -8, 8), i32),
            "multiplier": DenseArrayBase.from_list(i32, [sym.int("mult", 1, 100)]), "shift": DenseArrayBase.from_list(i32, [sym.int("shift", 0, 31)])})
    g = dart.GenericOp([], Region([Block([k])]))
    return [g], k


def expected_xdma_value(field, names, spec, streamers, operands, raw, zero_address, kernel_op):
    name, rest = field.split("_", 1)
    k = names.index(name)
    zero = is_zero_operand(operands[k])
    if rest == "enabled_chan" or rest == "enabled_byte":
        return ("const_ite", zero, 0, -1)
    exts = [o for o in streamers[k].opts if isinstance(o, StreamerExtension)]
    if rest == "bypass":
        v = 0
        for i, e in enumerate(exts):
            if kernel_op is not None and e.supported_kernel is not None and e.supported_kernel.is_same_kernel(kernel_op):
                v = v + 2 ** i
        return ("const", v)
    for e in exts:
        if rest.startswith(e.name + "_") and rest[len(e.name) + 1:].isdigit():
            j = int(rest[len(e.name) + 1:])
            if kernel_op is not None and e.supported_kernel is not None and e.supported_kernel.is_same_kernel(kernel_op):
                return ("const", list(e.get_csr_values(kernel_op))[j])
            return ("const", 0)
    return expected_streamer_value(field, names, spec, operands, raw, zero_address)


XDMA_CONFIGS = [
    ("default", None),
    ("nomask", [("nn", 1, "A"), ("nn", 1, "S")]),
    ("readermask", [("n", 1, "Ac"), ("n", 1, "t")]),
    ("bytemask", [("n", 1, "c"), ("n", 1, "cm")]),
    ("rescale", [("nn", 1, "DUc"), ("nn", 1, "cm")]),
    ("plain", [("n", 1, ""), ("n", 1, "")]),
    ("allreader", [("n", 1, "PALDUc"), ("n", 1, "Stcm")]),
]


@contract
class XDMA_setup_vals_match_fields:
    target = "snaxc.accelerators.snax_xdma.SNAXXDMAAccelerator._generate_stream_setup_vals"
    shapes = [dict(config=c, kernel=k, operands=o) for c, _ in XDMA_CONFIGS for k in ("nogeneric", "add_i32", "mul_i32", "rescale_down")
              for o in (("ptr", "ptr"), ("const", "ptr"), ("ptr", "const"))]
    quick = lambda sh: sh["config"] in ("default", "nomask", "rescale", "bytemask") and (sh["operands"] != ("ptr", "const") or sh["config"] == "default")
    total = True
    compare_ret = False

    def args(sh, sym):
        cfg = dict(XDMA_CONFIGS)[sh["config"]]
        if cfg is None:
            acc = SNAXXDMAAccelerator()
            spec = [("n" * len(s.temporal_dims), len(s.spatial_dims), "") for s in acc.streamer_config.data.streamers]
        else:
            spec = cfg
            streamers = [Streamer(StreamerType.Reader if i == 0 else StreamerType.Writer, list(f), [8] * ns, [XOPTS[o]() for o in opts]) for i, (f, ns, opts) in enumerate(cfg)]
            acc = SNAXXDMAAccelerator(StreamerConfiguration(streamers, StreamerSystemType.DmaExt))
        operands = [mk_operand(sym, k, kind) for k, kind in enumerate(sh["operands"])]
        pats, raw = mk_patterns(sym, spec, False)
        body, kop = mk_kernel(sym, sh["kernel"])
        return [acc, XRegionView(operands, pats, body), spec, operands, raw, kop]

    def requires(sh, a):
        return True

    def run(sh, a):
        return a[0]._generate_stream_setup_vals(a[1])

    def ensures(sh, a, ret):
        acc, op, spec, operands, raw, kop = a
        fields = list(acc.fields)
        vals = list(ret)
        check("exactly one value per declared field", len(vals) == len(fields))
        check("field names are unique", len(set(fields)) == len(fields))
        if len(vals) == len(fields):
            for i in range(len(fields)):
                exp = expected_xdma_value(fields[i], list(acc.streamer_names), spec, list(acc.streamer_config.data.streamers), operands, raw, acc.zero_address, kop)
                check_value(f"field {fields[i]} receives the value with that meaning", vals[i][1], exp)

    def canary(sh, a, ret):
        check("canary: all values are the constant 0", all(den(v) == 0 for _, v in ret))
