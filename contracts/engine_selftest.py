"""Self-test of the VC generator's numpy model (NOT repository code): the frame clauses on the scheduler's extra checks are
only worth something if the model aliases views the way numpy does.  The program below is executed by the engine
(symbolically: its clauses are proved for all element values) AND by CPython with real numpy (differential guard: any
difference in the returned lists is a checker error)."""
import numpy as np
from pyvc.api import check, contract


def numpy_alias_program(xs, ch):
    A = np.array([[xs[0], xs[1], xs[2]], [xs[3], xs[4], xs[5]]]).reshape(2, 3)
    before = A.tolist()
    inner = A[:, :-1]  # basic slicing: view
    row = inner[ch, :]  # view of a view
    row[row != 0] = 1  # boolean-mask store through both views
    after_mask = A.tolist()
    A.T[2, 0] = 7  # transpose: view
    A.reshape(-1)[4] += 5  # reshape of contiguous data: view; in-place add
    fancy = A[[0, 1]]  # fancy indexing: copy
    fancy[0, 0] = 99
    cp = A.copy()
    cp[1, 1] = 55
    for r in A:  # iteration yields views
        r[1] += 1
    col = np.asarray(A)[:, 1]  # asarray of an array: the same object
    col += 10
    am = int(np.argmax(np.array([xs[0], xs[1], xs[2]]))) + 10 * int(np.argmin(np.array([xs[3], xs[4], xs[5]])))
    return [before, after_mask, A.tolist(), fancy.tolist(), cp.tolist(), am]


@contract
class numpy_alias_semantics_selftest:
    target = "contracts.engine_selftest.numpy_alias_program"
    shapes = [dict(ch=0), dict(ch=1)]
    total = True

    def args(sh, sym):
        return [[sym.int(f"x{i}", -3, 3) for i in range(6)], sh["ch"]]

    def ensures(sh, a, ret):
        xs, ch = a
        before, after_mask, final, fancy, cp, am = ret
        exp = [[xs[0], xs[1], xs[2]], [xs[3], xs[4], xs[5]]]
        check("snapshot", before == exp)
        for j in range(2):
            exp[ch][j] = 1 if exp[ch][j] != 0 else 0
        check("a store through a view of a view reaches the base array", after_mask == exp)
        fz = [list(exp[0]), list(exp[1])]
        fz[0][2] = 7
        fz[1][1] = fz[1][1] + 5
        check("fancy indexing copies (taken before the later writes, changed only by its own store)", fancy == [[99, fz[0][1], fz[0][2]], [fz[1][0], fz[1][1], fz[1][2]]])
        check("copy() owns its storage", cp == [[fz[0][0], fz[0][1], fz[0][2]], [fz[1][0], 55, fz[1][2]]])
        fz[0][1] = fz[0][1] + 11
        fz[1][1] = fz[1][1] + 11
        check("transpose / reshape / row iteration / asarray all write through to the base array", final == fz)
        mx = 0 if xs[0] >= xs[1] and xs[0] >= xs[2] else (1 if xs[1] >= xs[2] else 2)
        mn = 0 if xs[3] <= xs[4] and xs[3] <= xs[5] else (1 if xs[4] <= xs[5] else 2)
        check("argmax / argmin return the first extreme position", am == mx + 10 * mn)

    def canary(sh, a, ret):
        check("canary: the mask store changes nothing", ret[0] == ret[1])
