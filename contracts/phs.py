"""Contract for C20: a merged processing element, configured as decoded, computes each kernel.

The real combine (append_to_abstract_graph) and decode (decode_abstract_graph, search_mapping, valid_mapping) functions
run on graphs built from the REAL phs dialect classes (PEOp / ChooseOp / MuxOp / YieldOp executed from their source through
the irdl stub).  A history of kernels is merged one after the other into one abstract PE; then every kernel of the
history is decoded against it and the contract EVALUATES both graphs on symbolic data inputs:

    eval(abstract PE, data, switches := decoded values)  ==  eval(kernel, data)        for all integer data

with + - * as mathematical integer operations (non-commutative subtraction makes operand routing observable)."""
from pyvc.api import check, contract, den
from xdsl.dialects import arith
from xdsl.dialects.builtin import IndexType, i32
from xdsl.ir import Block, BlockArgument, Region

import snaxc.phs.combine as combine
import snaxc.phs.decode as decode
import snaxc.phs.encode as encode
from snaxc.dialects import phs

OPS = {"add": arith.AddiOp, "sub": arith.SubiOp, "mul": arith.MuliOp}

# kernel bodies over three data inputs: a list of (op kind, operand refs); a ref is an input index 0..2 or ("r", k) = result
# of the k-th op; the last op is yielded
KERNELS = {
    "a+b": [("add", 0, 1)],
    "a*b": [("mul", 0, 1)],
    "b-a": [("sub", 1, 0)],
    "a-b": [("sub", 0, 1)],
    "c-a": [("sub", 2, 0)],
    "(a*b)+c": [("mul", 0, 1), ("add", ("r", 0), 2)],
    "(a+b)*c": [("add", 0, 1), ("mul", ("r", 0), 2)],
    "c-(a*b)": [("mul", 0, 1), ("sub", 2, ("r", 0))],
    "(b-a)+c": [("sub", 1, 0), ("add", ("r", 0), 2)],
    "(a*b)-(a*b)": [("mul", 0, 1), ("sub", ("r", 0), ("r", 0))],
    "a*a": [("mul", 0, 0)],
    "(b-c)*(b-c)": [("sub", 1, 2), ("mul", ("r", 0), ("r", 0))],
}


def mk_kernel(name, spec):
    """the concrete PE convert_generic_body_to_phs produces for a body: one single-operation ChooseOp per body op (ids
    from the real get_id), one switch per ChooseOp, the last result yielded"""
    pe = phs.PEOp(name, ([i32, i32, i32], [i32]), 0, Region([Block([], [i32, i32, i32])]))
    blk = pe.body.block
    count = {}
    results = []
    for (kind, x, y) in spec:
        vals = []
        for r in (x, y):
            vals.append(results[r[1]] if isinstance(r, tuple) else blk.args[r])
        op = OPS[kind](vals[0], vals[1], i32)
        ident = encode.get_id(op, count)
        ch = phs.ChooseOp.from_operations(ident, [vals[0], vals[1]], pe.add_switch(), [op], [i32])
        blk.add_op(ch)
        results.append(ch.results[0])
    blk.add_op(phs.YieldOp(results[-1]))
    return pe


def apply_op(o, xs):
    if isinstance(o, arith.AddiOp):
        return xs[0] + xs[1]
    if isinstance(o, arith.SubiOp):
        return xs[0] - xs[1]
    if isinstance(o, arith.MuliOp):
        return xs[0] * xs[1]
    return None


def eval_pe(pe, data, switch_of):
    """value yielded by the PE for data inputs `data`; switch_of(block argument) = value of that switch"""
    env = []  # (ssa value, integer)
    n = len(pe.data_operands())
    k = 0
    for a in pe.body.block.args:
        if k < n:
            env.append((a, data[k]))
        k += 1

    def val(v):
        for (x, d) in env:
            if x is v:
                return d
        return None

    out = None
    for o in pe.body.block.ops:
        if isinstance(o, phs.ChooseOp):
            regions = list(o.regions)
            sel = switch_of(o.switch)
            reg = regions[sel]
            inner = reg.blocks[0].ops[0]
            # inside the region the operation works on the region's own block arguments, bound to the data operands
            local = []
            j = 0
            for ba in reg.blocks[0].args:
                local.append((ba, val(o.data_operands[j])))
                j += 1
            xs = []
            for opd in inner.operands:
                got = None
                for (x, d) in local:
                    if x is opd:
                        got = d
                xs.append(got)
            env.append((o.results[0], apply_op(inner, xs)))
        elif isinstance(o, phs.MuxOp):
            env.append((o.results[0], val(o.rhs) if switch_of(o.switch) == 1 else val(o.lhs)))
        elif isinstance(o, phs.YieldOp):
            out = val(o.operands[0])
    return out


HISTORIES = ([[a] for a in KERNELS] + [[a, b] for a in KERNELS for b in KERNELS if a != b]
             + [[a, b, c] for a in KERNELS for b in KERNELS for c in KERNELS if a != b and b != c and a != c])
# longer histories over sub-pools chosen for conflicting routings / repeated operands (thorough tier)
POOL4 = ["a-b", "b-a", "(a*b)+c", "c-(a*b)", "a*a", "(b-c)*(b-c)"]
POOL5 = ["a+b", "b-a", "c-(a*b)", "(a*b)-(a*b)", "(a+b)*c"]
HISTORIES = HISTORIES + [[a, b, c, d] for a in POOL4 for b in POOL4 for c in POOL4 for d in POOL4 if len({a, b, c, d}) == 4]
HISTORIES = HISTORIES + [[a, b, c, d, e] for a in POOL5 for b in POOL5 for c in POOL5 for d in POOL5 for e in POOL5 if len({a, b, c, d, e}) == 5]


@contract
class phs_merge_then_decode_contract:
    """for every kernel of a merge history: decoding succeeds, yields one value per true switch, and the merged PE
    configured with these values computes the kernel's function of its data inputs"""
    target = "snaxc.phs.decode.decode_abstract_graph"
    shapes = [dict(history=h) for h in HISTORIES]
    # quick: all histories of length <= 2, plus the 60 three-kernel histories over a sub-pool in which a later merge adds an
    # alternative to a ChooseOp that was created AFTER some muxes (switch order != creation order of the decoded values)
    quick = lambda sh: len(sh["history"]) <= 2 or (len(sh["history"]) == 3 and (all(k in ("a-b", "(b-a)+c", "c-(a*b)", "(a*b)+c", "a*a") for k in sh["history"])
                                                                                 # ... and those in which three kernels route three different sources to one input (mux CHAINS)
                                                                                 or all(k in ("a+b", "b-a", "c-a", "c-b") for k in sh["history"])))
    native = False
    total = True
    permissive = True
    compare_ret = False

    def args(sh, sym):
        return [[sym.int("a"), sym.int("b"), sym.int("c")]]

    def run(sh, a):
        hist = sh["history"]
        abstract = mk_kernel("acc", KERNELS[hist[0]])
        for name in hist[1:]:
            combine.append_to_abstract_graph(mk_kernel("acc", KERNELS[name]), abstract)
        out = []
        for name in hist:
            cand = mk_kernel("candidate", KERNELS[name])
            out.append((name, cand, list(decode.decode_abstract_graph(abstract, cand))))
        return (abstract, out)

    def ensures(sh, a, ret):
        data = a[0]
        abstract, decoded = ret
        for (name, cand, sw) in decoded:
            # the decoded list holds one value per TRUE switch, in switch order (one-choice ChooseOps get none)
            assign = []
            k = 0
            ok_len = True
            for s in abstract.get_switches():
                user = s.get_user_of_unique_use()
                if isinstance(user, phs.ChooseOp) and len(list(user.operations())) == 1:
                    assign.append((s, 0))
                else:
                    if k < len(sw):
                        assign.append((s, sw[k]))
                    else:
                        ok_len = False
                        assign.append((s, 0))
                    k += 1
            check(f"[{name}] one decoded value per true switch (== get_true_switches())", ok_len and k == len(sw) and len(sw) == abstract.get_true_switches())

            def switch_of(v):
                for (s, x) in assign:
                    if s is v:
                        return x
                return 0

            got = eval_pe(abstract, data, switch_of)
            want = eval_pe(cand, data, lambda v: 0)
            check(f"[{name}] the merged PE configured as decoded computes the kernel's function for all data inputs", got == want)

    def canary(sh, a, ret):
        check("canary: the merged PE always yields its first data input", eval_pe(ret[0], a[0], lambda v: 0) == a[0][0])
