"""Contracts for C15 (sequential clauses): the software-pipelined form of a loop performs every stage of every original
iteration exactly once, with the index of that iteration, stage s of an iteration strictly before stage s+1 of the
same iteration with a barrier in between, and never an iteration outside the original range.

UnrollPipeline.match_and_rewrite runs as a whole on a view `scf.for { pipeline { index; stage 0 .. stage S-1 } }` with
the real pipeline dialect classes; use replacement is PERFORMED (eager mode of the IR stub), so every stage instance
can be asked which index computation feeds it.  The upper bound is SYMBOLIC: the counting argument is discharged for
all trip counts at once (linear integer arithmetic), per number of stages S in 2..4."""
from pyvc.api import check, contract, den, implies, mk_opresult
from xdsl.dialects import arith, scf
from xdsl.dialects.builtin import IndexType
from xdsl.ir import Block, Operation, Region
from xdsl.pattern_rewriter import PatternRewriter

import xdsl.ir as xir

import snaxc.transforms.pipeline.unroll_pipeline as up
from snaxc.dialects import pipeline, snax


class WorkOp(Operation):
    """the work of one stage: an op using the index-dependent value (e.g. a copy from the tile selected by it)"""

    def __init__(self, operands, tag):
        self._init_op(list(operands), [], [])
        self.tag = tag

    def clone(self, value_mapper=None, block_mapper=None):
        vm = value_mapper if value_mapper is not None else {}
        return WorkOp([vm[v] if v in vm else v for v in self.operands], self.tag)


def idx(v):
    v.type = IndexType()
    return v


def build(sh, sym):
    S = sh["stages"]
    ub = sym.int("ub")
    if sh["loop"] == "general":
        lb, st = sym.int("lb"), sym.int("step")
    else:
        lb, st = 0, 1
    lbv, ubv, stv = idx(mk_opresult(lb)), idx(mk_opresult(ub)), idx(mk_opresult(st))
    body = Block([], [IndexType()])
    I = sym.int("I")
    body.args[0].den = I
    # index op: ^bb0(%a): %v = %a * c ; yield %v, %a
    ib = Block([], [IndexType()])
    A = sym.int("A")
    ib.args[0].den = A
    c = arith.ConstantOp.from_int_and_width(sym.int("c"), IndexType())
    v = arith.MuliOp(ib.args[0], c)
    y = pipeline.YieldOp(v.results[0], ib.args[0])
    for o in (c, v, y):
        ib.add_op(o)
    index_op = pipeline.IndexOp(body.args[0], [IndexType(), IndexType()], Region([ib]))
    stages = []
    for s in range(S):
        # (the last stage also uses the value that happens to be the loop's lower bound, e.g. a shared constant 0 as an offset)
        w = WorkOp([index_op.results[1], index_op.results[0]] + ([lbv] if s == S - 1 else []), s)
        stages.append(pipeline.StageOp([], [], s, Region([Block([w])])))
    pipe = pipeline.PipelineOp(Region([Block([index_op] + stages)]))
    body.add_op(pipe)
    body.add_op(scf.YieldOp())
    loop = scf.ForOp(lbv, ubv, stv, [], body)
    top = Block([lbv.owner, ubv.owner, stv.owner, loop])
    Region([top])
    return dict(loop=loop, pipe=pipe, index_op=index_op, stages=stages, S=S, ub=ub, lb=lb, st=st, I=I, body=body, lbv=lbv)


def instance_of(stage_op):
    """(stage number, value of the loop index this instance works on, does it use BOTH results of the same index op)"""
    w = stage_op.body.block.ops[0]
    r = w.operands[0]
    iop = r.owner
    same = isinstance(iop, pipeline.IndexOp) and w.operands[1].owner is iop and r is iop.results[1] and w.operands[1] is iop.results[0]
    return (stage_op.index.value.data, den(iop.operands[0]), same)


def slots(ops):
    """split a list of ops into barrier-terminated groups of stage instances; returns (groups, well_formed)"""
    groups = []
    cur = []
    ok = True
    for o in ops:
        if isinstance(o, pipeline.StageOp):
            cur.append(instance_of(o))
        elif isinstance(o, snax.ClusterSyncOp):
            groups.append(cur)
            cur = []
    if len(cur) > 0:
        ok = False  # stage instances after the last barrier
    return groups, ok


@contract
class UnrollPipeline_contract:
    """prologue + steady-state loop + epilogue execute each (stage, iteration) pair exactly once, in time slot
    stage + iteration, every slot closed by a barrier, and no iteration outside [0, trip count)"""
    target = "snaxc.transforms.pipeline.unroll_pipeline.UnrollPipeline.match_and_rewrite"
    # lb = 0 and step = 1 are what ConstructPipeline guarantees (ConstructPipeline_contract); "enough": a constant upper
    # bound, for which it also guarantees ub >= S - 1; "any": an upper bound only known at run time
    shapes = [dict(stages=S, loop="canonical", trips=t) for S in (2, 3, 4) for t in ("enough", "any")]
    native = False
    total = True
    permissive = True
    compare_ret = False

    def args(sh, sym):
        return [build(sh, sym), sym.int("t")]

    def requires(sh, a):
        v = a[0]
        if sh["trips"] == "enough":
            # at least as many iterations as the pipeline is deep (minus one): ceil((ub - lb) / step) >= S - 1
            if sh["loop"] == "general":
                return v["st"] >= 1 and v["ub"] - v["lb"] >= (v["S"] - 2) * v["st"] + 1
            return v["ub"] >= v["S"] - 1
        return v["ub"] >= 0

    def run(sh, a):
        v = a[0]
        xir.EAGER[0] = True
        rw = PatternRewriter(v["pipe"])
        up.UnrollPipeline().match_and_rewrite(v["pipe"], rw)
        xir.EAGER[0] = False
        return rw.log

    def ensures(sh, a, ret):
        v, t = a
        S, ub, lb, st, I, loop = v["S"], v["ub"], v["lb"], v["st"], v["I"], v["loop"]
        # --- reconstruct the op order around the loop from the recorded insertions
        before = [o for e in ret if e[0] == "insert_op" and e[2].kind == "before" and e[2].anchor is loop for o in e[1]]
        after = []
        for e in ret:
            if e[0] == "insert_op" and e[2].kind == "after" and e[2].anchor is loop:
                after = list(e[1]) + after  # each insertion lands directly behind the loop, in front of earlier ones
        in_body_end = [o for e in ret if e[0] == "insert_op" and e[2].kind == "at_end" and e[2].anchor is v["pipe"].body.block for o in e[1]]
        check("the pipeline body is inlined in front of the pipeline op, which is erased",
              any(e[0] == "inline_block" and e[1] is v["pipe"].body.block for e in ret) and any(e[0] == "erase_op" and e[1] is v["pipe"] for e in ret))
        pre, pre_ok = slots(before)
        post, post_ok = slots(after)
        steady = [instance_of(s) for s in v["stages"]]
        check("prologue and epilogue are sequences of barrier-terminated slots; the loop body ends with a barrier",
              pre_ok and post_ok and len(in_body_end) == 1 and isinstance(in_body_end[0], snax.ClusterSyncOp))
        check("every stage instance takes all its index-dependent values from ONE index computation",
              all(x[2] for g in pre + post for x in g) and all(x[2] for x in steady))
        new_lb = den(loop.lb)
        # iteration number k <-> index value lb + k * step; the steady-state loop variable I runs from new_lb in steps of `st`
        def iter_val(k):
            return lb + k * st
        # --- (1) in range
        for g in pre + post:
            for (s, x, _) in g:
                check(f"prologue/epilogue instance of stage {s} works on an iteration inside the original range",
                      x >= lb and x < ub and (x - lb) % st == 0)
        for (s, x, _) in steady:
            check(f"steady-state stage {s} works on iteration (loop index - {s} steps), which is inside the original range",
                  x == I - s * st and implies(I >= new_lb and I < ub, x >= lb and x < ub))
        # --- (2) exactly once: count the instances of (stage s, iteration t) for an arbitrary iteration t of the original loop
        tv = iter_val(t)
        for s in range(S):
            n = 0
            for g in pre + post:
                for (s2, x, _) in g:
                    if s2 == s:
                        n = n + (1 if False else 0)
            cnt_terms = [x == tv for g in pre + post for (s2, x, _) in g if s2 == s]
            # the steady-state loop runs stage s on iteration t when its index I = tv + s*st lies in [new_lb, ub) (and on the loop's grid)
            in_loop = (tv + s * st >= new_lb) and (tv + s * st < ub) and ((tv + s * st - new_lb) % st == 0)
            cnt_terms = cnt_terms + [in_loop]
            exactly_one = any(cnt_terms[i] and all(not cnt_terms[j] for j in range(len(cnt_terms)) if j != i) for i in range(len(cnt_terms)))
            check(f"stage {s} of an arbitrary original iteration t is executed exactly once", implies(t >= 0 and tv < ub, exactly_one))
        # --- (3) time slots: prologue slot k = k, loop iteration with index I = slot (I - lb)/st, epilogue slot g = trip count + g
        k = 0
        for g in pre:
            for (s, x, _) in g:
                check(f"prologue slot {k}: stage {s} works on iteration {k} - {s}", x == iter_val(k - s))
            k += 1
        check("the steady-state loop starts at the first slot after the prologue", new_lb == iter_val(S - 1))
        gi = 0
        for g in post:
            for (s, x, _) in g:
                # the slot after the last loop iteration is the one whose stage-0 iteration would be the first out of range
                check(f"epilogue slot {gi}: stage {s} works on iteration (first iteration past the range) + {gi} - {s}",
                      implies((ub - lb) % st == 0, x == ub + (gi - s) * st))
            gi += 1
        check("within a slot no stage appears twice", all(len([1 for (s2, _, _) in g if s2 == s]) <= 1 for g in pre + post for s in range(S)))
        others = [o.body.block.ops[0] for o in before + after + list(v["stages"]) if isinstance(o, pipeline.StageOp) and len(o.body.block.ops[0].operands) == 3]
        check("only the loop itself gets the shifted lower bound: other users of that value keep it", len(others) >= 1 and all(w.operands[2] is v["lbv"] for w in others))

    def canary(sh, a, ret):
        check("canary: nothing is inserted before the loop", not any(e[0] == "insert_op" and e[2].kind == "before" and e[2].anchor is a[0]["loop"] for e in ret))


# ------------------------------------------------------------------------------------------------------------------
# ConstructPipeline: which loops are turned into a pipeline, and how the body is split
# ------------------------------------------------------------------------------------------------------------------
from xdsl.dialects import linalg, memref  # noqa: E402
from xdsl.dialects.builtin import MemRefType, NoneAttr, StringAttr, i32  # noqa: E402

import snaxc.transforms.pipeline.construct_pipeline as cp  # noqa: E402


class IdxOp(Operation):
    """an index computation of the loop body (neither dispatched nor a barrier)"""

    def __init__(self, operands):
        self._init_op(list(operands), [None], [IndexType()])


def build_for(sh, sym):
    """scf.for %i = lb to ub step st { %x = idx(%i); <stage ops separated by barriers>; yield } with constant or dynamic bounds"""
    lbv, ubv, stv = sym.int("lb"), sym.int("ub"), sym.int("step")

    def bound(kind, val):
        if kind == "const":
            return arith.ConstantOp.from_int_and_width(val, IndexType()).results[0]
        return idx(mk_opresult(val))

    lb, ub, st = bound(sh["lb"], lbv), bound(sh["ub"], ubv), bound(sh["step"], stv)
    body = Block([], [IndexType()])
    t = MemRefType(i32, [8], NoneAttr(), StringAttr("L1"))
    bufs = [mk_opresult(None, t) for _ in range(4)]
    x = IdxOp([body.args[0]])
    ops = [x]
    if sh.get("alloc_in_body"):
        # the buffer between stage 0 and stage 1 is allocated INSIDE the loop body, among the index computations
        al = memref.AllocOp.get(i32, 64, [8])
        al.results[0].type = t
        bufs[1] = al.results[0]
        ops.append(al)
    syncs = []
    workers = []
    orig = {}
    for k in range(sh["stages"]):
        if k % 2 == 0:
            w = memref.CopyOp(bufs[k % 4], bufs[(k + 1) % 4])
        elif sh.get("scalar") and k == 1:
            # the kernel also takes a SCALAR that differs per iteration: a result of the index computations, or the loop index
            w = linalg.GenericOp([bufs[k % 4], x.results[0] if sh["scalar"] == "idx" else body.args[0]], [bufs[(k + 1) % 4]])
        else:
            w = linalg.GenericOp([bufs[k % 4]], [bufs[(k + 1) % 4]])
        workers.append(w)
        if sh["tail"] == "late_index" and k == sh["stages"] - 1:
            # an index computation (e.g. the output subview) only taken in front of the LAST stage, after >= 2 complete stages
            ops.append(IdxOp([body.args[0]]))
        ops.append(w)
        orig[id(w)] = list(w.operands)
        if sh.get("two_loads") and k == 0:
            # a second load in the same stage: ins and outs of the stage interleave in visit order (A, ta, B, tb)
            w2 = memref.CopyOp(bufs[2], bufs[3])
            ops.append(w2)
            orig[id(w2)] = list(w2.operands)
        if not (sh["tail"] in ("no_final_sync", "unsynced_then_index") and k == sh["stages"] - 1):
            s = snax.ClusterSyncOp()
            syncs.append(s)
            ops.append(s)
        elif sh["tail"] == "unsynced_then_index":
            ops.append(IdxOp([body.args[0]]))
    y = scf.YieldOp()
    for o in ops + [y]:
        body.add_op(o)
    loop = scf.ForOp(lb, ub, st, [], body)
    return dict(loop=loop, body=body, workers=workers, syncs=syncs, x=x, lb=lbv, ub=ubv, st=stv, orig=orig)


CONSTRUCT_SHAPES = ([dict(stages=S, lb="const", ub=u, step="const", tail="ok") for S in (2, 3, 4) for u in ("const", "dyn")]
                    + [dict(stages=3, lb=l, ub="const", step=s, tail="ok") for (l, s) in (("dyn", "const"), ("const", "dyn"))]
                    + [dict(stages=1, lb="const", ub="const", step="const", tail="ok"), dict(stages=3, lb="const", ub="const", step="const", tail="no_final_sync"),
                       dict(stages=3, lb="const", ub="const", step="const", tail="late_index"), dict(stages=4, lb="const", ub="dyn", step="const", tail="late_index"),
                       dict(stages=3, lb="const", ub="const", step="const", tail="unsynced_then_index"),
                       dict(stages=2, lb="const", ub="const", step="const", tail="ok", scalar="idx"), dict(stages=3, lb="const", ub="dyn", step="const", tail="ok", scalar="iv"),
                       dict(stages=2, lb="const", ub="const", step="const", tail="ok", alloc_in_body=True),
                       dict(stages=2, lb="const", ub="const", step="const", tail="ok", two_loads=True), dict(stages=3, lb="const", ub="dyn", step="const", tail="ok", two_loads=True)])


@contract
class ConstructPipeline_contract:
    """a loop becomes a pipeline only if the unrolled form is valid for it: iterations counted from 0 in steps of 1
    (constant lb == 0, step == 1), at least (stages - 1) iterations when the trip count is known, two or more
    barrier-terminated stages; the body is split into one index op and one stage per barrier, barriers erased"""
    target = "snaxc.transforms.pipeline.construct_pipeline.ConstructPipeline.match_and_rewrite"
    shapes = CONSTRUCT_SHAPES
    native = False
    total = True
    permissive = True
    compare_ret = False

    def args(sh, sym):
        return [build_for(sh, sym)]

    def run(sh, a):
        v = a[0]
        rw = PatternRewriter(v["loop"])
        cp.ConstructPipeline().match_and_rewrite(v["loop"], rw)
        return rw.log

    def ensures(sh, a, ret):
        v = a[0]
        S = sh["stages"]
        made = [o for e in ret if e[0] == "insert_op" for o in e[1] if isinstance(o, pipeline.PipelineOp)]
        if len(made) == 0:
            check("a loop is only left alone for a reason: bounds not of the supported form, too few iterations, fewer than two stages, or a body that is not index ops + barrier-terminated stages up to the yield",
                  sh["lb"] != "const" or sh["step"] != "const" or S < 2 or sh["tail"] != "ok" or v["lb"] != 0 or v["st"] != 1
                  or (sh["ub"] == "const" and v["ub"] < S - 1) or sh.get("scalar") is not None or sh.get("alloc_in_body"))
            check("nothing else is touched then", len(ret) == 0)
            return
        check("only loops counting from a CONSTANT 0 in steps of a CONSTANT 1 are pipelined (the unrolled form numbers iterations 0, 1, 2, ...)",
              sh["lb"] == "const" and sh["step"] == "const" and v["lb"] == 0 and v["st"] == 1)
        check("a loop whose known trip count is smaller than (stages - 1) is not pipelined (prologue and epilogue would run iterations that do not exist)",
              sh["ub"] != "const" or v["ub"] >= S - 1)
        check("the WHOLE body is index computations followed by two or more stages, each closed by a barrier, up to the yield (nothing is left behind in the loop next to the pipeline)", S >= 2 and sh["tail"] == "ok")
        pipe = made[0]
        inner = [o for e in ret if e[0] == "insert_op" and e[2].kind == "at_end" and e[2].anchor is pipe.body.block for o in e[1]]
        check("the pipeline holds one index op followed by one stage per barrier-terminated group, numbered in order",
              len(inner) == S + 1 and isinstance(inner[0], pipeline.IndexOp) and all(isinstance(inner[k + 1], pipeline.StageOp) and inner[k + 1].index.value.data == k for k in range(S)))
        if len(inner) != S + 1 or not isinstance(inner[0], pipeline.IndexOp) or not all(isinstance(o, pipeline.StageOp) for o in inner[1:]):
            return  # reported above; the clauses below speak about stage k of S
        check("the index op wraps the index computations of the body and takes the loop index", inner[0].operands[0] is v["body"].args[0]
              and any(o is v["x"] for o in inner[0].body.block.ops))
        check("stage k holds the k-th worker op", all(any(o is v["workers"][k] for o in inner[k + 1].body.block.ops) for k in range(S)))
        # stage operands (ins, then outs) pair with the stage block's arguments BY POSITION; every op moved into the stage must
        # reach each of its original buffers through the argument paired with exactly that buffer
        ok_pairing = True
        for k in range(S):
            st_op = inner[k + 1]
            blk_args = list(st_op.body.block.args)
            if len(blk_args) != len(st_op.operands):
                ok_pairing = False
                continue
            for o in st_op.body.block.ops:
                want = v["orig"].get(id(o))
                if want is None:
                    continue
                for j in range(len(want)):
                    if not isinstance(want[j].type, MemRefType):
                        continue  # buffers only; other operands are the subject of the next clause
                    pos = [p for p in range(len(blk_args)) if blk_args[p] is o.operands[j]]
                    if len(pos) != 1 or st_op.operands[pos[0]] is not want[j]:
                        ok_pairing = False
        check("every op of a stage reaches each of its buffers through the stage argument paired (by position) with that buffer", ok_pairing)
        # a stage runs iteration (i - k): what it takes from the index computations must come through its arguments (the unroller
        # re-binds those per stage); a direct use of the loop index or of an index computation would be the value of iteration i
        per_iter = [v["body"].args[0]] + [r for o in inner[0].body.block.ops for r in o.results]
        check("no op inside a stage uses the loop index or a value of the index computations directly (only through the stage's arguments)",
              not any(any(x is p for p in per_iter) for k in range(S) for o in inner[k + 1].body.block.ops for x in o.operands))
        # every stage instance runs its OWN copy of the index computations (for iteration i - k): a buffer they allocate is a
        # different buffer in the producer's and in the consumer's copy
        fresh = [r for o in inner[0].body.block.ops if isinstance(o, memref.AllocOp) for r in o.results]
        check("no buffer allocated by the index computations is shared between two stages (each stage instance re-executes them: producer and consumer would get different buffers)",
              not any(len([k for k in range(S) if any(x is f for x in inner[k + 1].operands)]) >= 2 for f in fresh))
        check("the barriers of the original body are erased (the unrolled form brings its own)",
              all(any(e[0] == "erase_op" and e[1] is s for e in ret) for s in v["syncs"]))

    def canary(sh, a, ret):
        check("canary: no loop is ever pipelined", not any(isinstance(o, pipeline.PipelineOp) for e in ret if e[0] == "insert_op" for o in e[1]))


# ------------------------------------------------------------------------------------------------------------------
# PipelineDuplicateBuffers: two copies selected by iteration parity are only enough between ADJACENT stages
# ------------------------------------------------------------------------------------------------------------------
from pyvc.api import implies as _implies  # noqa: E402
from xdsl.ir import Use  # noqa: E402

import snaxc.transforms.pipeline.pipeline_duplicate_buffers as pdb  # noqa: E402

DUP_SHAPES = ([dict(kind="pair", prod=p, cons=c, buf="alloc") for p in range(3) for c in range(4) if p != c]
              + [dict(kind="pair", prod=0, cons=1, buf="other"), dict(kind="only_out", prod=1, cons=None, buf="alloc"), dict(kind="only_in", prod=None, cons=2, buf="alloc"),
                 dict(kind="two_readers", prod=0, cons=1, buf="alloc"), dict(kind="from_index", prod=None, cons=1, buf="index")])


def build_dup(sh, sym):
    t = MemRefType(i32, [8], NoneAttr(), StringAttr("L1"))
    S = 4
    body = Block([], [IndexType()])
    ib = Block([], [IndexType()])
    ib.args[0].den = sym.int("A")
    y = pipeline.YieldOp(ib.args[0])
    ib.add_op(y)
    index_op = pipeline.IndexOp(body.args[0], [IndexType()], Region([ib]))
    if sh["buf"] == "alloc":
        alloc = memref.AllocOp.get(i32, 64, [8])
        buf = alloc.results[0]
        buf.type = t
    elif sh["buf"] == "index":
        alloc = None
        buf = index_op.results[0]
    else:
        alloc = None
        buf = mk_opresult(None, t)
    stages = []
    for s in range(S):
        ins, outs = [], []
        if sh["kind"] == "from_index":
            if s == sh["cons"]:
                ins = [buf]
        else:
            if sh["prod"] is not None and s == sh["prod"]:
                outs = [buf]
            if sh["cons"] is not None and s == sh["cons"]:
                ins = [buf]
            if sh["kind"] == "two_readers" and s == 2:
                ins = [buf]
        blk = Block([], [t for _ in ins + outs])
        w = WorkOp(list(blk.args), s)
        blk.add_op(w)
        st = pipeline.StageOp(ins, outs, s, Region([blk]))
        stages.append(st)
        k = 0
        for v in ins + outs:
            v.uses.append(Use(st, k))
            k += 1
    pipe = pipeline.PipelineOp(Region([Block([index_op] + stages)]))
    body.add_op(pipe)
    body.add_op(scf.YieldOp())
    loop = scf.ForOp(idx(mk_opresult(0)), idx(mk_opresult(sym.int("ub"))), idx(mk_opresult(1)), [], body)
    top = Block(([alloc] if alloc is not None else []) + [loop])
    Region([top])
    first = [s for s in stages if len(s.operands) > 0][0]
    return dict(stages=stages, first=first, index_op=index_op, buf=buf, alloc=alloc, pipe=pipe)


@contract
class PipelineDuplicateBuffers_contract:
    """a buffer written by one stage and read by another is double-buffered (copy selected by iteration parity) ONLY when
    the reader is the stage directly after the writer; every stage then takes the copy of ITS iteration"""
    target = "snaxc.transforms.pipeline.pipeline_duplicate_buffers.PipelineDuplicateBuffers.match_and_rewrite"
    shapes = DUP_SHAPES
    native = False
    total = True
    permissive = True
    compare_ret = False
    allowed_raises = ("NotImplementedError",)
    may_not_return = True  # the shapes the pattern must decline end in NotImplementedError on every path (checked by `raises`)

    def args(sh, sym):
        return [build_dup(sh, sym), sym.int("i", 0)]

    def run(sh, a):
        v = a[0]
        rw = PatternRewriter(v["first"])
        pdb.PipelineDuplicateBuffers().match_and_rewrite(v["first"], rw)
        return rw.log

    def raises(sh, a, exc):
        check("declining (NotImplementedError) is only allowed for buffers the pattern cannot make safe",
              exc == "NotImplementedError" and (sh["kind"] == "two_readers" or sh["buf"] == "other" or (sh["kind"] == "pair" and sh["cons"] != sh["prod"] + 1)))

    def ensures(sh, a, ret):
        v, i = a
        buf = v["buf"]
        sel = [o for e in ret if e[0] == "replace_op" for o in e[2] if isinstance(o, arith.SelectOp)]
        if sh["kind"] == "from_index":
            check("a buffer that already comes from the index op is simply dropped from the stage arguments",
                  len(sel) == 0 and any(e[0] == "replace_op" and e[1] is v["first"] and len(e[2][0].operands) == 0 for e in ret))
            return
        if sh["kind"] in ("only_in", "only_out"):
            check("a buffer that is only read or only written is passed through the index op unchanged (no copy)",
                  len(sel) == 0 and not any(e[0] == "insert_op" for e in ret))
            new_index = [e[2] for e in ret if e[0] == "replace_op" and e[1] is v["index_op"]][0]
            new_index = new_index[0] if isinstance(new_index, (list, tuple)) else new_index
            check("the using stage now takes it from the index op", all(s.operands[0] is new_index.results[-1] for s in v["stages"] if len(s.operands) > 0))
            return
        # reaching this point without an exception means the buffer was double-buffered
        check("two copies selected by iteration parity are only used when the reader is the stage DIRECTLY after the writer "
              "(with a larger distance the copy is overwritten before it is read)", sh["kind"] == "pair" and sh["cons"] == sh["prod"] + 1 and sh["buf"] == "alloc")
        check("exactly one selection", len(sel) == 1)
        s0 = sel[0]
        dup = [o for e in ret if e[0] == "insert_op" and e[2].kind == "after" and e[2].anchor is v["alloc"] for o in e[1]]
        check("the second copy is a clone of the allocation, placed right behind it", len(dup) == 1 and isinstance(dup[0], memref.AllocOp) and dup[0] is not v["alloc"])
        cond = s0.operands[0].owner
        new_index = [e[2] for e in ret if e[0] == "replace_op" and e[1] is v["index_op"]][0]
        new_index = new_index[0] if isinstance(new_index, (list, tuple)) else new_index
        rem = cond.operands[1].owner if isinstance(cond, arith.CmpiOp) else None
        check("the selection is (index mod 2 == 0) ? first copy : second copy, computed from the index op's own argument",
              isinstance(cond, arith.CmpiOp) and isinstance(rem, arith.RemUIOp) and rem.operands[0] is new_index.body.block.args[0] and den(rem.operands[1]) == 2
              and den(cond.operands[0]) == 0 and cond.predicate == "eq" and s0.operands[1] is v["alloc"].results[0] and len(dup) == 1 and s0.operands[2] is dup[0].results[0])
        ny = [o for e in ret if e[0] == "replace_op" for o in e[2] if isinstance(o, pipeline.YieldOp)]
        check("the index op yields the selected copy as an additional (last) result", len(ny) == 1 and ny[0].operands[-1] is s0.results[0]
              and len(new_index.results) == len(v["index_op"].results) + 1)
        check("writer and reader both take the copy from the index op (each for the iteration it works on)",
              all(s.operands[0] is new_index.results[-1] for s in v["stages"] if len(s.operands) > 0))
        check("consecutive iterations use different copies (arithmetic)", (i % 2 == 0) != ((i + 1) % 2 == 0))

    def canary(sh, a, ret):
        check("canary: nothing is ever double-buffered", not any(isinstance(o, arith.SelectOp) for e in ret if e[0] == "replace_op" for o in e[2]))
