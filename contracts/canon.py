"""Structural (unbounded in the size of the expression) contracts for snaxc/util/canonicalize_affine.py (C19):
every rewriting step returns an expression with the SAME VALUE at every point.

Sub-expressions the step does not look into are abstract leaves `Any(vid)` whose value is an uninterpreted function of
the point; what a step CAN look at is enumerated: a child is a constant (symbolic value), a dimension (symbolic
position), an addition / multiplication of two abstract sub-expressions, or an abstract leaf - with or without a
dimension as seen by `get_dim` (used only to order operands).  xDSL's own `AffineExpr.__add__/__mul__` (which simplify
on construction) run from their real source.  The recursion (canonicalize_expr / canonicalize_binary_op) goes through
the functions' own contracts; termination is not proved."""
from pyvc.api import assume, check, contract, fresh_int, uf
from xdsl.ir.affine import AffineBinaryOpExpr, AffineBinaryOpKind, AffineConstantExpr, AffineDimExpr, AffineExpr

import snaxc.util.canonicalize_affine as ca

X = {}  # the (symbolic) point at which values are compared: X["d"](p) = value of dimension p


class Any(AffineExpr):
    """an arbitrary sub-expression: only its value (at the point) and what get_dim says about it are known"""

    def __init__(self, vid, dim=None):
        self.vid = vid
        self.gdim = dim

    def __eq__(self, other):
        return isinstance(other, Any) and other.vid == self.vid


def ev(e):
    """value of an expression at the symbolic point"""
    if isinstance(e, Any):
        return uf("val", e.vid)
    if isinstance(e, AffineConstantExpr):
        return e.value
    if isinstance(e, AffineDimExpr):
        return uf("dimval", e.position)
    if isinstance(e, AffineBinaryOpExpr):
        a, b = ev(e.lhs), ev(e.rhs)
        if e.kind is AffineBinaryOpKind.Add:
            return a + b
        if e.kind is AffineBinaryOpKind.Mul:
            return a * b
        if e.kind is AffineBinaryOpKind.FloorDiv:
            return uf("fdiv", a, b) if not isinstance(b, int) or b <= 0 or not isinstance(a, int) else a // b
        if e.kind is AffineBinaryOpKind.Mod:
            return uf("fmod", a, b) if not isinstance(b, int) or b <= 0 or not isinstance(a, int) else a % b
        return uf("cdiv", a, b)
    return None


def get_dim_contract(local):
    """get_dim is used as a pure function of the expression: for an abstract leaf it returns what the leaf was given"""
    e = local["expr"]
    if isinstance(e, Any):
        return e.gdim
    if isinstance(e, AffineDimExpr):
        return e.position
    if isinstance(e, AffineBinaryOpExpr):
        r = get_dim_contract(dict(expr=e.lhs))
        if r is not None:
            return r
        return get_dim_contract(dict(expr=e.rhs))
    return None


CHILD = ("const", "dim", "any", "any_dim", "add", "mul")


def mk_child(kind, sym, tag):
    if kind == "const":
        return AffineConstantExpr(sym.int(f"{tag}_c"))
    if kind == "dim":
        p = sym.int(f"{tag}_p", 0)
        return AffineDimExpr(p)
    if kind == "any":
        return Any(sym.int(f"{tag}_id"))
    if kind == "any_dim":
        return Any(sym.int(f"{tag}_id"), sym.int(f"{tag}_gd", 0))
    a, b = Any(sym.int(f"{tag}_ida"), sym.int(f"{tag}_gda", 0) if sym.bool(f"{tag}_hasda") else None), Any(sym.int(f"{tag}_idb"))
    return AffineBinaryOpExpr(AffineBinaryOpKind.Add if kind == "add" else AffineBinaryOpKind.Mul, a, b)


STEP = {"add": ("canonicalize_addition", AffineBinaryOpKind.Add), "mul": ("canonicalize_multiplication", AffineBinaryOpKind.Mul),
        "floordiv": ("canonicalize_floordiv", AffineBinaryOpKind.FloorDiv), "mod": ("canonicalize_mod", AffineBinaryOpKind.Mod)}


class _step_base:
    native = False
    total = True
    permissive = True
    compare_ret = False
    modular = {"snaxc.util.canonicalize_affine.get_dim": get_dim_contract}

    def args(sh, sym):
        l, r = mk_child(sh["lhs"], sym, "l"), mk_child(sh["rhs"], sym, "r")
        return [AffineBinaryOpExpr(STEP[sh["op"]][1], l, r), l, r]

    def ensures(sh, a, ret):
        e, l, r = a
        check("the step returns an expression with the same value at every point", ev(ret) == ev(e))

    def canary(sh, a, ret):
        check("canary: the step always returns a constant", isinstance(ret, AffineConstantExpr))


@contract
class canonicalize_addition_contract(_step_base):
    """a + b: constant folding, constant to the right, + 0 dropped, operands ordered by dimension, re-association"""
    target = "snaxc.util.canonicalize_affine.canonicalize_addition"
    shapes = [dict(op="add", lhs=l, rhs=r) for l in CHILD for r in CHILD]


@contract
class canonicalize_multiplication_contract(_step_base):
    """a * b: constant folding, constant to the right, * 1 dropped, (a + b) * c distributed"""
    target = "snaxc.util.canonicalize_affine.canonicalize_multiplication"
    shapes = [dict(op="mul", lhs=l, rhs=r) for l in CHILD for r in CHILD]


@contract
class canonicalize_floordiv_contract(_step_base):
    """a floordiv 1 == a"""
    target = "snaxc.util.canonicalize_affine.canonicalize_floordiv"
    shapes = [dict(op="floordiv", lhs=l, rhs=r) for l in ("any", "dim", "add") for r in ("const", "any")]

    def ensures(sh, a, ret):
        e, l, r = a
        # floordiv by the constant 1 is the identity; every other case must be returned unchanged
        if isinstance(r, AffineConstantExpr):
            check("a floordiv 1 is replaced by a, anything else is left alone", (ev(ret) == ev(l) and r.value == 1) or ret is e)
        else:
            check("left alone", ret is e)


@contract
class canonicalize_mod_contract(_step_base):
    """a mod 1 == 0"""
    target = "snaxc.util.canonicalize_affine.canonicalize_mod"
    shapes = [dict(op="mod", lhs=l, rhs=r) for l in ("any", "dim", "add") for r in ("const", "any")]

    def ensures(sh, a, ret):
        e, l, r = a
        if isinstance(r, AffineConstantExpr):
            check("a mod 1 is replaced by the constant 0, anything else is left alone",
                  (isinstance(ret, AffineConstantExpr) and ret.value == 0 and r.value == 1) or ret is e)
        else:
            check("left alone", ret is e)


# --------------------------------------------------------------------------------------------------------------------
# the recursion: children first (through canonicalize_expr's own contract), then the step of the node's kind
# --------------------------------------------------------------------------------------------------------------------
def canon_expr_contract(local):
    """canonicalize_expr through its contract: SOME expression with the same value"""
    e = local["expr"]
    out = Any(fresh_int("canon_id"))
    assume(ev(out) == ev(e))
    return out


def step_contract(local):
    e = local["expr"]
    out = Any(fresh_int("step_id"))
    assume(ev(out) == ev(e))
    return out


@contract
class canonicalize_binary_op_contract:
    """children are canonicalised, then the node: the value is unchanged (each callee used through its contract)"""
    target = "snaxc.util.canonicalize_affine.canonicalize_binary_op"
    shapes = [dict(op=o) for o in ("add", "mul", "floordiv", "mod", "ceildiv")]
    native = False
    total = True
    permissive = True
    compare_ret = False
    modular = {"snaxc.util.canonicalize_affine.canonicalize_expr": canon_expr_contract,
               "snaxc.util.canonicalize_affine.canonicalize_addition": step_contract,
               "snaxc.util.canonicalize_affine.canonicalize_multiplication": step_contract,
               "snaxc.util.canonicalize_affine.canonicalize_floordiv": step_contract,
               "snaxc.util.canonicalize_affine.canonicalize_mod": step_contract}

    def args(sh, sym):
        kind = STEP[sh["op"]][1] if sh["op"] in STEP else AffineBinaryOpKind.CeilDiv
        return [AffineBinaryOpExpr(kind, Any(sym.int("l_id")), Any(sym.int("r_id")))]

    def ensures(sh, a, ret):
        check("same value", ev(ret) == ev(a[0]))

    def canary(sh, a, ret):
        check("canary: the node is returned as it is", ret is a[0])


@contract
class canonicalize_expr_contract:
    """the fixpoint iteration returns an expression with the same value (recursion through its own contract)"""
    target = "snaxc.util.canonicalize_affine.canonicalize_expr"
    shapes = [dict(kind=k) for k in ("binary_changed", "binary_same", "leaf")]
    native = False
    total = True
    permissive = True
    compare_ret = False
    modular = {"snaxc.util.canonicalize_affine.canonicalize_expr": canon_expr_contract}

    def args(sh, sym):
        if sh["kind"] == "leaf":
            return [AffineDimExpr(sym.int("p", 0))]
        e = AffineBinaryOpExpr(AffineBinaryOpKind.Add, Any(sym.int("l_id")), Any(sym.int("r_id")))
        X["same"] = sh["kind"] == "binary_same"
        X["e"] = e
        return [e]

    def ensures(sh, a, ret):
        check("same value", ev(ret) == ev(a[0]))

    def canary(sh, a, ret):
        check("canary: a constant is returned", isinstance(ret, AffineConstantExpr))


def binop_contract(local):
    e = local["expr"]
    if X.get("same"):
        return e
    out = Any(fresh_int("bin_id"))
    assume(ev(out) == ev(e))
    return out


canonicalize_expr_contract.modular["snaxc.util.canonicalize_affine.canonicalize_binary_op"] = binop_contract
