"""Contracts for snaxc/ir/tsl/*.py (C10, shared by C05/C09/C11/C12)."""
from pyvc.api import check, contract

from contracts.specs import coalesces, levels
from snaxc.ir.tsl.stride import Stride
from snaxc.ir.tsl.tiled_stride import TiledStride
from snaxc.ir.tsl.tiled_strided_layout import TiledStridedLayout

DYN = ("static", "dynbound", "dynboth")


def mk_tstride(sym, pfx, depth, dyn):
    """a TiledStride with symbolic steps/bounds; the outermost level per `dyn`"""
    strides = []
    for k in range(depth):
        step = sym.int(f"{pfx}s{k}")
        bound = sym.int(f"{pfx}b{k}")
        if k == 0 and dyn == "dynbound":
            bound = None
        if k == 0 and dyn == "dynboth":
            bound = None
            step = None
        strides.append(Stride(step, bound))
    return TiledStride(strides)


def valid_tstride(ts):
    return all((s.step is None or s.step >= 1) and (s.bound is None or s.bound >= 1) for s in ts.strides)


@contract
class TiledStride_canonicalize:
    target = "snaxc.ir.tsl.tiled_stride.TiledStride.canonicalize"
    shapes = [dict(depth=d, dyn=v) for d in range(1, 5) for v in DYN]
    quick = lambda sh: sh["depth"] <= 3
    total = True

    def args(sh, sym):
        return [mk_tstride(sym, "", sh["depth"], sh["dyn"])]

    def requires(sh, a):
        return valid_tstride(a[0])

    def ensures(sh, a, ret):
        check("same index->address function (coalesces)", coalesces(levels(a[0]), levels(ret)))
        check("result type", isinstance(ret, TiledStride))

    def canary(sh, a, ret):
        check("canary: depth never shrinks", len(ret.strides) == len(a[0].strides))
