"""Contracts for snaxc/ir/tsl/*.py (C10, shared by C05/C09/C11/C12)."""
from pyvc.api import check, contract

from contracts.specs import coalesces, levels
from snaxc.ir.tsl.stride import Stride
from snaxc.ir.tsl.tiled_stride import TiledStride
from snaxc.ir.tsl.tiled_strided_layout import TiledStridedLayout

DYN = ("static", "dynbound", "dynboth")


def mk_tstride(sym, pfx, depth, dyn):
    """a TiledStride with symbolic steps/bounds; the outermost level per `dyn`"""
    strides = []
    for k in range(depth):
        step = sym.int(f"{pfx}s{k}")
        bound = sym.int(f"{pfx}b{k}")
        if k == 0 and dyn == "dynbound":
            bound = None
        if k == 0 and dyn == "dynboth":
            bound = None
            step = None
        strides.append(Stride(step, bound))
    return TiledStride(strides)


def valid_tstride(ts):
    return all((s.step is None or s.step >= 1) and (s.bound is None or s.bound >= 1) for s in ts.strides)


@contract
class TiledStride_canonicalize:
    target = "snaxc.ir.tsl.tiled_stride.TiledStride.canonicalize"
    shapes = [dict(depth=d, dyn=v) for d in range(1, 5) for v in DYN]
    quick = lambda sh: sh["depth"] <= 3
    total = True

    def args(sh, sym):
        return [mk_tstride(sym, "", sh["depth"], sh["dyn"])]

    def requires(sh, a):
        return valid_tstride(a[0])

    def ensures(sh, a, ret):
        check("same index->address function (coalesces)", coalesces(levels(a[0]), levels(ret)))
        check("result type", isinstance(ret, TiledStride))

    def canary(sh, a, ret):
        check("canary: depth never shrinks", len(ret.strides) == len(a[0].strides))


# =====================================================================================
# more of snaxc/ir/tsl
# =====================================================================================
def mk_tsl(sym, rank, depth, dyn="static", bounds=None, offset="sym", pfx=""):
    """TSL with symbolic steps; bounds symbolic (bounds=None) or the given concrete tuple per level"""
    ts = []
    for d in range(rank):
        strides = []
        for k in range(depth):
            step = sym.int(f"{pfx}s{d}_{k}", 1)
            bound = sym.int(f"{pfx}b{d}_{k}", 1) if bounds is None else bounds[d][k]
            if k == 0 and dyn in ("dynbound", "dynboth"):
                bound = None
            if k == 0 and dyn == "dynboth":
                step = None
            strides.append(Stride(step, bound))
        ts.append(TiledStride(strides))
    off = sym.int(f"{pfx}off", 0) if offset == "sym" else offset
    return TiledStridedLayout(ts, offset=off)


def digits(sym, tsl, pfx="t"):
    """a symbolic digit vector t[d][k] in [0, bound_{d,k}) (witness variables of the address function)"""
    return [[sym.int(f"{pfx}{d}_{k}", 0) for k in range(len(ts.strides))] for d, ts in enumerate(tsl.tstrides)]


def digits_in_range(tsl, t):
    return all(0 <= t[d][k] and t[d][k] < s.bound for d, ts in enumerate(tsl.tstrides) for k, s in enumerate(ts.strides))


def addr(tsl, t):
    """addr_T(t) = offset + sum t[d][k] * step[d][k]"""
    return tsl.offset + sum(t[d][k] * s.step for d, ts in enumerate(tsl.tstrides) for k, s in enumerate(ts.strides))


def logical_index(tsl, t):
    """idx_d = sum_k t[d][k] * prod_{j>k} bound[d][j]   (written as a sum of products)"""
    idx = []
    for d, ts in enumerate(tsl.tstrides):
        acc = 0
        for k in range(len(ts.strides)):
            term = t[d][k]
            for j in range(k + 1, len(ts.strides)):
                term = term * ts.strides[j].bound
            acc = acc + term
        idx.append(acc)
    return idx


@contract
class TiledStride_from_stride:
    target = "snaxc.ir.tsl.tiled_stride.TiledStride.from_stride"
    shapes = [dict(depth=d, none=n) for d in range(1, 5) for n in ("no", "outer", "stride")]
    quick = lambda sh: sh["depth"] <= 3
    total = True

    def args(sh, sym):
        tb = [sym.int(f"b{k}", 1) for k in range(sh["depth"])]
        if sh["none"] == "outer":
            tb[0] = None
        s = None if sh["none"] == "stride" else sym.int("s")
        return [s, tb]

    def requires(sh, a):
        return a[0] is None or a[0] >= 1

    def ensures(sh, a, ret):
        s, tb = a
        n = sh["depth"]
        check("one level per tile bound, bounds kept", [x.bound for x in ret.strides] == tb)
        check("innermost step is the simple stride", ret.strides[n - 1].step == s or (s is None and ret.strides[n - 1].step is None))
        for k in range(n - 1):
            inner = ret.strides[k + 1]
            if inner.step is None or tb[k + 1] is None:
                check(f"level {k}: dynamic when a factor is dynamic", ret.strides[k].step is None)
            else:
                check(f"level {k}: step = inner step * inner bound", ret.strides[k].step == inner.step * tb[k + 1])

    def canary(sh, a, ret):
        check("canary: all steps equal", all(x.step == ret.strides[0].step for x in ret.strides) and sh["depth"] == 1)


@contract
class TSL_from_strides:
    target = "snaxc.ir.tsl.tiled_strided_layout.TiledStridedLayout.from_strides"
    shapes = [dict(rank=r, depth=d) for r in (1, 2, 3) for d in (1, 2, 3)]
    quick = lambda sh: sh["rank"] <= 2
    total = True

    def args(sh, sym):
        strides = [sym.int(f"S{d}", 1) for d in range(sh["rank"])]
        tb = [[sym.int(f"b{d}_{k}", 1) for k in range(sh["depth"])] for d in range(sh["rank"])]
        # witness digits: any digit vector addresses offset + sum_d stride_d * idx_d  (what MLIR strides mean)
        t = [[sym.int(f"t{d}_{k}", 0) for k in range(sh["depth"])] for d in range(sh["rank"])]
        return [strides, tb, sym.int("off", 0), t]

    def run(sh, a):
        return TiledStridedLayout.from_strides(a[0], a[1], a[2])

    def ensures(sh, a, ret):
        strides, tb, off, t = a
        idx = logical_index(ret, t)
        check("tile bounds kept", ret.tile_bounds() == tb)
        check("offset kept", ret.offset == off)
        check("addr(t) == offset + sum stride_d * idx_d(t)", addr(ret, t) == off + sum(strides[d] * idx[d] for d in range(sh["rank"])))

    def canary(sh, a, ret):
        check("canary: offset dropped", ret.offset == 0)


@contract
class TSL_canonicalize:
    target = "snaxc.ir.tsl.tiled_strided_layout.TiledStridedLayout.canonicalize"
    shapes = [dict(rank=r, depth=d, dyn=v) for r in (1, 2) for d in (1, 2, 3) for v in DYN if not (r == 2 and d == 3 and v != "static")]
    quick = lambda sh: sh["rank"] * sh["depth"] <= 4
    total = True

    def args(sh, sym):
        return [mk_tsl(sym, sh["rank"], sh["depth"], sh["dyn"])]

    def ensures(sh, a, ret):
        check("rank kept", len(ret.tstrides) == sh["rank"])
        for d in range(sh["rank"]):
            check(f"dim {d}: same index->address function (coalesces)", coalesces(levels(a[0].tstrides[d]), levels(ret.tstrides[d])))
        check("offset kept", ret.offset == a[0].offset)
        check("result type", isinstance(ret, TiledStridedLayout))

    def canary(sh, a, ret):
        check("canary: canonicalize is the identity", ret.tile_bounds() == a[0].tile_bounds())


@contract
class TSL_structure_queries:
    """tile_bounds / equal_tile_bounds / dimension / get_stride / __iter__ order / is_dynamic: definitional"""
    target = "snaxc.ir.tsl.tiled_strided_layout.TiledStridedLayout.tile_bounds"
    shapes = [dict(rank=r, depth=d, dyn=v) for r in (1, 2, 3) for d in (1, 2) for v in DYN]
    quick = lambda sh: sh["rank"] <= 2
    total = True

    def args(sh, sym):
        return [mk_tsl(sym, sh["rank"], sh["depth"], sh["dyn"]), mk_tsl(sym, sh["rank"], sh["depth"], sh["dyn"], pfx="o")]

    def run(sh, a):
        x, o = a
        return dict(tb=x.tile_bounds(), etb=x.equal_tile_bounds(o), dim=x.dimension(), it=list(x), dyn=x.is_dynamic(),
                    gs=[[x.get_stride(d, k) for k in range(sh["depth"])] for d in range(sh["rank"])],
                    depth=[ts.depth() for ts in x.tstrides], none=x.tstrides[0].get_stride(sh["depth"]))

    def ensures(sh, a, ret):
        x, o = a
        R, D = sh["rank"], sh["depth"]
        check("tile_bounds", ret["tb"] == [[x.tstrides[d].strides[k].bound for k in range(D)] for d in range(R)])
        check("equal_tile_bounds <=> all bounds equal",
              ret["etb"] == all(x.tstrides[d].strides[k].bound == o.tstrides[d].strides[k].bound for d in range(R) for k in range(D)))
        check("dimension", ret["dim"] == R)
        check("iteration order is (dim, depth) lexicographic",
              [(d, k) for d, k, _ in ret["it"]] == [(d, k) for d in range(R) for k in range(D)]
              and all(s is x.tstrides[d].strides[k] for d, k, s in ret["it"]))
        check("get_stride", all(ret["gs"][d][k] is x.tstrides[d].strides[k] for d in range(R) for k in range(D)))
        check("is_dynamic", ret["dyn"] == (sh["dyn"] != "static"))
        check("depth", ret["depth"] == [D] * R)
        check("TiledStride.get_stride out of range is None", ret["none"] is None)

    def canary(sh, a, ret):
        check("canary: layouts always have equal tile bounds", ret["etb"])


BOUND_SETS = [(1, 1), (2, 1), (1, 3), (2, 2), (3, 2), (2, 4)]


@contract
class TSL_all_values:
    """all_values enumerates addr_T(t) - offset in row-major digit order (bounds concrete, steps symbolic)"""
    target = "snaxc.ir.tsl.tiled_strided_layout.TiledStridedLayout.all_values"
    shapes = ([dict(rank=1, depth=1, bounds=[[b]]) for b in (1, 2, 5)]
              + [dict(rank=1, depth=2, bounds=[list(bs)]) for bs in BOUND_SETS]
              + [dict(rank=2, depth=1, bounds=[[a], [b]]) for a, b in BOUND_SETS]
              + [dict(rank=2, depth=2, bounds=[list(x), list(y)]) for x in BOUND_SETS[1:4] for y in BOUND_SETS[2:5]]
              + [dict(rank=1, depth=3, bounds=[[2, 1, 3]]), dict(rank=1, depth=3, bounds=[[2, 3, 2]]), dict(rank=3, depth=1, bounds=[[2], [1], [3]])])
    quick = lambda sh: sh["rank"] * sh["depth"] <= 2 or sh["bounds"] in ([[2, 2], [1, 3]], [[2, 3, 2]])
    total = True

    def args(sh, sym):
        return [mk_tsl(sym, sh["rank"], sh["depth"], bounds=sh["bounds"])]

    def ensures(sh, a, ret):
        tsl = a[0]
        vals = ret.tolist()
        lv = [(d, k, s) for d, k, s in tsl]
        total_n = 1
        for _, _, s in lv:
            total_n = total_n * s.bound
        check("one value per digit vector", len(vals) == total_n)
        # row-major position of digit vector t, outermost = first (dim, depth)
        pos = 0
        ok = True
        for pos in range(total_n):
            rem = pos
            acc = 0
            for d, k, s in reversed(lv):
                acc = acc + (rem % s.bound) * s.step
                rem = rem // s.bound
            ok = ok and vals[pos] == acc
        check("value at row-major position of t is addr_T(t) - offset", ok)

    def canary(sh, a, ret):
        check("canary: all_values is sorted ascending", all(ret.tolist()[i] <= ret.tolist()[i + 1] for i in range(len(ret.tolist()) - 1)) and len(ret.tolist()) > 3)


@contract
class Stride_all_values:
    target = "snaxc.ir.tsl.stride.Stride.all_values"
    shapes = [dict(bound=b) for b in (1, 2, 3, 7)]
    total = True

    def args(sh, sym):
        return [Stride(sym.int("s", 1), sh["bound"])]

    def ensures(sh, a, ret):
        check("all_values == [i*step for i < bound]", ret == [i * a[0].step for i in range(sh["bound"])])

    def canary(sh, a, ret):
        check("canary: values are all zero", all(v == 0 for v in ret) and sh["bound"] == 1)


@contract
class TSL_largest_common_contiguous_block:
    target = "snaxc.ir.tsl.tiled_strided_layout.TiledStridedLayout.largest_common_contiguous_block"
    shapes = [dict(rank=r, depth=d, dyn=v) for r, d in ((1, 1), (1, 2), (2, 1), (2, 2)) for v in ("static", "dynbound") if not (r == 2 and d == 2 and v != "static")]
    quick = lambda sh: sh["rank"] * sh["depth"] <= 2
    total = True

    def args(sh, sym):
        return [mk_tsl(sym, sh["rank"], sh["depth"], sh["dyn"], pfx="x"), mk_tsl(sym, sh["rank"], sh["depth"], sh["dyn"], pfx="y"), sym.int("s0", 1)]

    def ensures(sh, a, ret):
        x, y, s0 = a
        check("non-empty", len(ret) >= 1)
        check("starts at the starting stride", ret[0].step == s0)
        for i in range(len(ret) - 1):
            check(f"block level {i}: static and contiguous chain", ret[i].bound is not None and ret[i].step is not None
                  and ret[i + 1].step == ret[i].step * ret[i].bound)
        if not (len(ret) == 1 and ret[0].bound == 1 and not any(ret[0] is s for _, _, s in x)):
            # every returned Stride is a stride object of self, equal (step, bound) to other's stride at the same position
            for r in ret:
                pos = [(d, k) for d, k, s in x if s is r]
                check("returned stride is a level of self", len(pos) == 1)
                d, k = pos[0]
                o = y.tstrides[d].strides[k]
                check("same step and bound at that (dim, depth) in other", (o.step == r.step or (o.step is None and r.step is None))
                      and (o.bound == r.bound or (o.bound is None and r.bound is None)))
            check("distinct levels", all(ret[i] is not ret[j] for i in range(len(ret)) for j in range(i)))
        else:
            check("default block is a single element", ret[0].step == s0 and ret[0].bound == 1)

    def canary(sh, a, ret):
        check("canary: block is always a single element", len(ret) == 1 and ret[0].bound == 1)


# =====================================================================================
# snaxc/dialects/tsl.py: the attribute's views of the layout
# =====================================================================================
from pyvc.api import den, implies, ite, mk_memref_value  # noqa: E402
from xdsl.dialects.builtin import DYNAMIC_INDEX, IndexType, IntegerType, MemRefType, StridedLayoutAttr  # noqa: E402

from snaxc.dialects.tsl import TiledStridedLayoutAttr  # noqa: E402

D3_BOUNDS = [(2, 3, 2), (1, 2, 3), (3, 1, 2), (2, 2, 1), (4, 2, 2), (2, 5, 3), (8, 2, 4), (3, 4, 5)]


@contract
class TSLAttr_get_affine_map:
    """the affine map used for stream address generation equals addr_T, INCLUDING the offset (witness form:
    digits are the quantified variables, the logical index is computed from them)"""
    target = "snaxc.dialects.tsl.TiledStridedLayoutAttr.get_affine_map"
    shapes = ([dict(rank=r, depth=d, bounds=None, offset=o) for r in (1, 2, 3) for d in (1, 2) for o in ("zero", "sym") if r * d <= 4]
              + [dict(rank=1, depth=3, bounds=[list(b)], offset="zero") for b in D3_BOUNDS]
              + [dict(rank=2, depth=3, bounds=[list(D3_BOUNDS[i]), list(D3_BOUNDS[i + 1])], offset="zero") for i in (0, 2, 4)])
    quick = lambda sh: (sh["bounds"] is None and sh["rank"] <= 2) or (sh["rank"] == 1 and sh["bounds"] in ([[2, 3, 2]], [[4, 2, 2]], [[2, 5, 3]]))
    total = True

    def args(sh, sym):
        tsl = mk_tsl(sym, sh["rank"], sh["depth"], bounds=sh["bounds"], offset=0 if sh["offset"] == "zero" else "sym")
        return [TiledStridedLayoutAttr(tsl), digits(sym, tsl)]

    def requires(sh, a):
        return digits_in_range(a[0].data, a[1])

    def run(sh, a):
        return a[0].get_affine_map()

    def ensures(sh, a, ret):
        tsl, t = a[0].data, a[1]
        idx = logical_index(tsl, t)
        check("one result, rank dims", len(ret.results) == 1 and ret.num_dims == sh["rank"] and ret.num_symbols == 0)
        check("eval(map, idx(t)) == addr_T(t) (offset included)", ret.eval(idx, [])[0] == addr(tsl, t))

    def canary(sh, a, ret):
        check("canary: map is zero", ret.eval(logical_index(a[0].data, a[1]), [])[0] == 0)


def mk_memref_for(sym, tsl, el_bits, strided=False):
    """a memref value whose type carries `tsl` (or a strided layout) with run-time shape N_d; dims with a dynamic
    outer bound are dynamic in the type"""
    rank = len(tsl.tstrides)
    shape, rt_shape = [], []
    for d in range(rank):
        inner = 1
        for s in tsl.tstrides[d].strides[1:]:
            inner = inner * s.bound
        outer = tsl.tstrides[d].strides[0].bound
        if outer is None:
            n = sym.int(f"N{d}", 1)
            shape.append(DYNAMIC_INDEX)
            rt_shape.append(n)
        else:
            shape.append(outer * inner)
            rt_shape.append(outer * inner)
    layout = TiledStridedLayoutAttr(tsl)
    rt_strides = None
    if strided:
        rt_strides = [sym.int(f"RS{d}", 1) for d in range(rank)]
        layout = StridedLayoutAttr([None if tsl.tstrides[d].strides[-1].step is None else 1 for d in range(rank)], 0)
    ty = MemRefType(IntegerType(el_bits), shape, layout)
    return mk_memref_value(ty, rt_shape, rt_strides, 0, sym.int("ptr", 0))


def inner_product(tsl, d):
    r = 1
    for s in tsl.tstrides[d].strides[1:]:
        r = r * s.bound
    return r


@contract
class TSLAttr_get_bound_ops:
    target = "snaxc.dialects.tsl.TiledStridedLayoutAttr.get_bound_ops"
    shapes = [dict(rank=r, depth=d, dyn=v, via=via) for r in (1, 2, 3) for d in (1, 2, 3) for v in DYN for via in ("memref", "shapes") if r * d <= 6]
    quick = lambda sh: sh["rank"] * sh["depth"] <= 4
    total = True
    compare_ret = False  # returns IR objects: the differential compares the evaluated clauses only

    def args(sh, sym):
        tsl = mk_tsl(sym, sh["rank"], sh["depth"], sh["dyn"])
        m = mk_memref_for(sym, tsl, 32)
        return [TiledStridedLayoutAttr(tsl), m]

    def run(sh, a):
        attr, m = a
        if sh["via"] == "memref":
            return attr.get_bound_ops(m)
        from xdsl.dialects.arith import ConstantOp
        from xdsl.dialects.memref import DimOp
        shapes = []
        for d in range(sh["rank"]):
            shapes.append(DimOp.from_source_and_index(m, ConstantOp.from_int_and_width(d, IndexType())))
        return attr.get_bound_ops(shapes)

    def ensures(sh, a, ret):
        attr, m = a
        tsl = attr.data
        ops, mapping = ret
        check("one bound op per (dim, depth)", sorted(mapping.keys()) == [(d, k) for d in range(sh["rank"]) for k in range(sh["depth"])])
        check("every mapped op is in the returned op list", all(any(o is mapping[key] for o in ops) for key in mapping))
        for d in range(sh["rank"]):
            for k in range(sh["depth"]):
                s = tsl.tstrides[d].strides[k]
                if s.bound is not None:
                    check(f"den(bound_op[{d},{k}]) == static bound", den(mapping[(d, k)]) == s.bound)
                else:
                    n = den_shape(m, d)
                    check(f"den(bound_op[{d},{k}]) == shape div inner tile product", den(mapping[(d, k)]) == n // inner_product(tsl, d))

    def canary(sh, a, ret):
        check("canary: all bound ops denote 1", all(den(o) == 1 for o in ret[1].values()))


def den_shape(m, d):
    from pyvc.api import rt_shape
    return rt_shape(m, d)


@contract
class TSLAttr_get_step_ops:
    target = "snaxc.dialects.tsl.TiledStridedLayoutAttr.get_step_ops"
    shapes = ([dict(rank=r, depth=d, dyn=v, bits=b, in_bytes=ib, strided=False) for r in (1, 2, 3) for d in (1, 2) for v in DYN
               for b, ib in ((32, True), (8, False), (64, True)) if r * d <= 4]
              + [dict(rank=r, depth=1, dyn="dynboth", bits=16, in_bytes=True, strided=True) for r in (1, 2)]
              # element types that do not fill whole bytes (i1 masks, i4 / i12 quantised data): one resp. two bytes each
              + [dict(rank=r, depth=d, dyn=v, bits=b, in_bytes=True, strided=False) for r, d in ((1, 1), (1, 2), (2, 1)) for v in DYN for b in (1, 4, 12)]
              + [dict(rank=1, depth=1, dyn="dynboth", bits=b, in_bytes=True, strided=True) for b in (4, 12)])
    quick = lambda sh: sh["rank"] <= 2 and sh["bits"] != 64 and sh["bits"] != 4
    total = True
    compare_ret = False

    def args(sh, sym):
        tsl = mk_tsl(sym, sh["rank"], sh["depth"], sh["dyn"])
        m = mk_memref_for(sym, tsl, sh["bits"], sh["strided"])
        return [TiledStridedLayoutAttr(tsl), m]

    def run(sh, a):
        attr, m = a
        _, bound_ops = attr.get_bound_ops(m)
        return (bound_ops, attr.get_step_ops(bound_ops, m, sh["in_bytes"]))

    def ensures(sh, a, ret):
        attr, m = a
        tsl = attr.data
        bound_ops, (ops, mapping) = ret
        R, D = sh["rank"], sh["depth"]
        el = ((sh["bits"] + 7) // 8) if sh["in_bytes"] else 1  # bytes an element occupies in memory: ceil(bits / 8)
        check("one step op per (dim, depth)", sorted(mapping.keys()) == [(d, k) for d in range(R) for k in range(D)])
        check("every mapped op is in the returned op list (def before use)", all(any(o is mapping[key] for o in ops) for key in mapping))
        # static steps: exactly step * element bytes
        for d in range(R):
            for k in range(D):
                s = tsl.tstrides[d].strides[k]
                if s.step is not None:
                    check(f"den(step_op[{d},{k}]) == step * el_bytes", den(mapping[(d, k)]) == s.step * el)
        if sh["dyn"] == "dynboth" and not sh["strided"]:
            # dynamic steps follow the documented contiguity rule: start from (largest static step * its bound),
            # then right-to-left each dynamic level is the previous one times its bound
            best = None
            bestv = 0
            for d, k, s in tsl:
                if s.step is not None:
                    pass
            statics = [(d, k, s.step) for d, k, s in tsl if s.step is not None]
            if len(statics) == 0:
                start = den(bound_ops[(R - 1, D - 1)]) * 0
            else:
                # the code takes the first maximum in iteration order
                cand = statics[0]
                for x in statics[1:]:
                    cand = ite(x[2] > cand[2], x, cand)
                start = None
            prev = None
            for d in reversed(range(R)):
                cur = den(mapping[(d, 0)])
                if prev is not None:
                    check(f"dynamic step of dim {d} = dynamic step of dim {d + 1} * its (dynamic) bound", cur == prev[0] * prev[1])
                else:
                    if len(statics) == 0:
                        check("all-dynamic layout: innermost dynamic step is 0 * bound (degenerate)", cur == 0)
                    else:
                        check("first dynamic step = some static step * its bound * el_bytes, and it is the maximal static step",
                              any(cur == x[2] * el * den(bound_ops[(x[0], x[1])]) and all(x[2] >= y[2] for y in statics) for x in statics))
                prev = (cur, den(bound_ops[(d, 0)]))
        if sh["strided"]:
            for d in range(R):
                check(f"strided memref: dynamic step {d} is the run-time stride in bytes", den(mapping[(d, 0)]) == rt_stride_of(m, d) * ((sh["bits"] + 7) // 8))

    def canary(sh, a, ret):
        check("canary: steps ignore the element size", all(den(o) == 1 for o in ret[1][1].values()))


def rt_stride_of(m, d):
    from pyvc.api import rt_stride
    return rt_stride(m, d)


@contract
class TSLAttr_get_step_ops_strided_mixed_depths:
    """a memref with a STRIDED layout (run-time strides) seen through a tsl whose dimensions are tiled to DIFFERENT depths
    (what TransformDMA builds from the partner's tile bounds): the run-time stride of dimension d belongs to the
    INNERMOST level of that dimension, the outer levels follow by multiplication with the inner bounds"""
    target = "snaxc.dialects.tsl.TiledStridedLayoutAttr.get_step_ops"
    shapes = [dict(depths=d, bits=b) for d in ((2, 1), (1, 2), (2, 2), (3, 1)) for b in (8, 32)] + [dict(depths=(2, 1), bits=12)]
    total = True
    compare_ret = False

    def args(sh, sym):
        ts = []
        for d, dep in enumerate(sh["depths"]):
            strides = []
            for k in range(dep):
                strides.append(Stride(None, None if k == 0 else sym.int(f"b{d}_{k}", 1)))
            ts.append(TiledStride(strides))
        tsl = TiledStridedLayout(ts, offset=0)
        return [TiledStridedLayoutAttr(tsl), mk_memref_for(sym, tsl, sh["bits"], True)]

    def run(sh, a):
        attr, m = a
        _, bound_ops = attr.get_bound_ops(m)
        return (bound_ops, attr.get_step_ops(bound_ops, m, True))

    def ensures(sh, a, ret):
        attr, m = a
        bound_ops, (ops, mapping) = ret
        el = ((sh["bits"] + 7) // 8)
        want = [(d, k) for d, dep in enumerate(sh["depths"]) for k in range(dep)]
        check("one step op per (dim, depth)", sorted(mapping.keys()) == want)
        for d, dep in enumerate(sh["depths"]):
            if (d, dep - 1) in mapping:
                check(f"dim {d}: the innermost level steps by the run-time stride of that dimension (in bytes)", den(mapping[(d, dep - 1)]) == rt_stride_of(m, d) * el)
            for k in reversed(range(dep - 1)):
                if (d, k) in mapping and (d, k + 1) in mapping:
                    check(f"dim {d}: level {k} steps by level {k + 1}'s step times its bound", den(mapping[(d, k)]) == den(mapping[(d, k + 1)]) * den(bound_ops[(d, k + 1)]))

    def canary(sh, a, ret):
        check("canary: every step is 1", all(den(o) == 1 for o in ret[1][1].values()))


# =====================================================================================
# convert-memref-to-arith: the pointer of a subview of a tsl memref
# =====================================================================================
from pyvc.api import mk_ssa  # noqa: E402
from xdsl.dialects import memref as _memref  # noqa: E402
from xdsl.pattern_rewriter import PatternRewriter  # noqa: E402

import snaxc.transforms.convert_memref_to_arith as m2a  # noqa: E402

SUBVIEW_SHAPES = [dict(depths=d, mask=m, bits=b) for d in ((1, 1), (2, 2), (2, 1), (1, 3)) for m in ((True, True), (True, False), (False, True)) for b in (8, 32)]


@contract
class LowerExtractAlignedPointerOp_contract:
    """pointer(subview %m[o0, o1]) == pointer(%m) + element bytes * (address the layout assigns to logical index (o0, o1)),
    for offsets that start a tile (multiples of the inner tile size) - whichever of the offsets are dynamic operands and
    whichever are written as literals"""
    target = "snaxc.transforms.convert_memref_to_arith.LowerExtractAlignedPointerOp.match_and_rewrite"
    shapes = SUBVIEW_SHAPES
    native = False
    total = True
    permissive = True
    compare_ret = False

    def args(sh, sym):
        bounds = [[sym.int(f"b{d}_{k}", 1, 6) if k > 0 else 4 for k in range(dep)] for d, dep in enumerate(sh["depths"])]
        ts = []
        for d, dep in enumerate(sh["depths"]):
            ts.append(TiledStride([Stride(sym.int(f"s{d}_{k}", 1), bounds[d][k]) for k in range(dep)]))
        tsl = TiledStridedLayout(ts, offset=0)
        m = mk_memref_for(sym, tsl, sh["bits"], False)
        # the number of whole tiles the subview is offset by, per dimension (dynamic operands), or the literal 0
        tiles = [sym.int(f"q{d}", 0) for d in range(2)]
        return [tsl, m, tiles, bounds]

    def run(sh, a):
        tsl, m, tiles, bounds = a
        inner = []
        for d in range(2):
            p = 1
            for b in bounds[d][1:]:
                p = p * b
            inner.append(p)
        dyn_vals = []
        static = []
        for d in range(2):
            if sh["mask"][d]:
                dyn_vals.append(mk_ssa(tiles[d] * inner[d], IndexType()))
                static.append(DYNAMIC_INDEX)
            else:
                static.append(0)
        sv = _memref.SubviewOp(m, m.type, dyn_vals, [], [], static, [1, 1], [1, 1])
        op = _memref.ExtractAlignedPointerAsIndexOp(sv.results[0])
        rw = PatternRewriter(op)
        m2a.LowerExtractAlignedPointerOp().match_and_rewrite(op, rw)
        reps = [e for e in rw.log if e[0] == "replace_op" and e[1] is op]
        if len(reps) != 1:
            return dict(replaced=False)
        return dict(replaced=True, ptr=den(reps[0][2][-1]), inner=inner)

    def ensures(sh, a, ret):
        tsl, m, tiles, bounds = a
        check("the pointer extraction of a subview of a tsl memref is lowered", ret["replaced"])
        el = ((sh["bits"] + 7) // 8)
        base = den(_memref.ExtractAlignedPointerAsIndexOp(m))
        want = base
        for d in range(2):
            if sh["mask"][d]:
                # logical offset q * inner tile size  ->  outermost digit q (tile aligned): address contribution q * outer step
                want = want + el * tiles[d] * tsl.tstrides[d].strides[0].step
        check("subview pointer == base pointer + element bytes * layout address of the offsets", ret["ptr"] == want)

    def canary(sh, a, ret):
        check("canary: the subview pointer is the base pointer", ret["ptr"] == den(_memref.ExtractAlignedPointerAsIndexOp(a[1])) and (sh["mask"][0] or sh["mask"][1]))
