"""Contracts for CSR lowering (C04): register maps, lower_acc_setup / launch / await, RoCC pairing."""
from pyvc.api import SYMBOLIC, check, contract, den, implies, mk_ident_value
from xdsl.dialects import arith, llvm, scf
from xdsl.dialects.builtin import IndexType, IntegerAttr, i32

from contracts.accel import OPTS, mk_streamers
from snaxc.accelerators.snax import SNAXAccelerator, SNAXPollingBarrier, SNAXPollingBarrier2, SNAXPollingBarrier3, SNAXPollingBarrier4
from snaxc.accelerators.snax_alu import SNAXAluAccelerator
from snaxc.accelerators.snax_gemmx import SNAXGEMMXAccelerator
from snaxc.accelerators.snax_hwpe_mult import SNAXHWPEMultAccelerator
from snaxc.accelerators.snax_xdma import SNAXXDMAAccelerator
from snaxc.accelerators.streamers.streamers import Streamer, StreamerConfiguration, StreamerType
from snaxc.dialects import accfg


def addr_of(attr):
    return attr.value.data


def csr_events(ops):
    """the CSR access trace of a list of lowered ops: [("w", address, value SSA) | ("r", address)] in program order"""
    ev = []
    for o in ops:
        if isinstance(o, llvm.InlineAsmOp):
            s = o.asm_string if SYMBOLIC else o.asm_string.data
            if s.startswith("csrw"):
                ev.append(("w", den(o.operands[0]), o.operands[1]))
            elif s.startswith("csrr"):
                ev.append(("r", den(o.operands[0])))
        elif isinstance(o, scf.WhileOp):
            ev.append(("poll", csr_events(list(o.before_region.block.ops))))
    return ev


def mk_acc(kind):
    if kind == "alu":
        return SNAXAluAccelerator()
    if kind.startswith("alu_"):
        opts = kind[4:]
        cfg = StreamerConfiguration([Streamer(StreamerType.Reader, ["n", "n"], [4], [OPTS[o]() for o in opts]), Streamer(StreamerType.Reader, ["n"], [4, 2]),
                                     Streamer(StreamerType.Writer, ["r", "n", "n"], [4], [OPTS[o]() for o in opts if o != "t"])])
        return SNAXAluAccelerator(cfg)
    if kind.startswith("gemmx"):
        return SNAXGEMMXAccelerator(n=int(kind[5:]))
    if kind == "xdma":
        return SNAXXDMAAccelerator()
    return SNAXHWPEMultAccelerator()


@contract
class register_map_injective:
    """every declared setup / launch field has exactly one register; no two fields, the barrier or the reserved
    status registers after the streamer launch field share an address"""
    target = "snaxc.accelerators.snax_alu.SNAXAluAccelerator.generate_acc_op"
    # gemmx: also column counts that are not a multiple of 4 (the last shift register is only partly used)
    shapes = [dict(acc=a) for a in ("alu", "alu_a", "alu_cb", "alu_acbt", "gemmx4", "gemmx8", "gemmx16", "gemmx2", "gemmx3", "gemmx6", "gemmx10", "xdma", "hwpe")]
    total = True
    compare_ret = False

    def args(sh, sym):
        return [mk_acc(sh["acc"])]

    def run(sh, a):
        return a[0].generate_acc_op()

    def ensures(sh, a, ret):
        acc = a[0]
        setup = {k: addr_of(v) for k, v in ret.field_items()}
        launch = {k: addr_of(v) for k, v in ret.launch_field_items()}
        check("every declared setup field has a register, and only those (no key lost to a duplicate name)",
              sorted(setup.keys()) == sorted(acc.fields) and len(set(acc.fields)) == len(list(acc.fields)))
        check("every declared launch field has a register, and only those", sorted(launch.keys()) == sorted(acc.launch_fields))
        addrs = list(setup.values()) + list(launch.values()) + [addr_of(ret.barrier)]
        reserved = []
        for name in ("launch_streamer", "launch_start"):
            if name in launch and sh["acc"] != "hwpe":
                reserved = [launch[name] + 1, launch[name] + 2]  # busy register + performance counter
        check("setup registers, launch registers and the barrier are pairwise distinct", len(set(addrs)) == len(addrs))
        check("the reserved status registers after the streamer launch field hold no setup or accelerator launch field",
              all(r not in list(setup.values()) and all(r != v for k, v in launch.items()) for r in reserved))

    def canary(sh, a, ret):
        check("canary: the barrier register is 0", addr_of(ret.barrier) == 0)


@contract
class streamer_dict_helpers:
    """the address helpers hand out consecutive registers from ANY base address and return the next free one"""
    target = "snaxc.accelerators.snax.SNAXStreamer.get_streamer_setup_dict"
    shapes = [dict(acc=a) for a in ("alu", "alu_acbt", "gemmx8")]
    total = True
    compare_ret = False

    def args(sh, sym):
        return [mk_acc(sh["acc"]), sym.int("base", 0)]

    def run(sh, a):
        acc, base = a
        nxt, setup = acc.get_streamer_setup_dict(base)
        nxt2, launch = acc.get_streamer_launch_dict(nxt)
        return (nxt, setup, nxt2, launch)

    def ensures(sh, a, ret):
        acc, base = a
        nxt, setup, nxt2, launch = ret
        fields = list(acc.streamer_setup_fields)
        check("one register per streamer setup field", sorted(setup.keys()) == sorted(fields) and len(setup) == len(fields))
        check("consecutive from the base in declaration order", [setup[f] for f in fields] == [base + i for i in range(len(fields))])
        check("next free address is past every handed-out register", all(v < nxt for v in setup.values()) and nxt == base + len(fields))
        lf = list(acc.streamer_launch_fields)
        check("launch fields follow directly", [launch[f] for f in lf] == [nxt + i for i in range(len(lf))])
        check("two reserved status registers are skipped after the launch fields", nxt2 == nxt + len(lf) + 2)

    def canary(sh, a, ret):
        check("canary: next address equals base", ret[0] == a[1])


@contract
class xdma_dict_helpers:
    """xDMA: pointer fields at base..base+3, the multicast window [base+4, base+2+2*max_multicast_dest) holds no
    field, the remaining fields follow consecutively, for ANY base address"""
    target = "snaxc.accelerators.snax_xdma.SNAXXDMAAccelerator.get_xdma_streamer_setup_dict"
    shapes = [dict(acc="xdma")]
    total = True
    compare_ret = False

    def args(sh, sym):
        return [mk_acc("xdma"), sym.int("base", 0)]

    def run(sh, a):
        acc, base = a
        nxt, setup = acc.get_xdma_streamer_setup_dict(base)
        nxt2, launch = acc.get_xdma_streamer_launch_dict(nxt)
        return (nxt, setup, nxt2, launch)

    def ensures(sh, a, ret):
        acc, base = a
        nxt, setup, nxt2, launch = ret
        fields = list(acc.streamer_setup_fields)
        mm = acc.max_multicast_dest
        check("one register per streamer setup field", sorted(setup.keys()) == sorted(fields) and len(setup) == len(fields))
        check("the four pointer fields sit at base..base+3", [setup[f] for f in fields[:4]] == [base + i for i in range(4)])
        check("the multicast window contains no field", all(not (base + 4 <= v and v < base + 2 + 2 * mm) for v in setup.values()))
        check("the remaining fields are consecutive behind the window", [setup[f] for f in fields[4:]] == [base + 2 + 2 * mm + i for i in range(len(fields) - 4)])
        check("registers are pairwise distinct", all(setup[fields[i]] != setup[fields[j]] for i in range(len(fields)) for j in range(i)))
        check("next free address is past every handed-out register", all(v < nxt for v in setup.values()))
        lf = list(acc.streamer_launch_fields)
        check("launch fields follow directly", [launch[f] for f in lf] == [nxt + i for i in range(len(lf))] and nxt2 == nxt + len(lf))

    def canary(sh, a, ret):
        check("canary: next address equals base", ret[0] == a[1])


def mk_accelerator_op(sym, nfields):
    fields = {f"f{i}": sym.int(f"addr{i}", 0, 4095) for i in range(nfields)}
    launch = {"launch": sym.int("laddr0", 0, 4095), "launch_b": sym.int("laddr1", 0, 4095)}
    return accfg.AcceleratorOp("acc", fields, launch, sym.int("barrier", 0, 4095)), fields, launch


@contract
class lower_acc_setup_contract:
    """each configured field becomes exactly one CSR write of its value to its declared register, in program order"""
    target = "snaxc.accelerators.snax.SNAXAccelerator.lower_acc_setup"
    shapes = [dict(nparams=n, index=ix) for n in (0, 1, 2, 3, 4) for ix in ("none", "all", "mixed") if not (n == 0 and ix != "none")]
    total = True
    compare_ret = False
    native = False

    def args(sh, sym):
        acc_op, fields, launch = mk_accelerator_op(sym, 4)
        names = [f"f{(3 * k + 1) % 4}" for k in range(sh["nparams"])]
        vals = []
        for k in range(sh["nparams"]):
            is_index = sh["index"] == "all" or (sh["index"] == "mixed" and k % 2 == 0)
            vals.append(mk_ident_value(100 + k, IndexType() if is_index else i32))
        setup = accfg.SetupOp(vals, names, "acc")
        return [setup, acc_op, names, vals, fields]

    def run(sh, a):
        return SNAXAccelerator.lower_acc_setup(a[0], a[1])

    def ensures(sh, a, ret):
        setup, acc_op, names, vals, fields = a
        ev = csr_events(list(ret))
        check("one CSR write per configured field, nothing else", len(ev) == len(names) and all(e[0] == "w" for e in ev))
        for k in range(min(len(ev), len(names))):
            check(f"write {k} goes to the register declared for field {names[k]}", ev[k][1] == fields[names[k]])
            v = ev[k][2]
            if isinstance(vals[k].type, IndexType):
                check(f"write {k} carries the field's value (index values through one index cast)", isinstance(v.owner, arith.IndexCastOp) and v.owner.operands[0] is vals[k])
            else:
                check(f"write {k} carries the field's value", v is vals[k])
        # def before use inside the returned list
        ops = list(ret)
        ok = True
        for i, o in enumerate(ops):
            for x in o.operands:
                ow = getattr(x, "owner", None)
                if any(ow is p for p in ops):
                    ok = ok and any(ow is p for p in ops[:i])
        check("ops are returned in def-before-use order", ok)

    def canary(sh, a, ret):
        check("canary: nothing is written", len(csr_events(list(ret))) == 0 and sh["nparams"] > 0)


@contract
class lower_acc_launch_contract:
    target = "snaxc.accelerators.snax.SNAXAccelerator.lower_acc_launch"
    shapes = [dict(nparams=n) for n in (1, 2)]
    total = True
    compare_ret = False
    native = False

    def args(sh, sym):
        acc_op, fields, launch = mk_accelerator_op(sym, 2)
        names = ["launch", "launch_b"][: sh["nparams"]]
        vals = [mk_ident_value(200 + k, i32) for k in range(sh["nparams"])]
        state = mk_ident_value(300, accfg.StateType("acc"))
        lop = accfg.LaunchOp(vals, names, state)
        return [SNAXAluAccelerator(), lop, acc_op, names, vals, launch]

    def run(sh, a):
        return a[0].lower_acc_launch(a[1], a[2])

    def ensures(sh, a, ret):
        acc, lop, acc_op, names, vals, launch = a
        ev = csr_events(list(ret))
        check("one CSR write per launch value, in order, to the declared launch registers",
              len(ev) == len(names) and all(ev[k][0] == "w" and ev[k][1] == launch[names[k]] and ev[k][2] is vals[k] for k in range(min(len(ev), len(names)))))

    def canary(sh, a, ret):
        check("canary: launch writes go to register 0", all(e[1] == 0 for e in csr_events(list(ret))))


@contract
class lower_acc_await_contract:
    """each await polls (or, for the write-style barrier, writes) the declared barrier / launch registers"""
    target = "snaxc.accelerators.snax.SNAXPollingBarrier3.lower_acc_await"
    shapes = [dict(barrier=b) for b in (1, 2, 3, 4)]
    total = True
    compare_ret = False
    native = False

    def args(sh, sym):
        acc_op, fields, launch = mk_accelerator_op(sym, 1)
        return [acc_op, launch]

    def run(sh, a):
        cls = {1: SNAXPollingBarrier, 2: SNAXPollingBarrier2, 3: SNAXPollingBarrier3, 4: SNAXPollingBarrier4}[sh["barrier"]]
        return cls.lower_acc_await(a[0])

    def ensures(sh, a, ret):
        acc_op, launch = a
        ev = csr_events(list(ret))
        if sh["barrier"] == 4:
            writes = [e for e in ev if e[0] == "w"]
            check("write-style barrier: every launch register is written twice with 0", len(writes) == 2 * len(launch)
                  and all(sorted([w[1] for w in writes][2 * i:2 * i + 2]) == [list(launch.values())[i]] * 2 for i in range(len(launch))) and all(den(w[2]) == 0 for w in writes))
        else:
            polls = [e for e in ev if e[0] == "poll"]
            check("exactly one polling loop", len(polls) == 1)
            reads = [e for e in polls[0][1] if e[0] == "r"]
            check("the loop reads the declared barrier register", len(reads) == 1 and reads[0][1] == addr_of(acc_op.barrier))

    def canary(sh, a, ret):
        check("canary: no CSR access at all", len(csr_events(list(ret))) == 0)


# =====================================================================================
# RoCC (instruction-configured accelerators): every instruction carries the values currently in effect
# =====================================================================================
import itertools  # noqa: E402

import snaxc.accelerators.rocc as rocc  # noqa: E402
from contracts.accfg import G as AG  # noqa: E402
from contracts.accfg import infer_rec, mk_state, state_val  # noqa: E402

RFIELDS = ("ia.rs1", "ia.rs2", "ib.rs1", "ib.rs2")


def _presence(ninstr):
    """which of rs1/rs2 the op itself sets, per instruction ('1', '2', '12'); every instruction is named by the op"""
    return list(itertools.product(("1", "2", "12"), repeat=ninstr))


@contract
class rocc_create_pairs_contract:
    """for every instruction named in the op: (value in effect for rs1, value in effect for rs2), where a field the op
    does not write keeps the value of the (inferred) previous state"""
    target = "snaxc.accelerators.rocc.create_pairs"
    shapes = [dict(pres=list(p), has_in=h) for n in (1, 2) for p in _presence(n) for h in (True, False)]
    quick = lambda sh: len(sh["pres"]) == 1 or sh["has_in"]
    native = False
    modular = {"snaxc.inference.trace_acc_state.infer_state_of": infer_rec}
    may_not_return = True

    def args(sh, sym):
        AG["infer"] = []
        names, vals = [], []
        for i, p in enumerate(sh["pres"]):
            ins = ("ia", "ib")[i]
            for r in p:
                names.append(f"{ins}.rs{r}")
                vals.append(mk_ident_value(sym.int(f"v_{ins}_{r}", 0, 5)))
        prev = None
        if sh["has_in"]:
            prev = state_val()
            AG["infer"].append((prev, mk_state(sym, "prev", RFIELDS)))
        op = accfg.SetupOp(vals, names, "gemmini", prev)
        return [op, names, vals]

    def run(sh, a):
        return rocc.create_pairs(a[0])

    def raises(sh, a, exc):
        op, names, vals = a
        prev = AG["infer"][0][1] if sh["has_in"] else {}
        missing = False
        for i, p in enumerate(sh["pres"]):
            ins = ("ia", "ib")[i]
            for r in ("1", "2"):
                f = f"{ins}.rs{r}"
                missing = missing or (f not in names and f not in prev)
        check("raising (KeyError) only when a partner field is neither written by the op nor known from the previous state", exc == "KeyError" and missing)

    def ensures(sh, a, ret):
        op, names, vals = a
        prev = AG["infer"][0][1] if sh["has_in"] else {}
        own = dict(zip(names, vals))
        check("one pair per instruction named in the op", sorted(ret.keys()) == sorted(("ia", "ib")[: len(sh["pres"])]))
        for i in range(len(sh["pres"])):
            ins = ("ia", "ib")[i]
            for k, r in enumerate(("1", "2")):
                f = f"{ins}.rs{r}"
                if f in own:
                    check(f"{f}: the op's own value", ret[ins][k] == own[f])
                else:
                    check(f"{f}: optimised away earlier - the value in effect from the previous state", f in prev and ret[ins][k] == prev[f])

    def canary(sh, a, ret):
        check("canary: both operands of an instruction are always the same value", all(ret[k][0] == ret[k][1] for k in ret))


@contract
class rocc_combine_pairs_contract:
    target = "snaxc.accelerators.rocc.combine_pairs_to_ops"
    shapes = [dict(n=n) for n in (1, 2, 3)]
    total = True
    compare_ret = False
    native = False

    def args(sh, sym):
        ins = ["ia", "ib", "ic"][: sh["n"]]
        items = []
        values = {}
        for i, name in enumerate(ins):
            items.append((name + ".rs1", IntegerAttr(10 + i, i32)))
            items.append((name + ".rs2", IntegerAttr(10 + i, i32)))
            values[name] = (mk_ident_value(sym.int(f"a{i}", 0, 9)), mk_ident_value(sym.int(f"b{i}", 0, 9)))
        return [items, values, 3, ins]

    def run(sh, a):
        return rocc.combine_pairs_to_ops(a[0], a[1], a[2])

    def ensures(sh, a, ret):
        items, values, x, ins = a
        ops = list(ret)
        check("one instruction per .rs1 field", len(ops) == len(ins) and all(isinstance(o, llvm.InlineAsmOp) for o in ops))
        for i in range(min(len(ops), len(ins))):
            s = ops[i].asm_string if SYMBOLIC else ops[i].asm_string.data
            check(f"instruction {i}: declared funct7 and custom opcode", s == f".insn r CUSTOM_3, 0x3, {10 + i} ,x0, $0, $1")
            check(f"instruction {i}: carries (rs1 value, rs2 value)", ops[i].operands[0] == values[ins[i]][0] and ops[i].operands[1] == values[ins[i]][1])

    def canary(sh, a, ret):
        check("canary: no instruction is emitted", len(list(ret)) == 0)


@contract
class rocc_lower_acc_setup_contract:
    """a first setup (no previous state) that names only one half of an instruction gets the other half as constant 0;
    every emitted instruction carries the values in effect"""
    target = "snaxc.accelerators.rocc.RoCCAccelerator.lower_acc_setup"
    shapes = [dict(pres=list(p), has_in=h) for p in _presence(1) + [("1", "12"), ("12", "2")] for h in (False, True)]
    native = False
    compare_ret = False
    modular = {"snaxc.inference.trace_acc_state.infer_state_of": infer_rec}
    may_not_return = True

    def args(sh, sym):
        AG["infer"] = []
        names, vals = [], []
        for i, p in enumerate(sh["pres"]):
            ins = ("ia", "ib")[i]
            for r in p:
                names.append(f"{ins}.rs{r}")
                vals.append(mk_ident_value(sym.int(f"v_{ins}_{r}", 0, 5)))
        prev = None
        if sh["has_in"]:
            prev = state_val()
            AG["infer"].append((prev, mk_state(sym, "prev", RFIELDS)))
        op = accfg.SetupOp(vals, names, "gemmini", prev)
        acc_op = accfg.AcceleratorOp("gemmini", {"ia.rs1": 10, "ia.rs2": 10, "ib.rs1": 11, "ib.rs2": 11, "ic.rs1": 12, "ic.rs2": 12}, {}, 0)
        return [op, acc_op, names, vals]

    def run(sh, a):
        return rocc.RoCCAccelerator.lower_acc_setup(a[0], a[1])

    def raises(sh, a, exc):
        op, acc_op, names, vals = a
        prev = AG["infer"][0][1] if sh["has_in"] else {}
        missing = any(f"{('ia', 'ib')[i]}.rs{r}" not in names and f"{('ia', 'ib')[i]}.rs{r}" not in prev for i in range(len(sh["pres"])) for r in ("1", "2"))
        check("raising (KeyError) only for a later setup whose partner field is unknown", exc == "KeyError" and sh["has_in"] and missing)

    def ensures(sh, a, ret):
        op, acc_op, names, vals = a
        prev = AG["infer"][0][1] if sh["has_in"] else {}
        own = dict(zip(names, vals))
        insns = [o for o in ret if isinstance(o, llvm.InlineAsmOp)]
        used = ("ia", "ib")[: len(sh["pres"])]
        check("one instruction per instruction named in the setup, none for others", len(insns) == len(used))
        for i, ins in enumerate(used):
            if i >= len(insns):
                break
            o = insns[i]
            s = o.asm_string if SYMBOLIC else o.asm_string.data
            check(f"{ins}: declared funct7", s == f".insn r CUSTOM_3, 0x3, {10 + i} ,x0, $0, $1")
            for k, r in enumerate(("1", "2")):
                f = f"{ins}.rs{r}"
                v = o.operands[k]
                if f in own:
                    check(f"{f}: the setup's own value", v == own[f])
                elif sh["has_in"]:
                    check(f"{f}: the value in effect from the previous state", f in prev and v == prev[f])
                else:
                    check(f"{f}: first setup, never written: materialised as constant 0", isinstance(v.owner, arith.ConstantOp) and den(v) == 0
                          and any(x is v.owner for x in ret))

    def canary(sh, a, ret):
        check("canary: no instruction is emitted", len([o for o in ret if isinstance(o, llvm.InlineAsmOp)]) == 0)


# =====================================================================================
# DeleteAllStates: no state-typed value survives; everything else keeps its position
# =====================================================================================
from xdsl.ir import Block, Operation, Region  # noqa: E402
from xdsl.pattern_rewriter import PatternRewriter  # noqa: E402

import snaxc.transforms.convert_accfg_to_csr as a2c  # noqa: E402


class AnyOp(Operation):
    """view of an arbitrary op with the generic `create` interface"""

    def __init__(self, operands, result_types, regions):
        self._init_op(operands, [None for _ in result_types], list(result_types))
        self.regions = list(regions)
        for r in self.regions:
            r.parent = self

    @classmethod
    def create(cls, operands=(), result_types=(), properties=None, attributes=None, successors=(), regions=()):
        o = cls(list(operands), list(result_types), list(regions))
        o.properties = properties
        o.attributes = attributes
        return o


def _masks2(n):
    return ["".join(m) for m in itertools.product("sv", repeat=n)]  # s = state-typed, v = ordinary value


@contract
class DeleteAllStates_contract:
    target = "snaxc.transforms.convert_accfg_to_csr.DeleteAllStates.match_and_rewrite"
    shapes = [dict(ops=o, res=r, args=g) for o in ["", "v", "s", "sv", "vsv"] for r in ["", "s", "v", "vs", "svv", "vsv", "vvs", "svsv"] for g in ["", "vs"]]
    quick = lambda sh: len(sh["ops"]) <= 2 or sh["res"] in ("svv", "vsv")
    native = False
    total = True

    def args(sh, sym):
        st = accfg.StateType("acc")
        operands = [mk_ident_value(100 + k, st if c == "s" else i32) for k, c in enumerate(sh["ops"])]
        rtypes = [st if c == "s" else i32 for c in sh["res"]]
        blk = Block(arg_types=[st if c == "s" else i32 for c in sh["args"]])
        op = AnyOp(operands, rtypes, [Region([blk])])
        outer = Block([op])
        holder = AnyOp([], [], [Region([outer])])
        return [op, operands, blk]

    def run(sh, a):
        op = a[0]
        rw = PatternRewriter(op)
        a2c.DeleteAllStates().match_and_rewrite(op, rw)
        return rw.log

    def ensures(sh, a, ret):
        op, operands, blk = a
        st = accfg.StateType("acc")
        reps = [e for e in ret if e[0] == "replace_op"]
        final = reps[-1][2][0] if len(reps) > 0 else op
        keep_ops = [v for v, c in zip(operands, sh["ops"]) if c == "v"]
        check("no state-typed operand survives; the other operands keep their order", len(final.operands) == len(keep_ops) and all(x is y for x, y in zip(final.operands, keep_ops)))
        check("no state-typed result survives", all(not (r.type == st) for r in final.results) and len(final.results) == len([c for c in sh["res"] if c == "v"]))
        if "s" in sh["res"]:
            last = reps[-1]
            old = last[1]
            mapping = last[3]
            check("the result mapping has one entry per old result", mapping is not None and len(mapping) == len(sh["res"]))
            rank = 0
            for i, c in enumerate(sh["res"]):
                if c == "s":
                    check(f"old result {i} (state) is dropped", mapping[i] is None)
                else:
                    check(f"old result {i} is replaced by the new op's result of the same rank among the surviving results", mapping[i] is final.results[rank])
                    rank += 1
        erased = [e[1] for e in ret if e[0] == "erase_block_argument"]
        if "s" in sh["res"]:
            # the regions moved to the replacement op, which the greedy driver visits again: erasing its block arguments is
            # deferred to that visit (driver behaviour, not covered); here only: nothing but state-typed arguments is erased
            check("only state-typed block arguments are ever erased", all(x.type == st for x in erased))
        else:
            check("exactly the state-typed block arguments are erased", len(erased) == len([c for c in sh["args"] if c == "s"])
                  and all(any(x is arg for x in erased) == (arg.type == st) for arg in blk.args))
        check("an op without state-typed operands or results is not replaced", ("s" in sh["ops"] or "s" in sh["res"]) or len(reps) == 0)

    def canary(sh, a, ret):
        check("canary: nothing is ever rewritten", len(ret) == 0)


# =====================================================================================
# gemmx: the launch that carries per-channel-group rescale values (mult_vals / shift_vals / m attributes)
# =====================================================================================
from xdsl.dialects.builtin import DenseArrayBase, IntegerAttr, IntegerType  # noqa: E402

GROUPS = [dict(n=n, groups=g) for n in (4, 8) for g in (1, 2, 3)]


@contract
class GEMMX_channelwise_launch_contract:
    """every launch_gemmx write of the channel-wise launch finds, in the shift_* and mult_* registers, the values of ITS
    channel group - written by this lowering itself before that launch (the first group included: a setup hoisted out of a
    loop does not re-write them on the second execution)"""
    target = "snaxc.accelerators.snax_gemmx.SNAXGEMMXAccelerator.lower_acc_launch"
    shapes = GROUPS
    total = True
    compare_ret = False
    native = False
    permissive = True

    def args(sh, sym):
        n, g = sh["n"], sh["groups"]
        acc = SNAXGEMMXAccelerator(n=n)
        acc_op = acc.generate_acc_op()
        mults = [sym.int(f"m{i}", 0, 1000) for i in range(n * g)]
        shifts = [(7 * i + 3) % 32 for i in range(n * g)]
        vals = [mk_ident_value(200, i32), mk_ident_value(201, i32)]
        state = mk_ident_value(300, accfg.StateType(acc.name))
        lop = accfg.LaunchOp(vals, ["launch_streamer", "launch_gemmx"], state)
        lop.attributes["mult_vals"] = DenseArrayBase(tuple(mults), i32)
        lop.attributes["shift_vals"] = DenseArrayBase(tuple(shifts), IntegerType(8))
        lop.attributes["m"] = IntegerAttr(sym.int("M", 1, 64) * g, i32)
        return [acc, lop, acc_op, mults, shifts, vals]

    def run(sh, a):
        return a[0].lower_acc_launch(a[1], a[2])

    def ensures(sh, a, ret):
        acc, lop, acc_op, mults, shifts, vals = a
        n, g = sh["n"], sh["groups"]
        fields = dict(acc_op.field_items())
        launch = dict(acc_op.launch_field_items())

        def addr(x):
            return x.value.data if hasattr(x, "value") else x

        regs = {}
        launches = 0
        for e in csr_events(list(ret)):
            if e[0] != "w":
                continue
            if e[1] == addr(launch["launch_gemmx"]):
                i = launches
                launches += 1
                if i < g:
                    for j in range(n):
                        k = addr(fields[f"mult_{j}"])
                        check(f"launch of group {i}: mult_{j} was written by this lowering and holds the group's value", k in regs and den(regs[k]) == mults[i * n + j])
                    for j in range(0, n, 4):
                        k = addr(fields[f"shift_{j // 4}"])
                        grp = shifts[i * n + j:i * n + j + 4]
                        want = 0
                        for q in range(len(grp)):
                            want = want + grp[q] * (2 ** (8 * q))
                        check(f"launch of group {i}: shift_{j // 4} was written by this lowering and packs the group's shifts", k in regs and den(regs[k]) == want)
            else:
                regs[e[1]] = e[2]
        check("one accelerator launch per channel group", launches == g)

    def canary(sh, a, ret):
        check("canary: no CSR write", len([e for e in csr_events(list(ret)) if e[0] == "w"]) == 0)


# =====================================================================================
# which accelerator description a lowering pattern uses: the one registered in ITS OWN module, whatever other pattern
# objects (of other modules, in the same process) have looked up before
# =====================================================================================
import snaxc.transforms.convert_accfg_to_csr as a2c  # noqa: E402


class ModuleV:
    def __init__(self, tag):
        self.tag = tag


class LookupCtxV:
    """AccContext.get_acc_op_from_module as a pure function of (name, module): one description per pair"""

    def __init__(self):
        self.table = {}
        self.calls = []

    def get_acc_op_from_module(self, name, module):
        self.calls.append((name, module))
        key = (name, module.tag)
        if key not in self.table:
            self.table[key] = (ModuleV(("acc_op", name, module.tag)), ModuleV(("acc_info", name, module.tag)))
        return self.table[key]


@contract
class LowerAccfgBasePattern_get_acc_contract:
    """get_acc(name) of a pattern built for module M answers with M's accelerator op - for every order in which pattern
    objects of two modules (a compiler process lowers more than one module) ask for the same or different names"""
    target = "snaxc.transforms.convert_accfg_to_csr.LowerAccfgBasePattern.get_acc"
    shapes = [dict(kinds=k, order=o) for k in (("setup", "setup"), ("setup", "launch"), ("launch", "await")) for o in ("m1_first", "m2_first", "interleaved")]
    native = False
    total = True
    compare_ret = False

    def args(sh, sym):
        ctx = LookupCtxV()
        m1, m2 = ModuleV("module1"), ModuleV("module2")
        cls = dict(setup=a2c.LowerAccfgSetupToCsr, launch=a2c.LowerAccfgLaunchToCsr, **{"await": a2c.LowerAccfgAwaitToCsr})
        p1 = cls[sh["kinds"][0]](m1, ctx)
        p2 = cls[sh["kinds"][1]](m2, ctx)
        return [p1, p2, ctx, m1, m2]

    def run(sh, a):
        p1, p2 = a[0], a[1]
        seq = dict(m1_first=[(p1, "acc"), (p1, "other"), (p2, "acc"), (p2, "other"), (p1, "acc")],
                   m2_first=[(p2, "acc"), (p1, "acc"), (p2, "acc"), (p1, "other")],
                   interleaved=[(p1, "acc"), (p2, "acc"), (p1, "other"), (p2, "other"), (p2, "acc"), (p1, "acc")])[sh["order"]]
        return [(p, n, p.get_acc(n)) for p, n in seq]

    def ensures(sh, a, ret):
        p1, p2, ctx, m1, m2 = a
        for k, (p, n, r) in enumerate(ret):
            m = m1 if p is p1 else m2
            check(f"query {k}: the description of accelerator '{n}' registered in the pattern's own module", r[0].tag == ("acc_op", n, m.tag) and r[1].tag == ("acc_info", n, m.tag))
        check("every lookup goes to the context with the pattern's own module", all(any(c[1] is m for m in (m1, m2)) for c in ctx.calls))

    def canary(sh, a, ret):
        check("canary: every query is answered from module1", all(r[0].tag[2] == "module1" for _, _, r in ret))
