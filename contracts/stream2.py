"""Contracts for C02: schedule -> byte access pattern (layout resolution) -> streamer stride pattern."""
import numpy as np
from pyvc.api import SYMBOLIC, check, contract, den, implies, mk_memref_value
from xdsl.dialects.builtin import AffineMapAttr, ArrayAttr, IntegerType, MemRefType, NoneAttr, StridedLayoutAttr
from xdsl.ir import Block, Region
from xdsl.pattern_rewriter import PatternRewriter

import snaxc.transforms.dart.dart_layout_resolution as lr
from snaxc.dialects import dart
from snaxc.dialects.tsl import TiledStridedLayoutAttr
from snaxc.ir.dart.affine_transform import AffineTransform
from snaxc.ir.tsl import Stride, TiledStride, TiledStridedLayout


def elem_offset(layout_kind, params, idx):
    """the layout's own index->element-offset function (what MLIR / C10 say the layout means)"""
    if layout_kind == "none":
        shape = params["shape"]
        off = 0
        for d in range(len(shape)):
            off = off * shape[d] + idx[d]
        return off
    if layout_kind == "strided":
        return params["off"] + sum(params["strides"][d] * idx[d] for d in range(len(idx)))
    # tsl depth 2 with concrete tile size T per dim: idx_d = q*T + r
    tot = params["off"]
    for d in range(len(idx)):
        T = params["tile"][d]
        tot = tot + (idx[d] // T) * params["outer"][d] + (idx[d] % T) * params["inner"][d]
    return tot


LR_SHAPES = ([dict(layout=l, rank=r, n=n, bits=b) for l in ("none", "strided") for r, n in ((1, 1), (1, 2), (2, 2), (2, 3)) for b in (8, 32)]
             + [dict(layout="tsl", rank=r, n=2 * r, bits=8, tile=t) for r in (1, 2) for t in (2, 8)])


@contract
class LayoutResolution_contract:
    """the byte stride extracted per schedule dimension (unit response) reproduces the composed map
    schedule -> operand index -> byte address on the whole iteration box; the constant term is the base offset"""
    target = "snaxc.transforms.dart.dart_layout_resolution.LayoutResolution.match_and_rewrite"
    shapes = LR_SHAPES
    quick = lambda sh: (sh["layout"] != "tsl" and sh["n"] <= 2) or (sh["layout"] == "tsl" and (sh["rank"] == 1 or sh["tile"] == 2))
    native = False
    total = True
    permissive = True

    def args(sh, sym):
        r, n, el = sh["rank"], sh["n"], ((sh["bits"] + 7) // 8)
        bounds = [sym.int(f"B{j}", 1) for j in range(n)]
        params = {}
        if sh["layout"] == "tsl":
            T = sh["tile"]
            # tile-aligned schedule: operand dim d is indexed by T*x_{d} + x_{r+d}, the inner loop runs over one tile
            A = [[(T if j == d else (1 if j == r + d else 0)) for j in range(n)] for d in range(r)]
            bounds = [sym.int(f"B{j}", 1) for j in range(r)] + [T] * r
            shape = [bounds[d] * T for d in range(r)]
            params = dict(off=0, tile=[T] * r, outer=[sym.int(f"so{d}", 1) for d in range(r)], inner=[sym.int(f"si{d}", 1) for d in range(r)])
            layout = TiledStridedLayoutAttr(TiledStridedLayout([TiledStride([Stride(params["outer"][d], bounds[d]), Stride(params["inner"][d], T)]) for d in range(r)]))
        else:
            A = [[sym.int(f"A{d}_{j}", 0) for j in range(n)] for d in range(r)]
            shape = [sym.int(f"N{d}", 1) for d in range(r)]
            if sh["layout"] == "none":
                params = dict(shape=shape)
                layout = NoneAttr()
            else:
                params = dict(off=sym.int("off", 0), strides=[sym.int(f"S{d}", 1) for d in range(r)])
                layout = StridedLayoutAttr(params["strides"], params["off"])
        operand = mk_memref_value(MemRefType(IntegerType(sh["bits"]), shape, layout), shape, None, 0, 0)
        t = AffineTransform(np.array(A).reshape(r, n), np.array([0] * r).reshape(r))
        pat = AffineMapAttr(t if SYMBOLIC else t.to_affine_map())
        op = dart.ScheduleOp([operand], [], ArrayAttr([pat]), Region(Block()), list(bounds), [[]], "acc")
        x = [sym.int(f"x{j}", 0) for j in range(n)]
        return [op, A, bounds, params, x]

    def run(sh, a):
        rw = PatternRewriter(a[0])
        lr.LayoutResolution().match_and_rewrite(a[0], rw)
        return rw.log

    def ensures(sh, a, ret):
        op, A, bounds, params, x = a
        el = ((sh["bits"] + 7) // 8)
        rep = [e for e in ret if e[0] == "replace_op"]
        check("replaced once", len(rep) == 1 and rep[0][1] is op)
        ap = [o for o in rep[0][2] if isinstance(o, dart.AccessPatternOp)]
        check("one access-pattern op, one pattern per operand", len(ap) == 1 and len(ap[0].patterns.data) == 1)
        m = ap[0].patterns.data[0].data
        check("pattern has one result over the schedule dimensions", len(m.results) == 1 and m.num_dims == sh["n"] and m.num_symbols == 0)
        idx = [sum(A[d][j] * x[j] for j in range(sh["n"])) for d in range(sh["rank"])]
        zero = [0] * sh["rank"]
        in_box = all(x[j] < bounds[j] for j in range(sh["n"]))
        addr = el * elem_offset(sh["layout"], params, idx)
        base = el * elem_offset(sh["layout"], params, zero)
        check("stride pattern reproduces the byte address of every scheduled element relative to the first one",
              implies(in_box, m.eval(x, [])[0] == addr - base))
        check("the pattern has no constant term (the streamer adds it to the base pointer)", m.eval([0] * sh["n"], [])[0] == 0)

    def canary(sh, a, ret):
        ap = [o for e in ret if e[0] == "replace_op" for o in e[2] if isinstance(o, dart.AccessPatternOp)]
        check("canary: all strides are zero", ap[0].patterns.data[0].data.eval(a[4], [])[0] == 0)


# =====================================================================================
# stage 2: byte access pattern -> streamer stride pattern (ConvertStreamToSnaxStreamPattern, whole method)
# =====================================================================================
from xdsl.dialects.builtin import IndexType  # noqa: E402
from xdsl.ir.affine import AffineConstantExpr, AffineDimExpr, AffineMap  # noqa: E402

import snaxc.transforms.convert_dart_to_snax_stream as d2s  # noqa: E402
from contracts.specs import same_nest  # noqa: E402
from pyvc.api import mk_ident_value  # noqa: E402
from snaxc.accelerators.snax import SNAXStreamer  # noqa: E402
from snaxc.accelerators.streamers.streamers import HasBroadcast, Streamer, StreamerConfiguration, StreamerType  # noqa: E402
from snaxc.dialects import snax_stream  # noqa: E402
from snaxc.ir.dart.access_pattern import Template, TemplatePattern  # noqa: E402


class AccV(SNAXStreamer):
    """view of a registered streamer accelerator: its template and streamers for the op (plumbing: assumed)"""

    def __init__(self, template, streamers, other_op=None, other_template=None, other_streamers=None):
        SNAXStreamer.__init__(self, StreamerConfiguration(streamers))
        self._template = template
        # like snax_gemmx, the answer may depend on the OP (i8 vs i32 result: D8 or D32 streamer), not only on its operand count
        self._other = (other_op, other_template, other_streamers)

    def get_template(self, op):
        return self._other[1] if self._other[0] is not None and op is self._other[0] else self._template

    def get_streamers(self, op):
        return self._other[2] if self._other[0] is not None and op is self._other[0] else self.streamer_config.data.streamers


class CtxV:
    def __init__(self, acc):
        self.acc = acc

    def get_acc(self, name):
        return self.acc


def operand_family():
    """(name, element bytes, template bounds, template rows for the operand, streamer spatial sizes, broadcast, temporal bounds)"""
    out = []
    M, N, K = [1, 0, 0], [0, 1, 0], [0, 0, 1]
    for tb in ([2, 2, 2], [1, 4, 2], [4, 1, 1], [2, 3, 1]):
        out.append(dict(name="gemmx_A_i8", el=1, tbounds=[8, 8, 8], rows=[M, K], spatial=[8], bcast=False, temporal=tb, total_on=True))
        out.append(dict(name="gemmx_B_i8", el=1, tbounds=[8, 8, 8], rows=[K, N], spatial=[8], bcast=False, temporal=tb, total_on=True))
    for tb in ([2, 2, 2], [1, 2, 4], [3, 1, 1]):
        out.append(dict(name="gemmx_D32_i32", el=4, tbounds=[8, 8, 8], rows=[M, N], spatial=[8, 4], bcast=False, temporal=tb, total_on=False))
        out.append(dict(name="gemmx_C_i32_bcast", el=4, tbounds=[8, 8, 8], rows=[M, N], spatial=[8, 4], bcast=True, temporal=tb, total_on=False))
        out.append(dict(name="gemmx_D8_i8", el=1, tbounds=[8, 8, 8], rows=[M, N], spatial=[8], bcast=False, temporal=tb, total_on=True))
    for tb in ([4], [16], [2, 3]):
        out.append(dict(name="alu_i64", el=8, tbounds=[4], rows=[[1]], spatial=[4], bcast=False, temporal=tb, total_on=True))
    for tb in ([2], [4, 2]):
        out.append(dict(name="xdma_i32", el=4, tbounds=[16], rows=[[1]], spatial=[8], bcast=False, temporal=tb, total_on=True))
    # HISTORY: the same pattern object has converted another op of the same accelerator and operand count before, for which
    # the accelerator selected other streamers (gemmx: an i32 layer through D32 before / after an i8 layer through D8)
    out.append(dict(name="gemmx_D8_i8_after_D32", el=1, tbounds=[8, 8, 8], rows=[M, N], spatial=[8], bcast=False, temporal=[2, 2, 2], total_on=True, warm=dict(el=4, spatial=[8, 4])))
    out.append(dict(name="gemmx_D32_i32_after_D8", el=4, tbounds=[8, 8, 8], rows=[M, N], spatial=[8, 4], bcast=False, temporal=[2, 2, 2], total_on=False, warm=dict(el=1, spatial=[8])))
    return out


def warm_op_for(sh, tmpl):
    """a concrete, contiguous row-major-tiled access of the other element size (what precedes the op under contract)"""
    w = sh["warm"]
    el = w["el"]
    # dims: t0, t1, t2, m, n, k ; rows M,N: k irrelevant.  n innermost, then m, then the temporal loops
    st = [el * 8 * 8 * 4, el * 8 * 8 * 2, 0, el * 8, el, 0]
    e = AffineConstantExpr(0)
    for j in range(6):
        e = e + AffineDimExpr(j) * st[j]
    op = dart.AccessPatternOp([mk_ident_value(7100, IndexType())], [], ArrayAttr([AffineMapAttr(AffineMap(6, 0, (e,)))]), Region(Block()), [2, 2, 2, 8, 8, 8], "acc")
    return op, tmpl, [Streamer(StreamerType.Reader, ["n"] * 6, w["spatial"], [])]


@contract
class ConvertStreamToSnaxStream_contract:
    """the (ub, ts, ss) configuration the streamer executes enumerates, in 8-byte words, exactly the byte sequence of
    the scheduled elements: same_nest(element nest, streamer nest) for ALL byte strides"""
    target = "snaxc.transforms.convert_dart_to_snax_stream.ConvertStreamToSnaxStreamPattern.match_and_rewrite"
    shapes = operand_family()
    quick = lambda sh: sh["temporal"] in ([2, 2, 2], [4], [2], [1, 4, 2], [2, 3])
    native = False
    permissive = True
    may_not_return = True
    allowed_raises = ("RuntimeError", "NotImplementedError", "StopIteration")

    def args(sh, sym):
        nt, ns = len(sh["temporal"]), len(sh["tbounds"])
        n = nt + ns
        bounds = list(sh["temporal"]) + list(sh["tbounds"])
        strides = [sym.int(f"s{j}", 0) for j in range(n)]
        e = AffineConstantExpr(0)
        for j in range(n):
            e = e + AffineDimExpr(j) * strides[j]
        amap = AffineMap(n, 0, (e,))
        rows = sh["rows"]
        tmpl = Template([TemplatePattern(sh["tbounds"], AffineTransform(np.array(rows).reshape(len(rows), ns), np.array([0] * len(rows)).reshape(len(rows))))])
        warm = warm_op_for(sh, tmpl) if sh.get("warm") else (None, None, None)
        acc = AccV(tmpl, [Streamer(StreamerType.Reader, ["n"] * 6, sh["spatial"], [HasBroadcast()] if sh["bcast"] else [])], warm[0], warm[1], warm[2])
        ptr = mk_ident_value(7000, IndexType())
        op = dart.AccessPatternOp([ptr], [], ArrayAttr([AffineMapAttr(amap)]), Region(Block()), bounds, "acc")
        relevant = [True] * nt + [any(rows[i][j] != 0 for i in range(len(rows))) for j in range(ns)]
        return [op, acc, strides, bounds, relevant, warm[0]]

    def requires(sh, a):
        op, acc, strides, bounds, relevant = a[:5]
        # what set-memory-layout produces: the innermost relevant dimension is contiguous (stride == element size)
        inner = [j for j in range(len(bounds)) if relevant[j]][-1]
        ok = strides[inner] == sh["el"]
        if sh["bcast"]:
            # a zero spatial stride on a streamer with HasBroadcast switches the HARDWARE broadcast mode on; what the ports
            # fetch then is not a loop nest over addresses - outside this model, excluded (stated in evidence)
            ok = ok and all(strides[j] >= 1 for j in range(len(bounds)) if relevant[j])
        return ok

    def run(sh, a):
        op, acc = a[0], a[1]
        rw = PatternRewriter(op)
        pattern = d2s.ConvertStreamToSnaxStreamPattern(CtxV(acc))
        if a[5] is not None:
            # the walker applies ONE pattern object to every op of the module: the other op comes first
            pattern.match_and_rewrite(a[5], PatternRewriter(a[5]))
        pattern.match_and_rewrite(op, rw)
        return rw.log

    def raises(sh, a, exc):
        if sh["total_on"]:
            check(f"shipped operand shape: the conversion must not reject it ({exc})", exc not in ("NotImplementedError", "StopIteration"))

    def ensures(sh, a, ret):
        op, acc, strides, bounds, relevant = a[:5]
        rep = [e for e in ret if e[0] == "replace_op"]
        check("replaced by one streaming region", len(rep) == 1 and rep[0][1] is op and isinstance(rep[0][2][-1], snax_stream.StreamingRegionOp))
        p = rep[0][2][-1].stride_patterns.data[0]
        ub = [x.data for x in p.upper_bounds.data]
        ts = [x.data for x in p.temporal_strides.data]
        ss = [x.data for x in p.spatial_strides.data]
        check("one spatial stride per streamer spatial dimension", len(ss) == len(sh["spatial"]))
        check("bounds and temporal strides stay paired", len(ub) == len(ts))
        n = len(bounds)
        # element nest, innermost first, in bytes: the element itself, then every relevant schedule dimension
        E = [(1, sh["el"])] + [(strides[j], bounds[j]) for j in reversed(range(n)) if relevant[j]]
        # what the streamer executes: 8 contiguous bytes per port, the spatial ports, then the temporal loops (innermost first)
        S = [(1, 8)] + [(ss[k], sh["spatial"][k]) for k in range(min(len(ss), len(sh["spatial"])))] + [(ts[k], ub[k]) for k in range(min(len(ub), len(ts)))]
        if len(ss) != len(sh["spatial"]) or len(ub) != len(ts):
            pass  # already reported by the two clauses above; the nest below cannot be formed
        elif any(u == 0 for u in ub):
            check("no empty stream for a non-empty schedule", False)
        else:
            check("the streamer touches exactly the bytes of the scheduled elements, in order (same_nest)", same_nest(E, S))

    def canary(sh, a, ret):
        rep = [e for e in ret if e[0] == "replace_op"]
        check("canary: no temporal loops are ever needed", len(rep[0][2][-1].stride_patterns.data[0].upper_bounds.data) == 0)
