"""Contracts for C02: schedule -> byte access pattern (layout resolution) -> streamer stride pattern."""
import numpy as np
from pyvc.api import SYMBOLIC, check, contract, den, implies, mk_memref_value
from xdsl.dialects.builtin import AffineMapAttr, ArrayAttr, IntegerType, MemRefType, NoneAttr, StridedLayoutAttr
from xdsl.ir import Block, Region
from xdsl.pattern_rewriter import PatternRewriter

import snaxc.transforms.dart.dart_layout_resolution as lr
from snaxc.dialects import dart
from snaxc.dialects.tsl import TiledStridedLayoutAttr
from snaxc.ir.dart.affine_transform import AffineTransform
from snaxc.ir.tsl import Stride, TiledStride, TiledStridedLayout


def elem_offset(layout_kind, params, idx):
    """the layout's own index->element-offset function (what MLIR / C10 say the layout means)"""
    if layout_kind == "none":
        shape = params["shape"]
        off = 0
        for d in range(len(shape)):
            off = off * shape[d] + idx[d]
        return off
    if layout_kind == "strided":
        return params["off"] + sum(params["strides"][d] * idx[d] for d in range(len(idx)))
    # tsl depth 2 with concrete tile size T per dim: idx_d = q*T + r
    tot = params["off"]
    for d in range(len(idx)):
        T = params["tile"][d]
        tot = tot + (idx[d] // T) * params["outer"][d] + (idx[d] % T) * params["inner"][d]
    return tot


LR_SHAPES = ([dict(layout=l, rank=r, n=n, bits=b) for l in ("none", "strided") for r, n in ((1, 1), (1, 2), (2, 2), (2, 3)) for b in (8, 32)]
             + [dict(layout="tsl", rank=r, n=2 * r, bits=8, tile=t) for r in (1, 2) for t in (2, 8)])


@contract
class LayoutResolution_contract:
    """the byte stride extracted per schedule dimension (unit response) reproduces the composed map
    schedule -> operand index -> byte address on the whole iteration box; the constant term is the base offset"""
    target = "snaxc.transforms.dart.dart_layout_resolution.LayoutResolution.match_and_rewrite"
    shapes = LR_SHAPES
    quick = lambda sh: (sh["layout"] != "tsl" and sh["n"] <= 2) or (sh["layout"] == "tsl" and (sh["rank"] == 1 or sh["tile"] == 2))
    native = False
    total = True
    permissive = True

    def args(sh, sym):
        r, n, el = sh["rank"], sh["n"], sh["bits"] // 8
        bounds = [sym.int(f"B{j}", 1) for j in range(n)]
        params = {}
        if sh["layout"] == "tsl":
            T = sh["tile"]
            # tile-aligned schedule: operand dim d is indexed by T*x_{d} + x_{r+d}, the inner loop runs over one tile
            A = [[(T if j == d else (1 if j == r + d else 0)) for j in range(n)] for d in range(r)]
            bounds = [sym.int(f"B{j}", 1) for j in range(r)] + [T] * r
            shape = [bounds[d] * T for d in range(r)]
            params = dict(off=0, tile=[T] * r, outer=[sym.int(f"so{d}", 1) for d in range(r)], inner=[sym.int(f"si{d}", 1) for d in range(r)])
            layout = TiledStridedLayoutAttr(TiledStridedLayout([TiledStride([Stride(params["outer"][d], bounds[d]), Stride(params["inner"][d], T)]) for d in range(r)]))
        else:
            A = [[sym.int(f"A{d}_{j}", 0) for j in range(n)] for d in range(r)]
            shape = [sym.int(f"N{d}", 1) for d in range(r)]
            if sh["layout"] == "none":
                params = dict(shape=shape)
                layout = NoneAttr()
            else:
                params = dict(off=sym.int("off", 0), strides=[sym.int(f"S{d}", 1) for d in range(r)])
                layout = StridedLayoutAttr(params["strides"], params["off"])
        operand = mk_memref_value(MemRefType(IntegerType(sh["bits"]), shape, layout), shape, None, 0, 0)
        t = AffineTransform(np.array(A).reshape(r, n), np.array([0] * r).reshape(r))
        pat = AffineMapAttr(t if SYMBOLIC else t.to_affine_map())
        op = dart.ScheduleOp([operand], [], ArrayAttr([pat]), Region(Block()), list(bounds), [[]], "acc")
        x = [sym.int(f"x{j}", 0) for j in range(n)]
        return [op, A, bounds, params, x]

    def run(sh, a):
        rw = PatternRewriter(a[0])
        lr.LayoutResolution().match_and_rewrite(a[0], rw)
        return rw.log

    def ensures(sh, a, ret):
        op, A, bounds, params, x = a
        el = sh["bits"] // 8
        rep = [e for e in ret if e[0] == "replace_op"]
        check("replaced once", len(rep) == 1 and rep[0][1] is op)
        ap = [o for o in rep[0][2] if isinstance(o, dart.AccessPatternOp)]
        check("one access-pattern op, one pattern per operand", len(ap) == 1 and len(ap[0].patterns.data) == 1)
        m = ap[0].patterns.data[0].data
        check("pattern has one result over the schedule dimensions", len(m.results) == 1 and m.num_dims == sh["n"] and m.num_symbols == 0)
        idx = [sum(A[d][j] * x[j] for j in range(sh["n"])) for d in range(sh["rank"])]
        zero = [0] * sh["rank"]
        in_box = all(x[j] < bounds[j] for j in range(sh["n"]))
        addr = el * elem_offset(sh["layout"], params, idx)
        base = el * elem_offset(sh["layout"], params, zero)
        check("stride pattern reproduces the byte address of every scheduled element relative to the first one",
              implies(in_box, m.eval(x, [])[0] == addr - base))
        check("the pattern has no constant term (the streamer adds it to the base pointer)", m.eval([0] * sh["n"], [])[0] == 0)

    def canary(sh, a, ret):
        ap = [o for e in ret if e[0] == "replace_op" for o in e[2] if isinstance(o, dart.AccessPatternOp)]
        check("canary: all strides are zero", ap[0].patterns.data[0].data.eval(a[4], [])[0] == 0)
