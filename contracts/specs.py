"""Specification predicates shared by the contracts.  Plain Python in the subset pyvc executes:
each predicate is run symbolically (to generate obligations) and natively (replay, differential,
brute-force validation of the paper lemma it stands for in selftest)."""


def levels(ts):
    """(step, bound) list of a TiledStride, outer -> inner"""
    return [(s.step, s.bound) for s in ts.strides]


def coalesces(orig, new):
    """TSL levels of one dimension, outer->inner, (step, bound).  `new` is `orig` with unit-bound
    levels dropped and adjacent levels fused (outer.step == inner.step*inner.bound); dynamic levels
    (None step or bound) are kept verbatim.
    LEMMA (paper, brute-forced in selftest): coalesces(orig,new) and all static bounds >= 1  ==>
    for every logical index i of the dimension, addr_orig(i) == addr_new(i), and the products of
    the bounds agree."""
    j = len(new) - 1
    r = 1
    for k in reversed(range(len(orig))):
        s, b = orig[k]
        if s is None or b is None:
            if j < 0 or r != 1:
                return False
            if not (new[j][0] is None) == (s is None) or not (new[j][1] is None) == (b is None):
                return False
            if s is not None and s != new[j][0]:
                return False
            if b is not None and b != new[j][1]:
                return False
            j -= 1
            continue
        if j >= 0 and (new[j][0] is None or new[j][1] is None):
            if b == 1:
                continue
            return False
        if j >= 0 and r == 1 and new[j][1] == 1 and b == 1 and new[j][0] == s:
            j -= 1
            continue
        if b == 1:
            continue
        if j < 0:
            return False
        if s != new[j][0] * r:
            return False
        r = r * b
        if r == new[j][1]:
            j -= 1
            r = 1
    return j == -1 and r == 1


def coalesces_stream(oub, ots, nub, nts):
    """Streamer loops innermost first. The new nest is an order-preserving regrouping of the old one
    (or both are empty).  LEMMA: => identical address sequence, step by step."""
    if any(u == 0 for u in oub):
        return any(u == 0 for u in nub)
    j = 0
    r = 1
    for k in range(len(oub)):
        u = oub[k]
        if u == 1:
            continue
        if j >= len(nub):
            return False
        if ots[k] != nts[j] * r:
            return False
        r = r * u
        if r == nub[j]:
            j += 1
            r = 1
    return j == len(nub) and r == 1


def same_nest(E, S):
    """Two loop nests, innermost first, (stride, bound) with concrete bounds: both enumerate the same
    address sequence (common refinement exists with equal effective strides)."""
    E = [(s, b) for s, b in E if b != 1]
    S = [(s, b) for s, b in S if b != 1]
    i = j = 0
    ce = cs = 1
    while i < len(E) and j < len(S):
        se, be = E[i]
        ss, bs = S[j]
        if se * ce != ss * cs:
            return False
        rem_e, rem_s = be // ce, bs // cs
        if rem_e <= rem_s:
            if rem_s % rem_e != 0:
                return False
            m = rem_e
        else:
            if rem_e % rem_s != 0:
                return False
            m = rem_s
        ce, cs = ce * m, cs * m
        if ce == be:
            i, ce = i + 1, 1
        if cs == bs:
            j, cs = j + 1, 1
    return i == len(E) and j == len(S)


def prod(xs):
    r = 1
    for x in xs:
        r = r * x
    return r
