"""Contracts for snaxc/dialects/snax_stream.py and snaxc/util/pack_bitlist.py (C19, C02, C08)."""
from pyvc.api import check, contract, implies

from contracts.specs import coalesces_stream
from snaxc.dialects.snax_stream import StridePattern


def ubs(p):
    return [x.data for x in p.upper_bounds.data]


def tss(p):
    return [x.data for x in p.temporal_strides.data]


def sss(p):
    return [x.data for x in p.spatial_strides.data]


@contract
class StridePattern_canonicalize:
    """canonicalisation of a streamer stride pattern yields the same address stream, and is idempotent"""
    target = "snaxc.dialects.snax_stream.StridePattern.canonicalize"
    shapes = [dict(n=n, nss=s) for n in range(0, 7) for s in (1, 2) if not (n >= 5 and s == 2)]
    quick = lambda sh: sh["n"] <= 4
    total = True

    def args(sh, sym):
        ub = [sym.int(f"ub{k}", 0) for k in range(sh["n"])]
        ts = [sym.int(f"ts{k}") for k in range(sh["n"])]
        ss = [sym.int(f"ss{k}") for k in range(sh["nss"])]
        return [StridePattern(ub, ts, ss)]

    def ensures(sh, a, ret):
        p = a[0]
        check("spatial strides untouched", sss(ret) == sss(p))
        if any(s == 0 for s in sss(p)):
            check("broadcast patterns (a zero spatial stride) are returned unchanged", ret is p)
        else:
            check("same address stream (coalesces_stream)", coalesces_stream(ubs(p), tss(p), ubs(ret), tss(ret)))
            check("bounds and strides stay paired", len(ubs(ret)) == len(tss(ret)))
        again = ret.canonicalize()
        check("idempotent", ubs(again) == ubs(ret) and tss(again) == tss(ret) and sss(again) == sss(ret))

    def canary(sh, a, ret):
        check("canary: length never shrinks", len(ubs(ret)) == sh["n"] and sh["n"] > 0)


# =====================================================================================
# snaxc/util/pack_bitlist.py  (bit-vector semantics of the emitted arith ops)
# =====================================================================================
import itertools  # noqa: E402

from pyvc.api import bv_and, bv_const, bv_eq, bv_lshr, bv_or, bv_shl, bv_ult, den, mk_ssa  # noqa: E402
from xdsl.dialects.builtin import IntegerType  # noqa: E402
from xdsl.ir import Operation, SSAValue  # noqa: E402

from snaxc.util.pack_bitlist import pack_bitlist  # noqa: E402


def _mixes():
    out = []
    for n in (1, 2, 3):
        for vm in itertools.product("is", repeat=n):
            out.append(dict(n=n, vals="".join(vm), offs="i" * n, w=32))
    out += [dict(n=2, vals="ss", offs="ss", w=32), dict(n=2, vals="is", offs="si", w=32), dict(n=1, vals="s", offs="s", w=64)]
    for n in (4, 5, 6, 7, 8):
        out.append(dict(n=n, vals="s" * n, offs="i" * n, w=32))
        out.append(dict(n=n, vals=("si" * n)[:n], offs="i" * n, w=64))
    return out


def set_bv_mode(on):
    import xdsl.dialects.arith as arith_mod
    if hasattr(arith_mod, "MODE"):
        arith_mod.MODE["bv"] = on


@contract
class pack_bitlist_contract:
    target = "snaxc.util.pack_bitlist.pack_bitlist"
    shapes = _mixes()
    quick = lambda sh: sh["n"] <= 5
    total = True
    compare_ret = False

    def args(sh, sym):
        set_bv_mode(True)
        w = sh["w"]
        vals, offs, raw = [], [], []
        for k in range(sh["n"]):
            v = sym.bv(f"v{k}", w)
            o = sym.int(f"o{k}", 0, w - 1)
            raw.append((v, o))
            vals.append(mk_ssa(v, IntegerType(w)) if sh["vals"][k] == "s" else v)
            offs.append(mk_ssa(bv_const(o, w), IntegerType(w)) if sh["offs"][k] == "s" else o)
        return [vals, offs, w, raw]

    def requires(sh, a):
        # python-int values/offsets exist only as concrete numbers in real callers; here they are symbolic words
        return True

    def run(sh, a):
        return list(pack_bitlist(a[0], a[1], a[2]))

    def ensures(sh, a, ret):
        vals, offs, w, raw = a
        check("at least one op", len(ret) >= 1)
        expected = bv_const(0, w)
        for v, o in raw:
            expected = bv_or(expected, bv_shl(v, o, w), w)
        check("last op denotes OR_i (v_i << o_i)", bv_eq(den(ret[-1]), expected, w))
        # def-before-use: every operand is an input value or the result of an earlier yielded op
        inputs = [x for x in vals + offs if isinstance(x, SSAValue)]
        ok = True
        for k, op in enumerate(ret):
            for operand in op.operands:
                ok = ok and (any(operand is i for i in inputs) or any(operand is r for e in ret[:k] for r in e.results))
        check("ops are yielded in def-before-use order", ok)
        # consequence stated by the property: disjoint fields that fit are recovered by shift-and-mask
        if sh["n"] == 2:
            (v0, o0), (v1, o1) = raw
            wd = 8
            fits = bv_ult(v0, 1 << wd, w) and bv_ult(v1, 1 << wd, w) and o0 + wd <= o1 and o1 + wd <= w
            check("disjoint fields are recovered by shift-and-mask",
                  implies(fits, bv_eq(bv_and(bv_lshr(den(ret[-1]), o1, w), (1 << wd) - 1, w), v1, w)
                          and bv_eq(bv_and(bv_lshr(den(ret[-1]), o0, w), (1 << wd) - 1, w), v0, w)))

    def canary(sh, a, ret):
        check("canary: packed word equals the first value", bv_eq(den(ret[-1]), a[3][0][0], a[2]))
