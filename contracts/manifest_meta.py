"""Texts for MANIFEST.json. CLAIMS: properties with a check; NOT_APPLICABLE: reason for the others."""

CLAIMS = {
    "C10": dict(
        text="Per-shape deductive proof (all integer steps/bounds/offsets for each enumerated rank x tile depth x dynamic variant) that the TSL functions under contract satisfy postconditions taken from the property (same index->address function); obligations generated from the real source by symbolic execution and discharged by z3/cvc5. Shape-bounded, not unbounded; print/parse and numpy-unique predicates are bounded stand-ins and not counted as proved.",
        note="Trusted: the pyvc VC generator and its Python-semantics encoding (guarded by CPython differential and canaries), z3/cvc5, the paper lemma linking the checker predicate `coalesces` to equality of address functions, numpy stub (SymArray).",
        design_ref="DESIGN.md section 3 C10",
    ),
}

CLAIMS.update({
    "C03": dict(
        text="Deductive proof from the real source: (a) per shape (operands<=3 x results<=3 x dims<=5, every dim argument; ALL integer matrices, offsets, bounds, tile sizes) rotate/tile_dim/add_dim/inner_dims/canonicalize/clear_unused_dims are bijections of iteration boxes commuting with every operand map (witness form, incl. the tile_dim precondition bounds[d] % tb == 0); (b) UNBOUNDED modular proof of scheduler_backtrack (symbolic number of dims, loop cut with invariant, recursion through its own contract): every yielded schedule is iteration-equivalent to the input and every call-site precondition (rotate range, tile_dim divisibility, index ranges) holds. from_affine_map refuses non-linear maps. A native end-to-end run on enumerated concrete schedules is a bounded stand-in (also the replay search), not counted as proved.",
        note="Trusted: pyvc VC generator + encoding (CPython differential, canaries), z3/cvc5, numpy stub SymArray, xdsl affine classes interpreted from their own source, paper lemma 'bijection commuting with operand maps => same multiset', the abstract rotate/tile_dim/inner_dims contracts restate the per-shape ones. Not covered: AutoflowScheduler IR plumbing, get_static_pattern_bounds.",
        design_ref="DESIGN.md section 3 C03",
    ),
    "C09": dict(
        text="Deductive proof from the real source: ensure_access_granularity UNBOUNDED (all strides/dims, 4 element widths): padding never decreases a stride, keeps unit strides, meets the granularity, pads < 64; AddCyclicMemoryLayout.match_and_rewrite executed as a whole through a view of dart.ScheduleOp (schedule dims<=3 x operand rank<=2, tiled and non-tiled, ALL integer bounds/coefficients/shapes satisfying the stated validity predicate): every chosen layout covers exactly the shape (product of tile bounds) and is one-to-one (steps super-increasing in assignment order); explicit layouts are left untouched. Counter-models replay on the real pattern through a real PatternRewriter.",
        note="Trusted: as C03 plus the irdl/rewriter stubs (view), the paper lemma super-increasing => injective, spatial_dims() assumed, TiledStridedLayout.canonicalize used through its C10 contract. Validity precondition of schedules (non-negative coefficients, each loop indexes <=1 operand dim, box covers the operand) is an assumption stated in evidence.",
        design_ref="DESIGN.md section 3 C09",
    ),
    "C16": dict(
        text="Deductive proof from the real source: UNBOUNDED modular proof of scheduler_backtrack that for an arbitrary level j of every yielded schedule the template matched, every extra check held on the inner-j view and the bound does not exceed a static template bound (ghost level, frame clauses of rotate/tile_dim proved per shape); the three constraint predicates are proved equal to first-order specifications per shape (all integer matrices). TemplatePattern.matches (float SVD) is a bounded stand-in against an exact rational row-space oracle, not counted as proved.",
        note="Trusted: as C03; matches()/extra checks are uninterpreted predicates of the inner view in the modular proof; SVD-based matching is only bounded.",
        design_ref="DESIGN.md section 3 C16",
    ),
    "C19": dict(
        text="Deductive proof from the real source, per shape with ALL integer values: AffineTransform eval/compose/from_affine_map/to_affine_map (xdsl's affine classes interpreted from their source), AccessPattern.canonicalize/inner_dims, StridePattern.canonicalize for lengths 0..6 (same address stream via coalesces_stream, idempotent, spatial strides untouched), pack_bitlist in exact bit-vector semantics for 1..8 fields (OR of shifts, def-before-use, field recovery). canonicalize_affine on expressions and attribute print/parse are bounded stand-ins (enumeration + random), not counted as proved.",
        note="Trusted: as C03 plus arith op denotations (bit-vector mode), paper lemma coalesces_stream => identical address sequence. canonicalize_affine.py is currently only bounded (ADT-based unbounded proof planned).",
        design_ref="DESIGN.md section 3 C19",
    ),
})

CLAIMS.update({
    "C11": dict(
        text="Deductive proof from the real source: AllocOpRewrite.match_and_rewrite as a whole (view of memref.alloc, real get_bound_ops/get_step_ops, IR-term denotation): for every element (witness digits) of every enumerated layout shape (row-major rank<=4; TSL rank x depth <=4 incl. dynamic outer bounds/steps, offsets, 3 element widths) the element's last byte lies inside den(size operand of snax.alloc), for ALL integer steps/bounds/offsets/run-time sizes; StaticAllocs.match_and_rewrite UNBOUNDED as a data-structure invariant with ghost history (aligned, monotone, minimal padding, inside the window, bump == end of range, raising only when the aligned request does not fit) from which disjointness of all ranges follows by induction; create_memref_struct positions. Counter-models replay on real xDSL ops.",
        note="Trusted: as C03 plus arith denotations and irdl/rewriter/llvm stubs; the induction 'invariant => all ranges ever handed out are disjoint' is a paper lemma. NOT covered: MiniMallocate (lifetimes through casts/nested uses; its solver minimalloc is not installed) and DynamicAllocs (C runtime) - the 'never handed to another buffer while live' clause is therefore only covered for the static mode, where nothing is ever freed.",
        design_ref="DESIGN.md section 3 C11",
    ),
    "C17": dict(
        text="Deductive proof from the real source, UNBOUNDED over loop bounds/steps: ChangeForStep keeps the trip count and the index value of every iteration (semantic clause over the block argument's run-time value), or does not rewrite; MergeForLoops: merged bound = ub*ub_parent, indices rebuilt as k div ub / k mod ub, the lexicographic bijection lemma (NIA), inner body inlined, and every side-effecting op executes as often as before (fails on the unchanged tree: known finding F14); get_subview_dim (nested function, mechanically extracted) returns the size operand of the queried dimension for all static/dynamic masks up to rank 4.",
        note="Trusted: as C03 plus scf/arith stubs, ghost 'impure' flag for ops. NOT covered: LoopHoistPureOperations and the rest of MoveMemrefDims (movement legality is a dominance question on the IR).",
        design_ref="DESIGN.md section 3 C17",
    ),
    "C07": dict(
        text="Deductive proof from the real source of the LOCAL SOUNDNESS CONDITIONS of the must-analysis (post-fixpoint characterisation): state_intersection, infer_state_of for each owner kind (setup with/without incoming state, scf.if result, scf.for result, loop-carried block argument, other block argument; recursive calls through the function's own contract with arbitrary symbolic states), calc_if_state_delta (incl. its mutation frame), has_accfg_effects (structural recursion through its own contract). States are maps over a small field universe with SYMBOLIC presence and SSA-value identities. The loop-head condition fails on the unchanged tree (known finding F01); the zero-trip loop-result condition was repaired (fix).",
        note="Trusted: the paper lemma 'local conditions at every state-typed value => the assumed state is a subset of the real state on every execution'; pointwise-in-the-field argument for the 2..3-field universe; SSA identity modelled by symbolic tags. NOT covered: _weave_states_in_region (IR plumbing that threads the states; effects nested in regions).",
        design_ref="DESIGN.md section 3 C07",
    ),
    "C01": dict(
        text="Deductive proof from the real source, per shape with symbolic field names/values/states: each dedup rewrite preserves the register file after the rewritten setups GIVEN a sound inferred state (C07): SimplifyRedundantSetupCalls (registers after the reduced setup == after the original, same accelerator and incoming state, never rewrites when nothing is dropped), MergeSetupOps (only same-accelerator setups with side-effect-free ops in between; merged == sequential composition), ElideEmptySetupOps, PullSetupOpsOutOfLoops (a field is hoisted only if EVERY setup in the loop, nested ones included, writes the same value defined outside the loop; hoisted setup chained on the loop's initial state) and the region walk it relies on. Inherits C07's loop-head finding F01.",
        note="Trusted: register semantics rho (+) params; is_valid(setup): each field named at most once (the form every lowering emits); val_is_defined_in_block and is_side_effect_free are ghost flags; the composition over the greedy driver and HoistSetupCallsIntoConditionals' legality test are NOT covered (paper argument only).",
        design_ref="DESIGN.md section 3 C01",
    ),
    "C08": dict(
        text="Deductive proof from the real source over an ENUMERATED family of configuration structures with all stride-pattern contents, pointers, zero-operand flags and kernel attributes SYMBOLIC: for SNAXStreamer (all flag words for <=3 temporal dims x 1..2 spatial x every subset of {a,c,b,t}; single non-n flags for 4..6 dims; multi-streamer structures), xDMA (7 configurations x 4 kernel bodies x zero-operand variants), GEMMX (7 kernel bodies x n in {4,8,16}; streamer part through its own contract; bit-packing in exact bit-vector semantics; K*N*M == steps of the A stream), ALU and HWPE: exactly one value per declared field, in the declared order, each with the meaning the field name states (padding with bound 1 / stride 0, reuse collapse).",
        note="Trusted: the oracle is the field NAME (and the comments in the gemmx field list); views of StreamingRegionOp / dart.generic / kernel ops through the irdl stub; 32-bit words for packing, other constants mathematical. Open findings F08 (xDMA enabled_chan), F10 (hwpe naming swap), F17 (alu multi-dim loop bound); four defects repaired by fix commits. PHS switch values are NOT covered.",
        design_ref="DESIGN.md section 3 C08",
    ),
    "C04": dict(
        text="Deductive proof from the real source: register maps of alu (4 option variants), gemmx (n in {4,8,16}), xdma, hwpe are total on the declared fields and injective incl. barrier and the two reserved status registers; the address helpers hand out consecutive registers from ANY (symbolic) base address, xDMA's multicast window holds no field; lower_acc_setup/launch emit exactly one CSR write per field to its declared (symbolic) address in program order (index values through one cast); the four await lowerings access the declared barrier/launch registers; RoCC create_pairs / combine_pairs_to_ops / lower_acc_setup give every instruction the values in effect for both source fields (previous state through infer_state_of's contract; raising only when a partner is unknown); DeleteAllStates drops exactly the state-typed operands/results and keeps the others' order and result mapping.",
        note="Trusted: event semantics of inline asm csrw/csrr; set iteration order (sorted) for RoCC instruction sets; RoCC soundness inherits C07 (finding F01). NOT covered: order of lowered ops relative to surrounding ops, block-argument erasure deferred to the driver's revisit, gemmx channel-wise launch variant, PHS.",
        design_ref="DESIGN.md section 3 C04",
    ),
})

_PENDING = "check not built yet in this round (planned in DESIGN.md section 3); not claimed"
NOT_APPLICABLE = {f"C{i:02d}": _PENDING for i in range(1, 21)}
NOT_APPLICABLE.update({
    "C06": "setup/compute overlap only moves and clones operations in a mutable xDSL IR; correctness is SSA dominance + trace equivalence of two IR programs. No arithmetic or dictionary core to put under contract; needs a heap model of xDSL IR with frame conditions on PatternRewriter - outside what a VC generator over integers, sequences and maps can carry (DESIGN.md section 4)",
    "C13": "quantifies over all paths of an IR walk with a mutable worklist and over all interleavings of cores; no thread model in this technique family and no separable pure core. The one function-level clause (barriers are dispatched to no core) is proved under C14 (DESIGN.md section 4)",
    "C15": "concurrency under barriers plus region cloning with use-replacement closures; a stand-alone counting argument would be a model, not verification of the code (DESIGN.md section 4)",
    "C20": "object is an IR graph (PEOp/ChooseOp/MuxOp) mutated in place; the property needs an interpreter of that graph in the logic. The switch-count clause is proved under C08 (DESIGN.md section 4)",
})
