"""Texts for MANIFEST.json. CLAIMS: properties with a check; NOT_APPLICABLE: reason for the others."""

CLAIMS = {
    "C10": dict(
        text="Per-shape deductive proof (all integer steps/bounds/offsets for each enumerated rank x tile depth x dynamic variant) that the TSL functions under contract satisfy postconditions taken from the property (same index->address function); obligations generated from the real source by symbolic execution and discharged by z3/cvc5. Shape-bounded, not unbounded; print/parse and numpy-unique predicates are bounded stand-ins and not counted as proved.",
        note="Trusted: the pyvc VC generator and its Python-semantics encoding (guarded by CPython differential and canaries), z3/cvc5, the paper lemma linking the checker predicate `coalesces` to equality of address functions, numpy stub (SymArray).",
        design_ref="DESIGN.md section 3 C10",
    ),
}

CLAIMS.update({
    "C03": dict(
        text="Deductive proof from the real source: (a) per shape (operands<=3 x results<=3 x dims<=5, every dim argument; ALL integer matrices, offsets, bounds, tile sizes) rotate/tile_dim/add_dim/inner_dims/canonicalize/clear_unused_dims are bijections of iteration boxes commuting with every operand map (witness form, incl. the tile_dim precondition bounds[d] % tb == 0); (b) UNBOUNDED modular proof of scheduler_backtrack (symbolic number of dims, loop cut with invariant, recursion through its own contract): every yielded schedule is iteration-equivalent to the input and every call-site precondition (rotate range, tile_dim divisibility, index ranges) holds. from_affine_map refuses non-linear maps. A native end-to-end run on enumerated concrete schedules is a bounded stand-in (also the replay search), not counted as proved.",
        note="Trusted: pyvc VC generator + encoding (CPython differential, canaries), z3/cvc5, numpy stub SymArray, xdsl affine classes interpreted from their own source, paper lemma 'bijection commuting with operand maps => same multiset', the abstract rotate/tile_dim/inner_dims contracts restate the per-shape ones. Not covered: AutoflowScheduler IR plumbing, get_static_pattern_bounds.",
        design_ref="DESIGN.md section 3 C03",
    ),
    "C09": dict(
        text="Deductive proof from the real source: ensure_access_granularity UNBOUNDED (all strides/dims, 4 element widths): padding never decreases a stride, keeps unit strides, meets the granularity, pads < 64; AddCyclicMemoryLayout.match_and_rewrite executed as a whole through a view of dart.ScheduleOp (schedule dims<=3 x operand rank<=2, tiled and non-tiled, ALL integer bounds/coefficients/shapes satisfying the stated validity predicate): every chosen layout covers exactly the shape (product of tile bounds) and is one-to-one (steps super-increasing in assignment order); explicit layouts are left untouched. Counter-models replay on the real pattern through a real PatternRewriter.",
        note="Trusted: as C03 plus the irdl/rewriter stubs (view), the paper lemma super-increasing => injective, spatial_dims() assumed, TiledStridedLayout.canonicalize used through its C10 contract. Validity precondition of schedules (non-negative coefficients, each loop indexes <=1 operand dim, box covers the operand) is an assumption stated in evidence.",
        design_ref="DESIGN.md section 3 C09",
    ),
    "C16": dict(
        text="Deductive proof from the real source: UNBOUNDED modular proof of scheduler_backtrack that for an arbitrary level j of every yielded schedule the template matched, every extra check held on the inner-j view and the bound does not exceed a static template bound (ghost level, frame clauses of rotate/tile_dim proved per shape); the three constraint predicates are proved equal to first-order specifications per shape (all integer matrices). TemplatePattern.matches (float SVD) is a bounded stand-in against an exact rational row-space oracle, not counted as proved.",
        note="Trusted: as C03; matches()/extra checks are uninterpreted predicates of the inner view in the modular proof; SVD-based matching is only bounded.",
        design_ref="DESIGN.md section 3 C16",
    ),
    "C19": dict(
        text="Deductive proof from the real source, per shape with ALL integer values: AffineTransform eval/compose/from_affine_map/to_affine_map (xdsl's affine classes interpreted from their source), AccessPattern.canonicalize/inner_dims, StridePattern.canonicalize for lengths 0..6 (same address stream via coalesces_stream, idempotent, spatial strides untouched), pack_bitlist in exact bit-vector semantics for 1..8 fields (OR of shifts, def-before-use, field recovery). canonicalize_affine on expressions and attribute print/parse are bounded stand-ins (enumeration + random), not counted as proved.",
        note="Trusted: as C03 plus arith op denotations (bit-vector mode), paper lemma coalesces_stream => identical address sequence. canonicalize_affine.py is currently only bounded (ADT-based unbounded proof planned).",
        design_ref="DESIGN.md section 3 C19",
    ),
})

_PENDING = "check not built yet in this round (planned in DESIGN.md section 3); not claimed"
NOT_APPLICABLE = {f"C{i:02d}": _PENDING for i in range(1, 21)}
NOT_APPLICABLE.update({
    "C06": "setup/compute overlap only moves and clones operations in a mutable xDSL IR; correctness is SSA dominance + trace equivalence of two IR programs. No arithmetic or dictionary core to put under contract; needs a heap model of xDSL IR with frame conditions on PatternRewriter - outside what a VC generator over integers, sequences and maps can carry (DESIGN.md section 4)",
    "C13": "quantifies over all paths of an IR walk with a mutable worklist and over all interleavings of cores; no thread model in this technique family and no separable pure core. The one function-level clause (barriers are dispatched to no core) is proved under C14 (DESIGN.md section 4)",
    "C15": "concurrency under barriers plus region cloning with use-replacement closures; a stand-alone counting argument would be a model, not verification of the code (DESIGN.md section 4)",
    "C20": "object is an IR graph (PEOp/ChooseOp/MuxOp) mutated in place; the property needs an interpreter of that graph in the logic. The switch-count clause is proved under C08 (DESIGN.md section 4)",
})
