"""Texts for MANIFEST.json. CLAIMS: properties with a check; NOT_APPLICABLE: reason for the others."""

CLAIMS = {
    "C10": dict(
        text="Per-shape deductive proof (all integer steps/bounds/offsets for each enumerated rank x tile depth x dynamic variant) that the TSL functions under contract satisfy postconditions taken from the property (same index->address function); obligations generated from the real source by symbolic execution and discharged by z3/cvc5. Shape-bounded, not unbounded; print/parse and numpy-unique predicates are bounded stand-ins and not counted as proved.",
        note="Trusted: the pyvc VC generator and its Python-semantics encoding (guarded by CPython differential and canaries), z3/cvc5, the paper lemma linking the checker predicate `coalesces` to equality of address functions, numpy stub (SymArray).",
        design_ref="DESIGN.md section 3 C10",
    ),
}

CLAIMS.update({
    "C03": dict(
        text="Deductive proof from the real source: (a) per shape (operands<=3 x results<=3 x dims<=5, every dim argument; ALL integer matrices, offsets, bounds, tile sizes) rotate/tile_dim/add_dim/inner_dims/canonicalize/clear_unused_dims are bijections of iteration boxes commuting with every operand map (witness form, incl. the tile_dim precondition bounds[d] % tb == 0); (b) UNBOUNDED modular proof of scheduler_backtrack (symbolic number of dims, loop cut with invariant, recursion through its own contract): every yielded schedule is iteration-equivalent to the input and every call-site precondition (rotate range, tile_dim divisibility, index ranges) holds. from_affine_map refuses non-linear maps. A native end-to-end run on enumerated concrete schedules is a bounded stand-in (also the replay search), not counted as proved.",
        note="Trusted: pyvc VC generator + encoding (CPython differential, canaries), z3/cvc5, numpy stub SymArray, xdsl affine classes interpreted from their own source, paper lemma 'bijection commuting with operand maps => same multiset', the abstract rotate/tile_dim/inner_dims contracts restate the per-shape ones. Not covered: AutoflowScheduler IR plumbing, get_static_pattern_bounds.",
        design_ref="DESIGN.md section 3 C03",
    ),
    "C09": dict(
        text="Deductive proof from the real source: ensure_access_granularity UNBOUNDED (all strides/dims, 4 element widths): padding never decreases a stride, keeps unit strides, meets the granularity, pads < 64; AddCyclicMemoryLayout.match_and_rewrite executed as a whole through a view of dart.ScheduleOp (schedule dims<=3 x operand rank<=2, tiled and non-tiled, ALL integer bounds/coefficients/shapes satisfying the stated validity predicate): every chosen layout covers exactly the shape (product of tile bounds) and is one-to-one (steps super-increasing in assignment order); explicit layouts are left untouched. Counter-models replay on the real pattern through a real PatternRewriter.",
        note="Trusted: as C03 plus the irdl/rewriter stubs (view), the paper lemma super-increasing => injective, spatial_dims() assumed, TiledStridedLayout.canonicalize used through its C10 contract. Validity precondition of schedules (non-negative coefficients, each loop indexes <=1 operand dim, box covers the operand) is an assumption stated in evidence.",
        design_ref="DESIGN.md section 3 C09",
    ),
    "C16": dict(
        text="Deductive proof from the real source: UNBOUNDED modular proof of scheduler_backtrack that for an arbitrary level j of every yielded schedule the template matched, every extra check held on the inner-j view and the bound does not exceed a static template bound (ghost level, frame clauses of rotate/tile_dim proved per shape); the three constraint predicates are proved equal to first-order specifications per shape (all integer matrices). TemplatePattern.matches (float SVD) is a bounded stand-in against an exact rational row-space oracle, not counted as proved.",
        note="Trusted: as C03; matches()/extra checks are uninterpreted predicates of the inner view in the modular proof; SVD-based matching is only bounded.",
        design_ref="DESIGN.md section 3 C16",
    ),
    "C19": dict(
        text="Deductive proof from the real source, per shape with ALL integer values: AffineTransform eval/compose/from_affine_map/to_affine_map (xdsl's affine classes interpreted from their source), AccessPattern.canonicalize/inner_dims, StridePattern.canonicalize for lengths 0..6 (same address stream via coalesces_stream, idempotent, spatial strides untouched), pack_bitlist in exact bit-vector semantics for 1..8 fields (OR of shifts, def-before-use, field recovery). canonicalize_affine on expressions and attribute print/parse are bounded stand-ins (enumeration + random), not counted as proved.",
        note="Trusted: as C03 plus arith op denotations (bit-vector mode), paper lemma coalesces_stream => identical address sequence. canonicalize_affine.py is currently only bounded (ADT-based unbounded proof planned).",
        design_ref="DESIGN.md section 3 C19",
    ),
})

CLAIMS.update({
    "C11": dict(
        text="Deductive proof from the real source: AllocOpRewrite.match_and_rewrite as a whole (view of memref.alloc, real get_bound_ops/get_step_ops, IR-term denotation): for every element (witness digits) of every enumerated layout shape (row-major rank<=4; TSL rank x depth <=4 incl. dynamic outer bounds/steps, offsets, 3 element widths) the element's last byte lies inside den(size operand of snax.alloc), for ALL integer steps/bounds/offsets/run-time sizes; StaticAllocs.match_and_rewrite UNBOUNDED as a data-structure invariant with ghost history (aligned, monotone, minimal padding, inside the window, bump == end of range, raising only when the aligned request does not fit) from which disjointness of all ranges follows by induction; create_memref_struct positions; MiniMallocate.match_and_rewrite as a whole over a view of the function body (uses through the cast and nested 0..3 region levels): the lifetime handed to the solver reaches the top-level op holding the LAST use, so - under the ASSUMED contract of minimalloc's Problem.solve() - simultaneously live buffers get disjoint ranges inside the memory window and the dealloc is placed after the last use. Counter-models replay on real xDSL ops where the contract is native.",
        note="Trusted: as C03 plus arith denotations and irdl/rewriter/llvm stubs; the induction 'invariant => all ranges ever handed out are disjoint' is a paper lemma. ASSUMED (unchecked): the contract of the external minimalloc solver (not installed here; stub pyvc/stubs_src/minimalloc.py states it), so the MiniMallocate contract has no native replay. NOT covered: DynamicAllocs (C runtime), uses of a buffer through values other than the alloc result and its unrealized cast (e.g. subviews of the cast: MiniMallocate itself does not follow them).",
        design_ref="DESIGN.md section 3 C11",
    ),
    "C17": dict(
        text="Deductive proof from the real source, UNBOUNDED over loop bounds/steps: ChangeForStep keeps the trip count and the index value of every iteration (semantic clause over the block argument's run-time value), or does not rewrite; MergeForLoops: merged bound = ub*ub_parent, indices rebuilt as k div ub / k mod ub, the lexicographic bijection lemma (NIA), inner body inlined, and every side-effecting op executes as often as before (fails on the unchanged tree: known finding F14); get_subview_dim (nested function, mechanically extracted) returns the size operand of the queried dimension for all static/dynamic masks up to rank 4.",
        note="Trusted: as C03 plus scf/arith stubs, ghost 'impure' flag for ops. NOT covered: LoopHoistPureOperations and the rest of MoveMemrefDims (movement legality is a dominance question on the IR).",
        design_ref="DESIGN.md section 3 C17",
    ),
    "C07": dict(
        text="Deductive proof from the real source of the LOCAL SOUNDNESS CONDITIONS of the must-analysis (post-fixpoint characterisation): state_intersection, infer_state_of for each owner kind (setup with/without incoming state, scf.if result, scf.for result, loop-carried block argument, other block argument; recursive calls through the function's own contract with arbitrary symbolic states), calc_if_state_delta (incl. its mutation frame), has_accfg_effects (structural recursion through its own contract). States are maps over a small field universe with SYMBOLIC presence and SSA-value identities. The loop-head condition fails on the unchanged tree (known finding F01); the zero-trip loop-result condition was repaired (fix). _weave_states_in_region (the IR plumbing that threads the states) is under a transfer-function contract over truth maps for the op kinds setup / scf.if / other region op / effecting op / plain op (recursion through its own contract): a state is only threaded into a setup when it is the true reaching state; two defects found there were repaired (fix).",
        note="Trusted: the paper lemma 'local conditions at every state-typed value => the assumed state is a subset of the real state on every execution'; pointwise-in-the-field argument for the 2..3-field universe; SSA identity modelled by symbolic tags. NOT covered: the scf.for case of _weave_states_in_region (in-place mutation of operands/results of the loop).",
        design_ref="DESIGN.md section 3 C07",
    ),
    "C01": dict(
        text="Deductive proof from the real source, per shape with symbolic field names/values/states: each dedup rewrite preserves the register file after the rewritten setups GIVEN a sound inferred state (C07): SimplifyRedundantSetupCalls (registers after the reduced setup == after the original, same accelerator and incoming state, never rewrites when nothing is dropped), MergeSetupOps (only same-accelerator setups with side-effect-free ops in between; merged == sequential composition), ElideEmptySetupOps, PullSetupOpsOutOfLoops (a field is hoisted only if EVERY setup in the loop, nested ones included, writes the same value defined outside the loop; hoisted setup chained on the loop's initial state) and the region walk it relies on. Inherits C07's loop-head finding F01.",
        note="Trusted: register semantics rho (+) params; is_valid(setup): each field named at most once (the form every lowering emits); val_is_defined_in_block and is_side_effect_free are ghost flags; the composition over the greedy driver and HoistSetupCallsIntoConditionals' legality test are NOT covered (paper argument only).",
        design_ref="DESIGN.md section 3 C01",
    ),
    "C08": dict(
        text="Deductive proof from the real source over an ENUMERATED family of configuration structures with all stride-pattern contents, pointers, zero-operand flags and kernel attributes SYMBOLIC: for SNAXStreamer (all flag words for <=3 temporal dims x 1..2 spatial x every subset of {a,c,b,t}; single non-n flags for 4..6 dims; multi-streamer structures), xDMA (7 configurations x 4 kernel bodies x zero-operand variants), GEMMX (7 kernel bodies x n in {4,8,16}; streamer part through its own contract; bit-packing in exact bit-vector semantics; K*N*M == steps of the A stream), ALU and HWPE: exactly one value per declared field, in the declared order, each with the meaning the field name states (padding with bound 1 / stride 0, reuse collapse).",
        note="Trusted: the oracle is the field NAME (and the comments in the gemmx field list); views of StreamingRegionOp / dart.generic / kernel ops through the irdl stub; 32-bit words for packing, other constants mathematical. Open findings F08 (xDMA enabled_chan), F10 (hwpe naming swap), F17 (alu multi-dim loop bound); four defects repaired by fix commits. PHS switch values are NOT covered.",
        design_ref="DESIGN.md section 3 C08",
    ),
    "C04": dict(
        text="Deductive proof from the real source: register maps of alu (4 option variants), gemmx (n in {4,8,16}), xdma, hwpe are total on the declared fields and injective incl. barrier and the two reserved status registers; the address helpers hand out consecutive registers from ANY (symbolic) base address, xDMA's multicast window holds no field; lower_acc_setup/launch emit exactly one CSR write per field to its declared (symbolic) address in program order (index values through one cast); the four await lowerings access the declared barrier/launch registers; RoCC create_pairs / combine_pairs_to_ops / lower_acc_setup give every instruction the values in effect for both source fields (previous state through infer_state_of's contract; raising only when a partner is unknown); DeleteAllStates drops exactly the state-typed operands/results and keeps the others' order and result mapping.",
        note="Trusted: event semantics of inline asm csrw/csrr; set iteration order (sorted) for RoCC instruction sets; RoCC soundness inherits C07 (finding F01). NOT covered: order of lowered ops relative to surrounding ops, block-argument erasure deferred to the driver's revisit, gemmx channel-wise launch variant, PHS.",
        design_ref="DESIGN.md section 3 C04",
    ),
})

CLAIMS.update({
    "C02": dict(
        text="Deductive proof from the real source of the two arithmetic stages of the chain schedule -> byte access pattern -> streamer registers, each as a WHOLE rewrite method through views: LayoutResolution (default, strided and tile-aligned tiled-strided layouts; all integer schedule coefficients/bounds/strides): the extracted unit-response strides reproduce the byte address of every scheduled element on the whole iteration box; ConvertStreamToSnaxStreamPattern for the operands of the registered accelerators (gemmx A/B/D8/D32/C, alu, xdma; concrete iteration bounds, ALL byte strides): the (ub, ts, ss) configuration enumerates in 8-byte words exactly the byte sequence of the scheduled elements (same_nest checker), shipped shapes must not be rejected; StridePattern.canonicalize (C19) and get_affine_map (C10) re-proved as dependencies.",
        note="Trusted: paper lemma same_nest => same address sequence; xdsl's MemRefType/StridedLayoutAttr.get_affine_map mirrored in the stub; accelerator template/streamer plumbing assumed; hardware broadcast mode excluded. Open findings F06 (strided layouts with offset) and F05 (TSL offset). NOT covered: accelerator-specific set_stride_patterns, dynamic shapes, that the base pointer includes the layout offset.",
        design_ref="DESIGN.md section 3 C02",
    ),
    "C05": dict(
        text="Deductive proof from the real source: TransformDMA.match_and_rewrite executed as a WHOLE (views of memref.copy with default / strided / tiled-strided layouts, real largest_common_contiguous_block, get_bound_ops, get_step_ops, get_total_size_op; the emitted scf.for nest binds block arguments to run-time symbols so the recorded DMA call's operands are the symbolic transfer family): for every element (witness digits) there are loop indices / a repetition / a burst offset reading it at its source address and writing it at its destination address (offsets and element size included); inside a burst source and destination offsets agree; the burst is exactly the common contiguous block; every loop and the repeat count range over the bound of exactly one (dim, depth). Rank x depth <= 2 for all layout pairs plus 3- and 4-level nests with a single-element block; all steps/bounds/offsets/pointers symbolic. Helper contracts: get_total_size_op, MatchSimpleCopy, extract_strides/extract_offset, and C10's block / bound / step contracts.",
        note="Trusted: DMA semantics of snax_dma_1d/2d_transfer (runtime/include/snax_rt.h); func/scf/memref stubs; the identification of loop levels by the identity of the recorded bound ops (ghost observation of get_bound_ops/get_step_ops). One defect repaired (F13). NOT covered: dynamic shapes/offsets in TransformDMA, the dynamic-stride equality in the common block (observation).",
        design_ref="DESIGN.md section 3 C05",
    ),
    "C12": dict(
        text="NARROW: only the compile-time re-layout clause. Deductive proof per shape (all contents) that RemoveTransposeConstants.transpose_tuple, as called, is the row-major transpose; transform_constant (numpy frombuffer/reshape/transpose/argsort) is a bounded stand-in over every dense static layout of an enumerated family (each logical value at the address the new layout prescribes), not counted as proved.",
        note="Everything about where copies are placed, which memory space values live in and function boundaries (the larger part of the property) is NOT covered: it is IR plumbing of RealizeMemrefCasts / SetMemorySpace.",
        design_ref="DESIGN.md section 3 C12",
    ),
    "C14": dict(
        text="Deductive proof from the real source: dispatch_to_dm / dispatch_to_compute on views of every op kind (copy, linalg.generic, cluster barrier, other, streaming regions of an xDMA / a compute accelerator with each kernel body; the real XDMA_EXT_SET): never both cores, data movement to the data mover, compute to the compute core, barriers and other ops to neither; DispatchRegionsRewriter.match_and_rewrite as a WHOLE (rules through their contract as symbolic flags; blocks of 1..3 ops, a nested region, two blocks; 2..3 cores): every op is guarded exactly when a rule names a core for it, at most once, by a comparison of the one core-id call with the constant of its core, original order kept inside each guard, pin_to_constants == 0..nb_cores-1.",
        note="Trusted: the rewriter stub is a recorder (detach/insert are not performed), so the second (compute) walk sees the original structure; relative order ACROSS guards and the function-constant-pinning pass are not covered. One defect repaired (F18, multi-block functions).",
        design_ref="DESIGN.md section 3 C14",
    ),
    "C18": dict(
        text="Deductive proof from the real source: SupportedKernel.is_same_kernel (iff, symbolic widths), DispatchTemplatePattern (dispatched => some declared kernel matches class AND operand types; fails on the unchanged tree: known finding F03), LowerLinalgBody (only a body of exactly one kernel op is expanded, into that kernel's equivalent region), check_kernel_equivalence in exact bit-vector semantics with SYMBOLIC wiring (accepted => same function of all inputs; fails on the unchanged tree: known finding F04).",
        note="Trusted: bit-vector denotations of arith ops; builder stub (implicit region). NOT covered: LowerRescale (no in-repo specification of kernel.rescale), convert_tosa_to_kernel, ParseLinalgBody's plumbing.",
        design_ref="DESIGN.md section 3 C18",
    ),
})

_PENDING = "check not built yet in this round (planned in DESIGN.md section 3); not claimed"
NOT_APPLICABLE = {f"C{i:02d}": _PENDING for i in range(1, 21)}
NOT_APPLICABLE.update({
    "C06": "setup/compute overlap only moves and clones operations in a mutable xDSL IR; correctness is SSA dominance + trace equivalence of two IR programs. No arithmetic or dictionary core to put under contract; needs a heap model of xDSL IR with frame conditions on PatternRewriter - outside what a VC generator over integers, sequences and maps can carry (DESIGN.md section 4)",
    "C13": "quantifies over all paths of an IR walk with a mutable worklist and over all interleavings of cores; no thread model in this technique family and no separable pure core. The one function-level clause (barriers are dispatched to no core) is proved under C14 (DESIGN.md section 4)",
    "C15": "concurrency under barriers plus region cloning with use-replacement closures; a stand-alone counting argument would be a model, not verification of the code (DESIGN.md section 4)",
    "C20": "object is an IR graph (PEOp/ChooseOp/MuxOp) mutated in place; the property needs an interpreter of that graph in the logic. The switch-count clause is proved under C08 (DESIGN.md section 4)",
})
