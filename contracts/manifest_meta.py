"""Texts for MANIFEST.json. CLAIMS: properties with a check; NOT_APPLICABLE: reason for the others."""

CLAIMS = {
    "C10": dict(
        text="Per-shape deductive proof (all integer steps/bounds/offsets for each enumerated rank x tile depth x dynamic variant) that the TSL functions under contract satisfy postconditions taken from the property (same index->address function); obligations generated from the real source by symbolic execution and discharged by z3/cvc5. Shape-bounded, not unbounded; print/parse and numpy-unique predicates are bounded stand-ins and not counted as proved.",
        note="Trusted: the pyvc VC generator and its Python-semantics encoding (guarded by CPython differential and canaries), z3/cvc5, the paper lemma linking the checker predicate `coalesces` to equality of address functions, numpy stub (SymArray).",
        design_ref="DESIGN.md section 3 C10",
    ),
}

_PENDING = "check not built yet in this round (planned in DESIGN.md section 3); not claimed"
NOT_APPLICABLE = {f"C{i:02d}": _PENDING for i in range(1, 21)}
NOT_APPLICABLE.update({
    "C06": "setup/compute overlap only moves and clones operations in a mutable xDSL IR; correctness is SSA dominance + trace equivalence of two IR programs. No arithmetic or dictionary core to put under contract; needs a heap model of xDSL IR with frame conditions on PatternRewriter - outside what a VC generator over integers, sequences and maps can carry (DESIGN.md section 4)",
    "C13": "quantifies over all paths of an IR walk with a mutable worklist and over all interleavings of cores; no thread model in this technique family and no separable pure core. The one function-level clause (barriers are dispatched to no core) is proved under C14 (DESIGN.md section 4)",
    "C15": "concurrency under barriers plus region cloning with use-replacement closures; a stand-alone counting argument would be a model, not verification of the code (DESIGN.md section 4)",
    "C20": "object is an IR graph (PEOp/ChooseOp/MuxOp) mutated in place; the property needs an interpreter of that graph in the logic. The switch-count clause is proved under C08 (DESIGN.md section 4)",
})
