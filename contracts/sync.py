"""Contract for C13 (placement clause): InsertSyncBarrier.apply puts a cluster barrier on every execution path between
two operations on different cores that touch the same buffer in a conflicting way.

The pass is run as a whole on views of small modules (real memref.copy / linalg.generic / snax.cluster_sync_op classes,
the real dispatching rules).  The contract replays the recorded insertions into the module, enumerates the execution
traces of the result (loop bodies 0, 1 and 2 times - two iterations expose every back-edge pair -, a conditional region
taken or not) and checks the happens-before condition on every trace."""
from pyvc.api import check, contract
from xdsl.dialects import linalg, memref, scf
from xdsl.dialects.builtin import IndexType, MemRefType, ModuleOp, NoneAttr, StringAttr, i32
from xdsl.ir import Block, Operation, Region, SSAValue, Use

import xdsl.rewriter as xrw

from snaxc.accelerators.acc_context import AccContext
from snaxc.dialects import snax
from snaxc.transforms.insert_sync_barrier import InsertSyncBarrier


class CtxV(AccContext):
    """an AccContext without registered accelerators (no streaming regions in these views)"""

    def __init__(self):
        pass


class PlainOp(Operation):
    """an op of no particular dialect: runs on every core"""

    def __init__(self, operands=(), n_results=0, regions=()):
        self._init_op(list(operands), [None for _ in range(n_results)], [None for _ in range(n_results)])
        self.regions = list(regions)
        for r in self.regions:
            r.parent = self


def use(op):
    k = 0
    for v in op.operands:
        v.uses.append(Use(op, k))
        k += 1
    return op


# one "worker" op: (kind, reads, writes) over the buffers 0 and 1
#   D  memref.copy src -> dst          (data-mover core)
#   C  linalg.generic ins(x) outs(y)   (compute core)
#   N  an unknown op using a buffer    (all cores; reads and writes it)
#   F  memref.dealloc                  (all cores; "overwrites")
#   S  a barrier that is already there
CHOICES = [("D", 0, 1), ("D", 1, 0), ("C", 0, 1), ("C", 1, 0), ("C", 0, 0), ("C", 1, 1), ("N", 0, 0), ("N", 1, 1), ("F", 0, 0), ("F", 1, 1), ("S", 0, 0)]


def mk_worker(choice, bufs):
    kind, a, b = choice
    if kind == "D":
        return use(memref.CopyOp(bufs[a], bufs[b]))
    if kind == "C":
        return use(linalg.GenericOp([bufs[a]], [bufs[b]]))
    if kind == "N":
        return use(PlainOp([bufs[a]]))
    if kind == "F":
        return use(memref.DeallocOp(bufs[a]))
    return snax.ClusterSyncOp()


def effects(choice):
    """(core, reads, writes): core is 'dm', 'compute' or 'all'"""
    kind, a, b = choice
    if kind == "D":
        return ("dm", [a], [b])
    if kind == "C":
        return ("compute", [a], [b])
    if kind == "N":
        return ("all", [a], [a])
    if kind == "F":
        return ("all", [], [a])
    return ("sync", [], [])


def build(structure, c1, c2, c3):
    """returns (module, workers) with workers = [(op, choice)] in program order"""
    t = MemRefType(i32, [8], NoneAttr(), StringAttr("L1"))
    allocs = [PlainOp([], 1), PlainOp([], 1)]
    bufs = [allocs[0].results[0], allocs[1].results[0]]
    for b in bufs:
        b.type = t
    w1, w2, w3 = mk_worker(c1, bufs), mk_worker(c2, bufs), mk_worker(c3, bufs)
    idx = [PlainOp([], 1), PlainOp([], 1), PlainOp([], 1)]
    if structure == "flat":
        body = allocs + [w1, w2, w3]
    elif structure == "loop3":
        # for { w1; w2; w3 }
        loop = scf.ForOp(idx[0].results[0], idx[1].results[0], idx[2].results[0], [], Block([w1, w2, w3, scf.YieldOp()]))
        body = allocs + idx + [loop]
    elif structure == "loop_then":
        # for { w1; w2 }; w3
        loop = scf.ForOp(idx[0].results[0], idx[1].results[0], idx[2].results[0], [], Block([w1, w2, scf.YieldOp()]))
        body = allocs + idx + [loop, w3]
    elif structure == "then_loop":
        # w1; for { w2; w3 }
        loop = scf.ForOp(idx[0].results[0], idx[1].results[0], idx[2].results[0], [], Block([w2, w3, scf.YieldOp()]))
        body = allocs + idx + [w1, loop]
    elif structure == "nested_in_loop":
        # for { region-op { w1 }; w2 }; w3      (w1 one region level deeper than w2, e.g. under an scf.if)
        inner = PlainOp([], 0, [Region([Block([w1])])])
        loop = scf.ForOp(idx[0].results[0], idx[1].results[0], idx[2].results[0], [], Block([inner, w2, scf.YieldOp()]))
        body = allocs + idx + [loop, w3]
    elif structure == "loop_in_loop_a":
        # for { for { w1 }; w2 }; w3
        inner = scf.ForOp(idx[0].results[0], idx[1].results[0], idx[2].results[0], [], Block([w1, scf.YieldOp()]))
        loop = scf.ForOp(idx[0].results[0], idx[1].results[0], idx[2].results[0], [], Block([inner, w2, scf.YieldOp()]))
        body = allocs + idx + [loop, w3]
    elif structure == "loop_in_loop_b":
        # for { w1; for { w2 } }; w3
        inner = scf.ForOp(idx[0].results[0], idx[1].results[0], idx[2].results[0], [], Block([w2, scf.YieldOp()]))
        loop = scf.ForOp(idx[0].results[0], idx[1].results[0], idx[2].results[0], [], Block([w1, inner, scf.YieldOp()]))
        body = allocs + idx + [loop, w3]
    elif structure == "sibling_loops_in_loop":
        # for { for { w1 }; for { w2 } }; w3      (a tile loop whose body holds only inner loops)
        in1 = scf.ForOp(idx[0].results[0], idx[1].results[0], idx[2].results[0], [], Block([w1, scf.YieldOp()]))
        in2 = scf.ForOp(idx[0].results[0], idx[1].results[0], idx[2].results[0], [], Block([w2, scf.YieldOp()]))
        loop = scf.ForOp(idx[0].results[0], idx[1].results[0], idx[2].results[0], [], Block([in1, in2, scf.YieldOp()]))
        body = allocs + idx + [loop, w3]
    elif structure == "two_regions_in_loop":
        # for { region-op { w1 }; region-op { w2 } }; w3
        r1 = PlainOp([], 0, [Region([Block([w1])])])
        r2 = PlainOp([], 0, [Region([Block([w2])])])
        loop = scf.ForOp(idx[0].results[0], idx[1].results[0], idx[2].results[0], [], Block([r1, r2, scf.YieldOp()]))
        body = allocs + idx + [loop, w3]
    elif structure == "if_else":
        # w1; region-op { w2 } else { w3 }      (exactly one of the two regions runs, or none)
        r = PlainOp([], 0, [Region([Block([w2])]), Region([Block([w3])])])
        body = allocs + [w1, r]
    elif structure == "if_else_then":
        # region-op { w1 } else { w2 }; w3
        r = PlainOp([], 0, [Region([Block([w1])]), Region([Block([w2])])])
        body = allocs + [r, w3]
    else:
        # region-op { w1 }; w2; w3      (no loop)
        r1 = PlainOp([], 0, [Region([Block([w1])])])
        body = allocs + [r1, w2, w3]
    return ModuleOp(body), [(w1, c1), (w2, c2), (w3, c3)]


def traces_of(ops, inserted):
    """all execution traces (lists of ops) of a list of ops, with the barriers recorded as 'insert before <anchor>' put
    in place; scf.for bodies run 0, 1 and 2 times, any other region-holding op runs its region once or not at all"""
    out = [[]]
    for o in ops:
        pre = inserted.get(id(o), [])
        if isinstance(o, scf.ForOp):
            body = traces_of(o.body.block.ops, inserted)
            alts = [[]] + body + [x + y for x in body for y in body]
        elif len(o.regions) > 0 and not isinstance(o, linalg.GenericOp):
            inner = []
            for r in o.regions:
                for t in traces_of(r.blocks[0].ops, inserted):
                    inner.append(t)
            alts = [[]] + inner
        else:
            alts = [[o]]
        out = [t + pre + a for t in out for a in alts]
    return out


def conflict(ea, eb):
    """ea happens first on ONE core, eb on (also) another core, and they touch a common buffer with a write involved"""
    core_a, ra, wa = ea
    core_b, rb, wb = eb
    if core_a not in ("dm", "compute") or core_b == "sync" or core_b == core_a:
        return False
    return any(x in wb for x in ra) or any(x in rb or x in wb for x in wa)


def conflict_rev(ea, eb):
    """the mirror case: ea happens first on EVERY core (an op no rule dispatches), eb later on one core only"""
    core_a, ra, wa = ea
    core_b, rb, wb = eb
    if core_a != "all" or len(ra) == 0 or core_b not in ("dm", "compute"):  # (a dealloc first would be a use after free)
        return False
    return any(x in wb for x in ra) or any(x in rb or x in wb for x in wa)


STRUCTS = ("flat", "loop3", "loop_then", "then_loop", "nested_in_loop", "loop_in_loop_a", "loop_in_loop_b", "two_regions_in_loop", "region_flat", "if_else", "if_else_then", "sibling_loops_in_loop")


@contract
class InsertSyncBarrier_contract:
    """on every execution trace of the module after the pass, every pair (earlier op on one core, later op that also
    runs on another core, conflicting access to a common buffer) is separated by a cluster barrier; the pass only ever
    inserts barriers"""
    target = "snaxc.transforms.insert_sync_barrier.InsertSyncBarrier.apply"
    shapes = [dict(structure=s, first=i) for s in STRUCTS for i in range(len(CHOICES))]
    native = False
    total = True
    permissive = True
    compare_ret = False

    def args(sh, sym):
        return [CHOICES[sh["first"]]]

    def run(sh, a):
        results = []
        for c2 in CHOICES:
            for c3 in CHOICES:
                mod, workers = build(sh["structure"], a[0], c2, c3)
                del xrw.REWRITER_LOG[:]
                InsertSyncBarrier().apply(CtxV(), mod)
                results.append((mod, workers, list(xrw.REWRITER_LOG), (a[0], c2, c3)))
        return results

    def ensures(sh, a, ret):
        for (mod, workers, log, prog) in ret:
            tag = sh["structure"] + ":" + " ; ".join(k + str(x) + (">" + str(y) if k in "DC" else "") for (k, x, y) in prog)
            only_syncs = True
            inserted = {}
            for e in log:
                if e[0] != "insert_op" or e[2].kind != "before" or not all(isinstance(o, snax.ClusterSyncOp) for o in e[1]):
                    only_syncs = False
                else:
                    inserted[id(e[2].anchor)] = inserted.get(id(e[2].anchor), []) + list(e[1])
            check("the pass only inserts barriers (before existing ops) [" + tag + "]", only_syncs)
            eff = {}
            for (w, c) in workers:
                eff[id(w)] = effects(c)
            ok = True
            ok_rev = True
            for t in traces_of(mod.body.block.ops, inserted):
                n = len(t)
                for i in range(n):
                    ei = eff.get(id(t[i]))
                    if ei is None:
                        continue
                    for j in range(i + 1, n):
                        ej = eff.get(id(t[j]))
                        if ej is None or not (conflict(ei, ej) or conflict_rev(ei, ej)):
                            continue
                        if not any(isinstance(t[k], snax.ClusterSyncOp) for k in range(i + 1, j)):
                            if conflict(ei, ej):
                                ok = False
                            else:
                                ok_rev = False
            check("a barrier separates every conflicting cross-core pair on every trace [" + tag + "]", ok)
            check("(mirror case) ... also when the EARLIER op is one that runs on every core and the later one runs on one core [" + tag + "]", ok_rev)

    def canary(sh, a, ret):
        check("canary: the pass never inserts anything", all(len(log) == 0 for (_, _, log, _) in ret))
