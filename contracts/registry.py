"""Which contracts decide which property."""

PROPERTIES = {
    "C09": dict(
        contracts=[
            ("contracts.layout", "ensure_access_granularity_contract"),
            ("contracts.layout", "AddCyclicMemoryLayout_contract"),
            ("contracts.layout", "AddCyclicMemoryLayout_keeps_explicit_layouts"),
            ("contracts.tsl", "TSL_canonicalize"),
            ("contracts.tsl", "TiledStride_canonicalize"),
        ],
        trusted_base=["paper lemma: steps super-increasing in some order of the levels (step_k >= 1 + sum_{j<k} (bound_j-1)*step_j) => the layout is one-to-one on digit vectors",
                      "view of dart.ScheduleOp / snax.LayoutCast through the generic irdl stub (pyvc/stubs/irdl.py); PatternRewriter is a recorder",
                      "assumed: spatial_dims() (accelerator template plumbing) returns the template's number of dimensions"],
    ),
    "C16": dict(
        contracts=[
            ("contracts.scheduler", "scheduler_backtrack_fits_template"),
        ],
        bounded=[dict(module="contracts.bounded_dart", fn="scheduler_end_to_end", function="scheduler_backtrack end to end on concrete schedules (native)")],
        trusted_base=["abstract contracts of rotate/tile_dim/inner_dims in contracts/scheduler.py restate the per-shape contracts of contracts/dart.py (incl. frame clauses)"],
    ),
    "C03": dict(
        contracts=[
            ("contracts.dart", "AffineTransform_from_affine_map"),
            ("contracts.dart", "AffineTransform_from_affine_map_nonlinear"),
            ("contracts.dart", "AffineTransform_compose"),
            ("contracts.dart", "SchedulePattern_rotate"),
            ("contracts.dart", "SchedulePattern_tile_dim"),
            ("contracts.dart", "SchedulePattern_add_dim"),
            ("contracts.dart", "AccessPattern_inner_dims"),
            ("contracts.dart", "AccessPattern_canonicalize"),
            ("contracts.dart", "Schedule_rotate"),
            ("contracts.dart", "Schedule_tile_dim"),
            ("contracts.dart", "Schedule_add_dim"),
            ("contracts.dart", "PatternCollection_clear_unused_dims"),
            ("contracts.scheduler", "scheduler_backtrack_iteration_space"),
        ],
        bounded=[dict(module="contracts.bounded_dart", fn="scheduler_end_to_end", function="scheduler_backtrack end to end on concrete schedules (native)")],
        trusted_base=["paper lemma: a bijection of iteration boxes that commutes with every operand map preserves the multiset of operand-index tuples",
                      "abstract contracts of rotate/tile_dim/inner_dims in contracts/scheduler.py restate the per-shape contracts of contracts/dart.py (incl. frame clauses)"],
    ),
    "C19": dict(
        contracts=[
            ("contracts.dart", "AffineTransform_eval"),
            ("contracts.dart", "AffineTransform_eval_batch"),
            ("contracts.dart", "AffineTransform_compose"),
            ("contracts.dart", "AffineTransform_from_affine_map"),
            ("contracts.dart", "AffineTransform_from_affine_map_nonlinear"),
            ("contracts.dart", "AffineTransform_to_affine_map"),
            ("contracts.dart", "AccessPattern_canonicalize"),
            ("contracts.dart", "AccessPattern_inner_dims"),
            ("contracts.stream", "StridePattern_canonicalize"),
            ("contracts.stream", "pack_bitlist_contract"),
        ],
        bounded=[
            dict(module="contracts.bounded_c19", fn="canonicalize_affine_exprs", function="snaxc.util.canonicalize_affine.canonicalize_map (random expressions; stands in until the ADT proof covers it)"),
            dict(module="contracts.bounded_c19", fn="attr_print_parse", function="StridePattern / StreamerConfigurationAttr print o parse (xDSL text parser)"),
        ],
        trusted_base=["paper lemma: coalesces_stream(old,new) => identical address sequence (contracts/specs.py)",
                      "arith op denotations in pyvc/stubs_src/xdsl_dialects_arith.py (shli/ori on fixed-width words)"],
    ),
    "C10": dict(
        contracts=[
            ("contracts.tsl", "TiledStride_canonicalize"),
            ("contracts.tsl", "TiledStride_from_stride"),
            ("contracts.tsl", "TSL_from_strides"),
            ("contracts.tsl", "TSL_canonicalize"),
            ("contracts.tsl", "TSL_structure_queries"),
            ("contracts.tsl", "Stride_all_values"),
            ("contracts.tsl", "TSL_all_values"),
            ("contracts.tsl", "TSL_largest_common_contiguous_block"),
            ("contracts.tsl", "TSLAttr_get_affine_map"),
            ("contracts.tsl", "TSLAttr_get_bound_ops"),
            ("contracts.tsl", "TSLAttr_get_step_ops"),
        ],
        bounded=[
            dict(module="contracts.bounded_tsl", fn="overlap_dense", function="TiledStridedLayout.self_overlaps / is_dense (np.unique)"),
            dict(module="contracts.bounded_tsl", fn="print_parse", function="TSLParser.parse o TiledStridedLayout.__str__ (xDSL text parser)"),
        ],
        trusted_base=["paper lemma: coalesces(orig,new) => same index->address function (contracts/specs.py)"],
    ),
}
