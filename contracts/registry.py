"""Which contracts decide which property."""

PROPERTIES = {
    "C10": dict(
        contracts=[
            ("contracts.tsl", "TiledStride_canonicalize"),
        ],
        trusted_base=["paper lemma: coalesces(orig,new) => same index->address function (contracts/specs.py)"],
    ),
}
