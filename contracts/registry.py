"""Which contracts decide which property."""

PROPERTIES = {
    "C08": dict(
        contracts=[
            ("contracts.accel", "SNAXStreamer_setup_vals_match_fields"),
        ],
        trusted_base=["oracle: the field NAMES (X_ptr_low, X_bound_d, X_tstride_d, ...) encode their meaning; padding/collapse rules from the property statement",
                      "view of snax_stream.StreamingRegionOp (operands + stride patterns)"],
    ),
    "C01": dict(
        contracts=[
            ("contracts.accfg", "SimplifyRedundantSetupCalls_contract"),
            ("contracts.accfg", "MergeSetupOps_contract"),
            ("contracts.accfg", "ElideEmptySetupOps_contract"),
            ("contracts.accfg", "all_setup_ops_in_region_contract"),
            ("contracts.accfg", "PullSetupOpsOutOfLoops_contract"),
            ("contracts.accfg", "state_intersection_contract"),
            ("contracts.accfg", "infer_state_of_contract"),
        ],
        trusted_base=["paper argument: each rewrite preserves the register file at every launch given soundness of the inferred state (C07); the composition over the greedy driver is not machine-checked"],
    ),
    "C07": dict(
        contracts=[
            ("contracts.accfg", "state_intersection_contract"),
            ("contracts.accfg", "infer_state_of_contract"),
            ("contracts.accfg", "calc_if_state_delta_contract"),
            ("contracts.accfg", "has_accfg_effects_contract"),
        ],
        trusted_base=["paper lemma (standard post-fixpoint argument): an assignment of states to state-typed values that satisfies the local conditions at every value is true on every execution"],
    ),
    "C17": dict(
        contracts=[
            ("contracts.loops", "ChangeForStep_contract"),
            ("contracts.loops", "MergeForLoops_contract"),
            ("contracts.loops", "get_subview_dim_contract"),
        ],
        trusted_base=[],
    ),
    "C11": dict(
        contracts=[
            ("contracts.alloc", "AllocOpRewrite_contract"),
            ("contracts.alloc", "StaticAllocs_contract"),
            ("contracts.alloc", "create_memref_struct_contract"),
        ],
        trusted_base=[],
    ),
    "C09": dict(
        contracts=[
            ("contracts.layout", "ensure_access_granularity_contract"),
            ("contracts.layout", "AddCyclicMemoryLayout_contract"),
            ("contracts.layout", "AddCyclicMemoryLayout_keeps_explicit_layouts"),
            ("contracts.tsl", "TSL_canonicalize"),
            ("contracts.tsl", "TiledStride_canonicalize"),
        ],
        trusted_base=["paper lemma: steps super-increasing in some order of the levels (step_k >= 1 + sum_{j<k} (bound_j-1)*step_j) => the layout is one-to-one on digit vectors",
                      "view of dart.ScheduleOp / snax.LayoutCast through the generic irdl stub (pyvc/stubs/irdl.py); PatternRewriter is a recorder",
                      "assumed: spatial_dims() (accelerator template plumbing) returns the template's number of dimensions"],
    ),
    "C16": dict(
        contracts=[
            ("contracts.scheduler", "scheduler_backtrack_fits_template"),
            ("contracts.dart", "is_pure_output_stationary_contract"),
            ("contracts.dart", "is_output_channel_stationary_contract"),
            ("contracts.dart", "is_memory_flexible_enough_contract"),
            ("contracts.dart", "AccessPattern_inner_dims"),
            ("contracts.dart", "SchedulePattern_rotate"),
            ("contracts.dart", "SchedulePattern_tile_dim"),
        ],
        bounded=[dict(module="contracts.bounded_dart", fn="scheduler_end_to_end", function="scheduler_backtrack end to end on concrete schedules (native)"),
                 dict(module="contracts.bounded_dart", fn="template_matches", function="TemplatePattern.matches / same_nonzero_singular_vectors (float SVD: outside the VC generator)")],
        trusted_base=["abstract contracts of rotate/tile_dim/inner_dims in contracts/scheduler.py restate the per-shape contracts of contracts/dart.py (incl. frame clauses)"],
    ),
    "C03": dict(
        contracts=[
            ("contracts.dart", "AffineTransform_from_affine_map"),
            ("contracts.dart", "AffineTransform_from_affine_map_nonlinear"),
            ("contracts.dart", "AffineTransform_compose"),
            ("contracts.dart", "SchedulePattern_rotate"),
            ("contracts.dart", "SchedulePattern_tile_dim"),
            ("contracts.dart", "SchedulePattern_add_dim"),
            ("contracts.dart", "AccessPattern_inner_dims"),
            ("contracts.dart", "AccessPattern_canonicalize"),
            ("contracts.dart", "Schedule_rotate"),
            ("contracts.dart", "Schedule_tile_dim"),
            ("contracts.dart", "Schedule_add_dim"),
            ("contracts.dart", "PatternCollection_clear_unused_dims"),
            ("contracts.scheduler", "scheduler_backtrack_iteration_space"),
        ],
        bounded=[dict(module="contracts.bounded_dart", fn="scheduler_end_to_end", function="scheduler_backtrack end to end on concrete schedules (native)")],
        trusted_base=["paper lemma: a bijection of iteration boxes that commutes with every operand map preserves the multiset of operand-index tuples",
                      "abstract contracts of rotate/tile_dim/inner_dims in contracts/scheduler.py restate the per-shape contracts of contracts/dart.py (incl. frame clauses)"],
    ),
    "C19": dict(
        contracts=[
            ("contracts.dart", "AffineTransform_eval"),
            ("contracts.dart", "AffineTransform_eval_batch"),
            ("contracts.dart", "AffineTransform_compose"),
            ("contracts.dart", "AffineTransform_from_affine_map"),
            ("contracts.dart", "AffineTransform_from_affine_map_nonlinear"),
            ("contracts.dart", "AffineTransform_to_affine_map"),
            ("contracts.dart", "AccessPattern_canonicalize"),
            ("contracts.dart", "AccessPattern_inner_dims"),
            ("contracts.stream", "StridePattern_canonicalize"),
            ("contracts.stream", "pack_bitlist_contract"),
        ],
        bounded=[
            dict(module="contracts.bounded_c19", fn="canonicalize_affine_exprs", function="snaxc.util.canonicalize_affine.canonicalize_map (random expressions; stands in until the ADT proof covers it)"),
            dict(module="contracts.bounded_c19", fn="attr_print_parse", function="StridePattern / StreamerConfigurationAttr print o parse (xDSL text parser)"),
        ],
        trusted_base=["paper lemma: coalesces_stream(old,new) => identical address sequence (contracts/specs.py)",
                      "arith op denotations in pyvc/stubs_src/xdsl_dialects_arith.py (shli/ori on fixed-width words)"],
    ),
    "C10": dict(
        contracts=[
            ("contracts.tsl", "TiledStride_canonicalize"),
            ("contracts.tsl", "TiledStride_from_stride"),
            ("contracts.tsl", "TSL_from_strides"),
            ("contracts.tsl", "TSL_canonicalize"),
            ("contracts.tsl", "TSL_structure_queries"),
            ("contracts.tsl", "Stride_all_values"),
            ("contracts.tsl", "TSL_all_values"),
            ("contracts.tsl", "TSL_largest_common_contiguous_block"),
            ("contracts.tsl", "TSLAttr_get_affine_map"),
            ("contracts.tsl", "TSLAttr_get_bound_ops"),
            ("contracts.tsl", "TSLAttr_get_step_ops"),
        ],
        bounded=[
            dict(module="contracts.bounded_tsl", fn="overlap_dense", function="TiledStridedLayout.self_overlaps / is_dense (np.unique)"),
            dict(module="contracts.bounded_tsl", fn="print_parse", function="TSLParser.parse o TiledStridedLayout.__str__ (xDSL text parser)"),
        ],
        trusted_base=["paper lemma: coalesces(orig,new) => same index->address function (contracts/specs.py)"],
    ),
}
