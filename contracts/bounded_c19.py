"""Bounded stand-ins for C19 (NOT proofs)."""
import itertools
import random


def _rand_expr(rnd, depth, ndims):
    from xdsl.ir.affine import AffineBinaryOpExpr, AffineBinaryOpKind, AffineConstantExpr, AffineDimExpr

    if depth == 0 or rnd.random() < 0.25:
        if rnd.random() < 0.5:
            return AffineDimExpr(rnd.randrange(ndims))
        return AffineConstantExpr(rnd.choice((0, 1, 1, 2, 3, 4, 6, 8, -1, -3)))
    kind = rnd.choice((AffineBinaryOpKind.Add, AffineBinaryOpKind.Add, AffineBinaryOpKind.Mul, AffineBinaryOpKind.FloorDiv, AffineBinaryOpKind.Mod))
    lhs = _rand_expr(rnd, depth - 1, ndims)
    if kind in (AffineBinaryOpKind.FloorDiv, AffineBinaryOpKind.Mod):
        rhs = AffineConstantExpr(rnd.choice((1, 2, 3, 4, 6, 8)))
    elif kind is AffineBinaryOpKind.Mul:
        if rnd.random() < 0.5:
            lhs, rhs = AffineConstantExpr(rnd.choice((0, 1, 2, 3, 4, -1))), lhs
        else:
            rhs = AffineConstantExpr(rnd.choice((0, 1, 2, 3, 4, -2)))
    else:
        rhs = _rand_expr(rnd, depth - 1, ndims)
    return AffineBinaryOpExpr(kind, lhs, rhs)  # direct constructor: no simplification on construction


def canonicalize_affine_exprs(tier="quick", seed=0):
    """canonicalize_map: evaluates identically on all points of a small box + random far points; idempotent"""
    from pyvc import shim  # noqa: F401
    from xdsl.ir.affine import AffineMap

    from snaxc.util.canonicalize_affine import canonicalize_map

    rnd = random.Random(seed)
    n = 1500 if tier == "quick" else 20000
    ndims = 3
    box = list(itertools.product(range(-2, 9), (0, 1, 5), (0,)))
    far = [tuple(rnd.randint(-1000, 1000) for _ in range(ndims)) for _ in range(30)]
    cases = 0
    viol = []
    exprs = [_rand_expr(rnd, rnd.randint(1, 4), ndims) for _ in range(n)]
    # systematic part: all chains  d0 -> (op c) -> (op c) -> (op c)  with op in {+,*,floordiv,mod}
    from xdsl.ir.affine import AffineBinaryOpExpr, AffineBinaryOpKind, AffineConstantExpr, AffineDimExpr

    consts = (1, 2, 3, 4, 6) if tier == "quick" else (1, 2, 3, 4, 5, 6, 8)
    steps = [(k, c) for k in (AffineBinaryOpKind.Add, AffineBinaryOpKind.Mul, AffineBinaryOpKind.FloorDiv, AffineBinaryOpKind.Mod) for c in consts]
    for L in (1, 2, 3):
        for chain in itertools.product(steps, repeat=L):
            e = AffineDimExpr(0)
            for k, c in chain:
                e = AffineBinaryOpExpr(k, e, AffineConstantExpr(c))
            exprs.append(AffineBinaryOpExpr(AffineBinaryOpKind.Add, e, AffineDimExpr(1)) if L == 3 and chain[0][1] == 2 else e)
    for e in exprs:
        m = AffineMap(ndims, 0, (e,))
        try:
            c = canonicalize_map(m)
        except (AssertionError, NotImplementedError, RecursionError) as ex:
            # the function's own asserts / xdsl's semi-affine refusal are outside its domain
            continue
        cases += 1
        bad = None
        for p in box + far:
            try:
                a = m.eval(p, [])
            except ZeroDivisionError:
                continue
            try:
                b = c.eval(p, [])
            except ZeroDivisionError:
                b = "ZeroDivisionError"
            if a != b:
                bad = (p, a, b)
                break
        if bad and len(viol) < 5:
            viol.append(dict(clause="canonicalize_map evaluates identically", input=str(m), observed=f"canonical {c} differs at {bad[0]}: {bad[1]} vs {bad[2]}"))
        try:
            cc = canonicalize_map(c)
            if cc != c and len(viol) < 5:
                viol.append(dict(clause="canonicalize_map is idempotent", input=str(m), observed=f"{c} -> {cc}"))
        except (AssertionError, NotImplementedError, RecursionError):
            pass
    return dict(domain=f"{n} random affine expressions over + * floordiv mod with constants, depth <= 4, 3 dims; + all chains d0 (op c)^1..3; points [-2,8]x{0,1,5}x{0} + 30 random far points", cases=cases, violations=viol)


def attr_print_parse(tier="quick", seed=0):
    """custom attributes are unchanged by printing and re-parsing"""
    from pyvc import shim  # noqa: F401
    from xdsl.context import Context
    from xdsl.parser import Parser
    from xdsl.printer import Printer
    import io

    from snaxc.accelerators.streamers.streamers import (HasAddressRemap, HasBroadcast, HasByteMask, HasChannelMask, Streamer,
                                                         StreamerConfiguration, StreamerType)
    from snaxc.dialects.snax import Snax, StreamerConfigurationAttr
    from snaxc.dialects.snax_stream import SnaxStream, StridePattern

    ctx = Context()
    ctx.load_dialect(Snax)
    ctx.load_dialect(SnaxStream)

    def text(attr):
        s = io.StringIO()
        Printer(s).print_attribute(attr)
        return s.getvalue()

    cases = 0
    viol = []
    vals = (-2, 0, 1, 3)
    pats = []
    for n in range(0, 4 if tier == "thorough" else 3):
        for ub in itertools.product(vals, repeat=n):
            for ts in itertools.islice(itertools.product(vals, repeat=n), 0, None, 3):
                pats.append(StridePattern(list(ub), list(ts), [8, 0][: 1 + (n % 2)]))
    for p in pats:
        cases += 1
        t = text(p)
        try:
            back = Parser(ctx, t).parse_attribute()
            ok = back == p
            obs = text(back)
        except Exception as e:  # noqa
            ok, obs = False, f"{type(e).__name__}: {str(e)[:100]}"
        if not ok and len(viol) < 5:
            viol.append(dict(clause="StridePattern parse(print(x)) == x", input=t, observed=obs))
    opt_sets = [[], [HasAddressRemap()], [HasChannelMask(), HasBroadcast()], [HasByteMask(), HasAddressRemap(), HasChannelMask()]]
    flags = ["n", "i", "r"]
    for nt in (1, 2, 3):
        for fl in itertools.product(flags, repeat=nt):
            for spat in ([8], [8, 4]):
                for opts in opt_sets:
                    for ty in (StreamerType.Reader, StreamerType.Writer):
                        cfg = StreamerConfiguration([Streamer(ty, list(fl), spat, opts), Streamer(StreamerType.Reader, ["n"], [2], [])])
                        a = StreamerConfigurationAttr(cfg)
                        cases += 1
                        t = text(a)
                        try:
                            back = Parser(ctx, t).parse_attribute()
                            t2 = text(back)
                            b = back.data
                            ok = t2 == t and len(b.streamers) == 2 and all(
                                x.type == y.type and tuple(x.temporal_dims) == tuple(y.temporal_dims) and tuple(x.spatial_dims) == tuple(y.spatial_dims)
                                and [type(o) for o in x.opts] == [type(o) for o in y.opts] for x, y in zip(b.streamers, cfg.streamers))
                            obs = t2
                        except Exception as e:  # noqa
                            ok, obs = False, f"{type(e).__name__}: {str(e)[:100]}"
                        if not ok and len(viol) < 5:
                            viol.append(dict(clause="StreamerConfigurationAttr parse(print(x)) == x", input=t, observed=obs))
    return dict(domain="stride patterns of length <= 2 (3 thorough) with entries in {-2,0,1,3}; streamer configs with 1..3 temporal flags x 2 spatial shapes x 4 option sets x r/w", cases=cases, violations=viol)
