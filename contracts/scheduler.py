"""Modular (unbounded) contract for snaxc/ir/dart/scheduler.py: scheduler_backtrack (C03, C16).

`Schedule` / `Template` are abstract views: a schedule is an identity `sid` with a symbolic number
of dimensions; its iteration-space meaning E(sid) (the multiset of operand-index tuples it visits),
its bounds sbound(sid, i) and the matrices of its inner-k view V(sid, k) are uninterpreted functions.
The elementary operations are used through contracts whose statements are exactly the ones proved
per shape in contracts/dart.py (SchedulePattern_rotate/tile_dim, AccessPattern_inner_dims + frame
clauses).  The rotation loop is cut with an invariant; the recursive call uses the function's own
contract.  The quantifier "for every level j" is discharged for an arbitrary ghost level J0."""
from pyvc.api import assume, check, contract, fresh_int, implies, uf, ufb

G = {}  # ghost state of the current path


def E(s):
    return uf("E", s.sid)


def V(s, j):
    return uf("V", s.sid, j)


class AbsBounds:
    def __init__(self, owner):
        self.owner = owner

    def __getitem__(self, i):
        n = self.owner.num_dims
        check("bounds index in range (no IndexError)", -n <= i and i < n)
        assume(-n <= i and i < n)
        if i < 0:
            i = n + i
        return self.owner.bound(i)


class AbsPattern:
    def __init__(self, owner):
        self.bounds = AbsBounds(owner)


class AbsView:
    """schedule.inner_dims(k): only its matrices matter to matches() and the extra checks"""

    def __init__(self, vid, k):
        self.vid = vid
        self.k = k


class AbsSchedule:
    def __init__(self, sid, n):
        self.sid = sid
        self.num_dims = n

    def bound(self, i):
        b = uf("sbound", self.sid, i)
        assume(b >= 1)  # SchedulePattern.__init__ rejects non-positive bounds
        return b

    def __getitem__(self, idx):
        return AbsPattern(self)  # all operands of a Schedule share one bound vector

    def rotate(self, d):
        n = self.num_dims
        check("requires(rotate): 1 <= dim <= num_dims", 1 <= d and d <= n)
        r = AbsSchedule(fresh_int("sid"), n)
        j = G["J0"]
        assume(E(r) == E(self))  # SchedulePattern_rotate: pi is a bijection of boxes commuting with every operand
        assume(implies(1 <= j and j <= n - d, V(r, j) == V(self, j)))  # frame: columns >= d untouched
        assume(implies(1 <= j and n - j >= d, r.bound(n - j) == self.bound(n - j)))  # frame: bounds >= d untouched
        return r

    def tile_dim(self, d, tb):
        n = self.num_dims
        check("requires(tile_dim): 0 <= dim < num_dims", 0 <= d and d < n)
        check("requires(tile_dim): template_bound >= 1", tb >= 1)
        check("requires(tile_dim): bounds[dim] % template_bound == 0", self.bound(d) % tb == 0)
        r = AbsSchedule(fresh_int("sid"), n + 1)
        j = G["J0"]
        assume(E(r) == E(self))  # SchedulePattern_tile_dim (needs the three requires above)
        assume(r.bound(d + 1) == tb)
        assume(r.bound(d) * tb == self.bound(d))
        assume(implies(1 <= j and j <= n - d, V(r, j) == V(self, j)))  # frame: new column d+1 == old column d, later ones shifted
        assume(implies(1 <= j and n - j > d, r.bound(n + 1 - j) == self.bound(n - j)))  # frame: bounds behind d shifted by one
        return r

    def inner_dims(self, k):
        check("requires(inner_dims): dim >= 1", k >= 1)
        return AbsView(V(self, k), k)


class AbsTView:
    def __init__(self, t, k):
        self.t = t
        self.k = k

    def matches(self, sview):
        return ufb("M", self.t.tid, self.k, sview.vid)


class AbsTemplate:
    def __init__(self, tid, n):
        self.tid = tid
        self.num_dims = n

    def bound(self, i):
        if ufb("tnone", self.tid, i):
            return None
        b = uf("tbound", self.tid, i)
        assume(b >= 1)  # is_valid(template): static template bounds are >= 1
        return b

    def __getitem__(self, idx):
        return AbsPattern(self)

    def inner_dims(self, k):
        check("requires(inner_dims): dim >= 1", k >= 1)
        return AbsTView(self, k)


class AbsCheck:
    def __init__(self, i):
        self.i = i

    def __call__(self, tview, sview):
        return ufb(f"Chk{self.i}", tview.t.tid, tview.k, sview.vid)


class AbsYielded:
    """the (abstract) sequence yielded by a recursive call on schedule `s` at level `k`"""

    def __init__(self, s, k):
        self.s = s
        self.k = k


def P(t, s, j, nchecks):
    """level j of schedule s fits template t: the inner-j view matches, every extra check holds on it,
    and the bound of dimension -j does not exceed a static template bound"""
    ok = ufb("M", t.tid, j, V(s, j))
    for i in range(nchecks):
        ok = ok and ufb(f"Chk{i}", t.tid, j, V(s, j))
    fits = implies(j <= t.num_dims and not ufb("tnone", t.tid, t.num_dims - j),
                   uf("sbound", s.sid, s.num_dims - j) <= uf("tbound", t.tid, t.num_dims - j))
    return ok and fits


def rec_contract(local):
    """the function's own contract, used for the recursive call"""
    t, s, k, checks = local["template"], local["schedule"], local["inner_dims"], local["extra_checks"]
    j = G["J0"]
    check("requires(rec): inner_dims >= 1", k >= 1)
    if G["mode"] == "C16":
        check("requires(rec): levels below inner_dims already fit (at the ghost level J0)",
              implies(1 <= j and j < k, P(t, s, j, len(checks))))
    return AbsYielded(s, k)


class _scheduler_backtrack_base:
    target = "snaxc.ir.dart.scheduler.scheduler_backtrack"
    native = False  # abstract views: no native replay; the concrete behaviour is covered by contracts/dart.py
    total = True
    modular = {"snaxc.ir.dart.scheduler.scheduler_backtrack": rec_contract}

    def args(sh, sym):
        G.clear()
        G["J0"] = sym.int("J0")
        G["nchecks"] = sh["nchecks"]
        G["mode"] = sh["mode"]
        t = AbsTemplate(sym.int("tid"), sym.int("tn"))
        s = AbsSchedule(sym.int("sid"), sym.int("n"))
        G["t"] = t
        return [t, s, sym.int("inner_dims"), [AbsCheck(i) for i in range(sh["nchecks"])]]

    def requires(sh, a):
        t, s, k, checks = a
        j = G["J0"]
        pre = k >= 1 and s.num_dims >= 1 and t.num_dims >= 1
        if sh["mode"] == "C16":
            pre = pre and implies(1 <= j and j < k, P(t, s, j, sh["nchecks"]))
        return pre

    def on_yield(args0, y):
        t, s_in = args0["template"], args0["schedule"]
        j = G["J0"]
        if G["mode"] == "C03":
            check("C03: yielded schedule visits the same iteration multiset as the input", E(y) == E(s_in))
        else:
            check("C16: every level of a yielded schedule fits the template (ghost level J0)",
                  implies(1 <= j and j <= y.num_dims, P(t, y, j, G["nchecks"])))

    def on_yield_from(args0, ys):
        # an arbitrary element y of the recursive call's yields, constrained by the recursive contract's ensures
        t, s_in = args0["template"], args0["schedule"]
        j = G["J0"]
        y = AbsSchedule(fresh_int("sid"), fresh_int("ny"))
        assume(E(y) == E(ys.s))
        assume(implies(1 <= j and j <= y.num_dims, P(t, y, j, G["nchecks"])))
        if G["mode"] == "C03":
            check("C03: schedule yielded through recursion visits the same iteration multiset as the input", E(y) == E(s_in))
        else:
            check("C16: schedule yielded through recursion fits the template at every level (ghost level J0)",
                  implies(1 <= j and j <= y.num_dims, P(t, y, j, G["nchecks"])))

    def loop_inv(args0, cur, when):
        s_in, k = args0["schedule"], args0["inner_dims"]
        s = cur["schedule"]
        j = G["J0"]
        n = s_in.num_dims
        check(f"loop invariant {when}: same iteration multiset", E(s) == E(s_in))
        check(f"loop invariant {when}: num_dims unchanged", s.num_dims == n)
        check(f"loop invariant {when}: inner views below the focused level unchanged",
              implies(1 <= j and j < k, V(s, j) == V(s_in, j) and uf("sbound", s.sid, n - j) == uf("sbound", s_in.sid, n - j)))

    def loop_havoc(args0, cur, assigned):
        return {"schedule": AbsSchedule(fresh_int("sid"), fresh_int("n"))}

    def loop_assume(args0, cur):
        s_in, k = args0["schedule"], args0["inner_dims"]
        s = cur["schedule"]
        j = G["J0"]
        n = s_in.num_dims
        assume(E(s) == E(s_in))
        assume(s.num_dims == n)
        assume(implies(1 <= j and j < k, V(s, j) == V(s_in, j) and uf("sbound", s.sid, n - j) == uf("sbound", s_in.sid, n - j)))

    loops = {0: dict(inv=loop_inv, havoc=loop_havoc, assume=loop_assume)}

    def canary(sh, a, ret):
        check("canary: the scheduler never yields", len(list(ret)) == 0)


@contract
class scheduler_backtrack_iteration_space(_scheduler_backtrack_base):
    """C03: every yielded schedule is iteration-equivalent to the input; all call-site preconditions hold"""
    shapes = [dict(nchecks=c, mode="C03") for c in (0, 1, 2)]


@contract
class scheduler_backtrack_fits_template(_scheduler_backtrack_base):
    """C16: every level of every yielded schedule passed matches + extra checks and respects the template bound"""
    shapes = [dict(nchecks=c, mode="C16") for c in (0, 1, 2)]


# =====================================================================================
# scheduler(): the wrapper hands the requested constraints to the search on EVERY path
# =====================================================================================
SW = {}


class Marker:
    def __init__(self, tag):
        self.tag = tag


def backtrack_handler(local):
    """scheduler_backtrack through its contract: it yields exactly the schedules that satisfy the extra_checks it is GIVEN
    (scheduler_backtrack_fits_template) - so what matters here is which checks it is given"""
    SW["calls"].append((local["template"], local["schedule"], local["inner_dims"], local["extra_checks"]))
    return iter(list(SW["yields"]))


@contract
class scheduler_passes_constraints_contract:
    """whatever candidate is selected (the first, or the one with a given index), it comes from ONE search over the given
    template and schedule with exactly the requested extra checks"""
    target = "snaxc.ir.dart.scheduler.scheduler"
    shapes = [dict(idx=i, n=n) for i in (None, 0, 1, 2) for n in (1, 3) if i is None or i < n]
    native = False
    total = True
    permissive = True
    compare_ret = False
    modular = {"snaxc.ir.dart.scheduler.scheduler_backtrack": backtrack_handler}

    def args(sh, sym):
        SW["calls"] = []
        SW["yields"] = [Marker(k) for k in range(sh["n"])]
        return [Marker("template"), Marker("schedule"), [Marker("check0"), Marker("check1")], sh["idx"]]

    def ensures(sh, a, ret):
        t, s, checks, idx = a
        check("exactly one search", len(SW["calls"]) == 1)
        c = SW["calls"][0]
        check("... over the given template and schedule, from the innermost dimension", c[0] is t and c[1] is s and c[2] == 1)
        check("... with exactly the requested extra checks (also when a candidate is selected by index)",
              len(c[3]) == len(checks) and all(c[3][k] is checks[k] for k in range(len(checks))))
        check("the selected candidate is the first one, or the one with the requested index", ret is SW["yields"][0 if idx is None else idx])

    def canary(sh, a, ret):
        check("canary: always the last candidate", ret is SW["yields"][-1] and sh["n"] > 1)


# =====================================================================================
# the dart-scheduler pattern: whichever schedule it writes into the IR was selected under ALL the constraints
# =====================================================================================
import numpy as np  # noqa: E402
from pyvc.api import mk_memref_value  # noqa: E402
from xdsl.dialects.builtin import AffineMapAttr, ArrayAttr, IntegerType, MemRefType, NoneAttr  # noqa: E402
from xdsl.ir import Block, Region  # noqa: E402
from xdsl.ir.affine import AffineMap  # noqa: E402
from xdsl.pattern_rewriter import PatternRewriter  # noqa: E402

import snaxc.ir.dart.scheduler as sched_mod  # noqa: E402
import snaxc.transforms.dart.dart_scheduler as ds  # noqa: E402
from snaxc.accelerators.snax import SNAXStreamer  # noqa: E402
from snaxc.accelerators.streamers.streamers import Streamer, StreamerConfiguration, StreamerType  # noqa: E402
from snaxc.dialects import dart  # noqa: E402
from snaxc.ir.dart.access_pattern import Schedule, SchedulePattern, Template, TemplatePattern  # noqa: E402
from snaxc.ir.dart.affine_transform import AffineTransform  # noqa: E402

AF = {}


class SchedAccV(SNAXStreamer):
    def __init__(self, template):
        SNAXStreamer.__init__(self, StreamerConfiguration([Streamer(StreamerType.Reader, ["n"], [4], [])]))
        self._template = template

    def get_template(self, op):
        AF["template_for"] = op
        return self._template


class SchedCtxV:
    def __init__(self, acc):
        self.acc = acc

    def get_acc(self, name):
        return self.acc


def scheduler_handler(local):
    """scheduler() through its contract (scheduler_passes_constraints_contract + scheduler_backtrack_fits_template): the
    schedule it returns satisfies the extra checks it is GIVEN (default: output stationarity only) - record what it is given"""
    AF["calls"].append(dict(template=local["template"], schedule=local["schedule"], extra_checks=list(local["extra_checks"]), idx=local["schedule_idx"]))
    return AF["result"]


def flexible_handler(local):
    AF["flex_calls"].append((local["template"], local["schedule"], list(local["element_sizes"])))
    return True


def bounds_handler(local):
    return list(AF["bounds"])


@contract
class AutoflowScheduler_contract:
    """dart.operation -> dart.schedule: ONE scheduler run over the accelerator's template for this op and the op's own
    (canonicalised) schedule, constrained by output stationarity AND by the memory-access granularity of the operands'
    element sizes - also when a particular candidate is requested by index; the schedule written into the IR is the one
    returned (maps, bounds), operands / body / accelerator are kept"""
    target = "snaxc.transforms.dart.dart_scheduler.AutoflowScheduler.match_and_rewrite"
    shapes = [dict(idx=i, bits=b) for i in (None, 0, 3) for b in ((8, 8), (8, 32), (64, 64))]
    native = False
    total = True
    permissive = True
    compare_ret = False
    modular = {"snaxc.ir.dart.scheduler.scheduler": scheduler_handler,
               "snaxc.ir.dart.scheduler.is_memory_flexible_enough": flexible_handler,
               "snaxc.dialects.dart.OperationOp.get_static_pattern_bounds": bounds_handler}

    def args(sh, sym):
        AF["calls"], AF["flex_calls"], AF["bounds"] = [], [], [16]
        ident = AffineMap.identity(1)
        tmpl = Template([TemplatePattern([4], ident), TemplatePattern([4], ident)])
        # what the scheduler hands back: the op tiled by 4 (a fixed, recognisable answer)
        tiled = AffineTransform(np.array([[4, 1]]).reshape(1, 2), np.array([0]).reshape(1))
        AF["result"] = Schedule([SchedulePattern([4, 4], tiled), SchedulePattern([4, 4], tiled)])
        vals = [mk_memref_value(MemRefType(IntegerType(b), [16], NoneAttr()), [16], None, 0, 0) for b in sh["bits"]]
        body = Region(Block())
        op = dart.OperationOp([vals[0]], [vals[1]], ArrayAttr([AffineMapAttr(ident), AffineMapAttr(ident)]), body, "acc")
        return [op, SchedAccV(tmpl), tmpl, vals, body]

    def run(sh, a):
        rw = PatternRewriter(a[0])
        ds.AutoflowScheduler(SchedCtxV(a[1]), sh["idx"]).match_and_rewrite(a[0], rw)
        return rw.log

    def ensures(sh, a, ret):
        op, acc, tmpl, vals, body = a
        calls = AF["calls"]
        check("exactly one scheduler run", len(calls) == 1)
        c = calls[0]
        check("... over the accelerator's template for THIS op", c["template"] is tmpl and AF["template_for"] is op)
        s = c["schedule"]
        check("... and the op's own iteration space: one pattern per operand, bounds = the op's static bounds, the op's maps",
              len(s) == 2 and all(list(p.bounds) == [16] and p.pattern.A.tolist() == [[1]] and p.pattern.b.tolist() == [0] for p in s))
        checks = c["extra_checks"]
        check("constraint 1: pure output stationarity is among the checks handed to the scheduler", any(k is sched_mod.is_pure_output_stationary for k in checks))
        # constraint 2: some check handed over evaluates is_memory_flexible_enough on its arguments with the operands' element sizes
        t_mark, s_mark = Template([TemplatePattern([2], AffineMap.identity(1))]), Schedule([SchedulePattern([2], AffineMap.identity(1))])
        for k in checks:
            if k is not sched_mod.is_pure_output_stationary:
                k(t_mark, s_mark)
        want = [b // 8 for b in sh["bits"]]
        check("constraint 2: memory-access granularity for the operands' element sizes (in bytes) is among the checks - whether or not a schedule index was requested",
              any(f[0] is t_mark and f[1] is s_mark and f[2] == want for f in AF["flex_calls"]))
        rep = [e for e in ret if e[0] == "replace_op"]
        check("the op is replaced by one dart.schedule", len(ret) >= 1 and len(rep) == 1 and rep[0][1] is op and len(rep[0][2]) == 1 and isinstance(rep[0][2][0], dart.ScheduleOp))
        new = rep[0][2][0]
        check("the schedule written into the IR is the one the scheduler returned: maps", [m.data.eval([3, 2], [])[0] for m in new.patterns.data] == [14, 14] and len(new.patterns.data) == 2)
        check("... and bounds", [x.value.data for x in new.bounds.data] == [4, 4])
        check("operands and accelerator are kept", new.operands[0] is vals[0] and new.operands[1] is vals[1] and new.accelerator == op.accelerator)

    def canary(sh, a, ret):
        check("canary: the scheduler is never asked", len(AF["calls"]) == 0)
