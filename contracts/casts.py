"""Contracts for C12 (constant re-layout clause)."""
from pyvc.api import check, contract

from snaxc.transforms.frontend.remove_transpose_constants import RemoveTransposeConstants


@contract
class transpose_tuple_contract:
    """as called (`*const_type.get_shape()`): the result is the row-major transpose of the row-major input"""
    target = "snaxc.transforms.frontend.remove_transpose_constants.RemoveTransposeConstants.transpose_tuple"
    shapes = [dict(s0=a, s1=b) for a in (1, 2, 3, 4, 5) for b in (1, 2, 3, 4, 5)]
    quick = lambda sh: sh["s0"] * sh["s1"] <= 12
    total = True

    def args(sh, sym):
        n = sh["s0"] * sh["s1"]
        return [RemoveTransposeConstants(), tuple(sym.int(f"a{i}") for i in range(n)), sh["s0"], sh["s1"]]

    def ensures(sh, a, ret):
        _, data, s0, s1 = a
        check("same number of elements", len(ret) == s0 * s1)
        check("out[c][r] == in[r][c]: the input is s0 x s1 row-major, the output s1 x s0 row-major",
              all(ret[c * s0 + r] == data[r * s1 + c] for r in range(s0) for c in range(s1)))

    def canary(sh, a, ret):
        check("canary: transposition is the identity", list(ret) == list(a[1]) and sh["s0"] > 1 and sh["s1"] > 1)


# =====================================================================================
# RealizeMemrefCasts: copy-in before the first reader, copy-back after the last writer
# =====================================================================================
from xdsl.dialects import func, linalg, memref  # noqa: E402
from xdsl.dialects.builtin import MemRefType, NoneAttr, StringAttr, i32  # noqa: E402
from xdsl.ir import Block, Operation, Region, SSAValue, Use  # noqa: E402
from xdsl.pattern_rewriter import PatternRewriter  # noqa: E402

from snaxc.dialects.snax import LayoutCast  # noqa: E402
from snaxc.transforms.realize_memref_casts import RealizeMemrefCasts  # noqa: E402

KINDS = ("R", "W", "RW", "X", "N", "Ret")


class OtherOp(Operation):
    """an op of an unknown dialect that uses the value (the pass must assume it reads AND writes)"""

    def __init__(self, values):
        self._init_op(values, [], [])


def mk_user(kind, v, other):
    """R: generic ins(v) outs(other); W: ins(other) outs(v); RW: ins(v) outs(v); X: unknown op using v;
    N: an op that does not use v; Ret: func.return v"""
    if kind == "R":
        o = linalg.GenericOp([v], [other])
    elif kind == "W":
        o = linalg.GenericOp([other], [v])
    elif kind == "RW":
        o = linalg.GenericOp([v], [v])
    elif kind == "X":
        o = OtherOp([v])
    elif kind == "Ret":
        o = func.ReturnOp(v)
    else:
        o = OtherOp([other])
    if kind != "N":
        v.uses.append(Use(o, 0))
    return o


def reads(kind):
    return kind in ("R", "RW", "X", "Ret")


def writes(kind):
    return kind in ("W", "RW", "X")


def rmc_shapes():
    out = []
    for a in KINDS:
        for b in KINDS:
            for c in KINDS:
                seq = [a, b, c]
                # func.return is a terminator: last position only
                if "Ret" in seq[:2]:
                    continue
                out.append(dict(seq=seq))
                # the same sequence with one user nested in a region op (e.g. inside an scf.for): the pass must look into it
                for n in range(3):
                    if seq[n] not in ("N", "Ret"):
                        out.append(dict(seq=seq, nest=n))
    return out


def simulate(seq_ops, kinds_of, stand_in, original):
    """token-level data flow of the REWRITTEN block: returns (values each user read, final value of the original)"""
    mem = {"O": ("init",), "S": ("undef",)}
    seen = []
    for o in seq_ops:
        if isinstance(o, memref.CopyOp):
            src = "S" if o.source is stand_in else ("O" if o.source is original else None)
            dst = "S" if o.destination is stand_in else ("O" if o.destination is original else None)
            if src is not None and dst is not None:
                mem[dst] = mem[src]
            continue
        k = None
        for (u, kk, i) in kinds_of:
            if u is o:
                k = (kk, i)
        if k is None:
            continue
        kind, i = k
        if reads(kind):
            seen.append((i, mem["S"]))
        if writes(kind):
            mem["S"] = ("w", i)
    return seen, mem["O"]


def reference(kinds):
    """the ORIGINAL block: every user touches the one buffer X"""
    x = ("init",)
    seen = []
    i = 0
    for kind in kinds:
        if reads(kind):
            seen.append((i, x))
        if writes(kind):
            x = ("w", i)
        i += 1
    return seen, x


@contract
class RealizeMemrefCasts_placement_contract:
    """token-level data flow: with the inserted copies every user of the stand-in buffer reads what it read from the
    original buffer before the rewrite, and after the block the original buffer holds what it held before the rewrite"""
    target = "snaxc.transforms.realize_memref_casts.RealizeMemrefCasts.match_and_rewrite"
    shapes = rmc_shapes()
    native = False
    total = True
    permissive = True
    compare_ret = False

    def args(sh, sym):
        src_t = MemRefType(i32, [8], NoneAttr(), StringAttr("L3"))
        dst_t = MemRefType(i32, [8], NoneAttr(), StringAttr("L1"))
        src = SSAValue(None, src_t)
        other = SSAValue(None, dst_t)
        cast = LayoutCast(src, dst_t)
        users = [mk_user(k, cast.results[0], other) for k in sh["seq"]]
        top = list(users)
        if "nest" in sh:
            w = OtherOp([])
            r = Region([Block([users[sh["nest"]]])])
            r.parent = w
            w.regions = [r]
            top[sh["nest"]] = w
        blk = Block([cast] + top)
        Region([blk])
        return [RealizeMemrefCasts(), cast, src, users, blk]

    def run(sh, a):
        rw = PatternRewriter(a[1])
        a[0].match_and_rewrite(a[1], rw)
        return rw.log

    def ensures(sh, a, ret):
        pat, cast, src, users, blk = a
        kinds = sh["seq"]
        if all(k == "N" for k in kinds):
            check("an unused cast is left alone", len(ret) == 0)
            return
        reps = [e for e in ret if e[0] == "replace_op" and e[1] is cast]
        check("the cast is replaced by the allocation of its stand-in buffer", len(reps) == 1 and isinstance(reps[0][2][-1], memref.AllocOp))
        alloc = reps[0][2][-1]
        # after the replacement every user of the cast value sees the alloc result: identify the two
        stand_in = cast.results[0]
        before = {}
        after = {}
        for e in ret:
            if e[0] == "insert_op":
                ops = e[1] if isinstance(e[1], (list, tuple)) else [e[1]]
                key = id(e[2].anchor)
                if e[2].kind == "before":
                    before[key] = before.get(key, []) + list(ops)
                else:
                    check("copies are placed before or after an op", e[2].kind == "after")
                    # a later insert_after lands closer to the anchor
                    after[key] = list(ops) + after.get(key, [])
        seq = []
        for u in users:
            seq = seq + before.get(id(u), []) + [u] + after.get(id(u), [])
        k = 0
        kinds_of = []
        for u in users:
            kinds_of.append((u, kinds[k], k))
            k += 1
        got_seen, got_final = simulate(seq, kinds_of, stand_in, src)
        ref_seen, ref_final = reference(kinds)
        check("every reader of the stand-in buffer reads the data it read from the original buffer", got_seen == ref_seen)
        check("after the block the original buffer holds the data of the last writer (or is untouched)", got_final == ref_final)

    def canary(sh, a, ret):
        check("canary: no copy is ever needed", all(e[0] != "insert_op" for e in ret) and any(k != "N" for k in sh["seq"]))


# =====================================================================================
# RealizeMemrefCasts: the stand-in buffer has the run-time extents of the original, dimension by dimension
# =====================================================================================
from pyvc.api import den, mk_memref_value  # noqa: E402
from xdsl.dialects.builtin import DYNAMIC_INDEX  # noqa: E402

DYN_SHAPES = [dict(mask=m) for m in ((True,), (True, False), (False, True), (True, True), (False, True, False), (True, False, True), (False, False, True), (True, True, False))]


@contract
class RealizeMemrefCasts_dynamic_sizes_contract:
    """every dynamic dimension of the stand-in allocation gets the run-time extent of THAT dimension of the original"""
    target = "snaxc.transforms.realize_memref_casts.RealizeMemrefCasts.match_and_rewrite"
    shapes = DYN_SHAPES
    native = False
    total = True
    permissive = True
    compare_ret = False

    def args(sh, sym):
        mask = sh["mask"]
        n = len(mask)
        static = [3 + k for k in range(n)]
        shape = [DYNAMIC_INDEX if mask[k] else static[k] for k in range(n)]
        rt = [sym.int(f"n{k}", 1) if mask[k] else static[k] for k in range(n)]
        src_t = MemRefType(i32, shape, NoneAttr(), StringAttr("L3"))
        dst_t = MemRefType(i32, shape, NoneAttr(), StringAttr("L1"))
        src = mk_memref_value(src_t, rt)
        cast = LayoutCast(src, dst_t)
        user = mk_user("R", cast.results[0], SSAValue(None, dst_t))
        blk = Block([cast, user])
        Region([blk])
        return [RealizeMemrefCasts(), cast, rt]

    def run(sh, a):
        rw = PatternRewriter(a[1])
        a[0].match_and_rewrite(a[1], rw)
        return rw.log

    def ensures(sh, a, ret):
        pat, cast, rt = a
        mask = sh["mask"]
        reps = [e for e in ret if e[0] == "replace_op" and e[1] is cast]
        check("the cast is replaced by ops ending in the allocation", len(reps) == 1 and isinstance(reps[0][2][-1], memref.AllocOp))
        alloc = reps[0][2][-1]
        dyn = list(alloc.dynamic_sizes)
        want = [rt[k] for k in range(len(mask)) if mask[k]]
        check("one dynamic size per dynamic dimension", len(dyn) == len(want))
        for j in range(len(want)):
            check(f"dynamic size {j} of the stand-in == run-time extent of the original's dynamic dimension #{j} (same position in the shape)", den(dyn[j]) == want[j])
        check("every op computing a size is part of the replacement, before the allocation",
              all(any(d.owner is o for o in reps[0][2][:-1]) for d in dyn))

    def canary(sh, a, ret):
        check("canary: no dynamic sizes are ever passed", len([e for e in ret if e[0] == "replace_op"][0][2][-1].dynamic_sizes) == 0)


# =====================================================================================
# ApplyLayoutCastSubviewGlobal: a global is only re-laid-out when the subview is its ONLY reader
# =====================================================================================
import snaxc.transforms.realize_memref_casts as rmc  # noqa: E402

SG = {}


def lookup_observer(local):
    """SymbolTable.lookup_symbol through a recording double: reaching it means the pattern got past its guards"""
    SG["lookups"] = SG.get("lookups", 0) + 1
    return None


@contract
class ApplyLayoutCastSubviewGlobal_guard_contract:
    """the pattern goes on to transform the global only if the memref.get_global has exactly one use (this subview): every
    other reader would keep its old type over the re-laid-out data"""
    target = "snaxc.transforms.realize_memref_casts.ApplyLayoutCastSubviewGlobal.match_and_rewrite"
    shapes = [dict(global_uses=g, subview_uses=s) for g in (1, 2, 3) for s in (1, 2)]
    native = False
    total = True
    permissive = True
    compare_ret = False
    modular = {"xdsl.traits.SymbolTable.lookup_symbol": lookup_observer}

    def args(sh, sym):
        SG["lookups"] = 0
        t = MemRefType(i32, [8, 8], NoneAttr(), StringAttr("L3"))
        gg = memref.GetGlobalOp()
        gg._init_op([], [None], [t])
        gg.name_ = StringAttr("weights")
        sv = memref.SubviewOp(gg.results[0], t, [], [], [], [0, 0], [8, 8], [1, 1])
        gg.results[0].uses.append(Use(sv, 0))
        for _ in range(sh["global_uses"] - 1):
            other = memref.SubviewOp(gg.results[0], t, [], [], [], [0, 0], [8, 8], [1, 1])
            gg.results[0].uses.append(Use(other, 0))
        cast = LayoutCast(sv.results[0], t)
        sv.results[0].uses.append(Use(cast, 0))
        for _ in range(sh["subview_uses"] - 1):
            sv.results[0].uses.append(Use(OtherOp([sv.results[0]]), 0))
        blk = Block([gg, sv, cast])
        Region([blk])
        return [rmc.ApplyLayoutCastSubviewGlobal(), cast]

    def run(sh, a):
        rw = PatternRewriter(a[1])
        a[0].match_and_rewrite(a[1], rw)
        return rw.log

    def ensures(sh, a, ret):
        check("the global is only looked up (and then transformed) when the get_global has a single use", SG["lookups"] == 0 or sh["global_uses"] == 1)
        check("a get_global with a single use is processed", sh["global_uses"] != 1 or SG["lookups"] == 1)
        check("nothing is rewritten in this view (the global cannot be resolved)", len(ret) == 0)

    def canary(sh, a, ret):
        check("canary: the global is never looked up", SG["lookups"] == 0)


# =====================================================================================
# set-memory-space: every memref operand of a compute op ends up in local memory
# =====================================================================================
from pyvc.api import mk_ident_value  # noqa: E402
from xdsl.dialects.builtin import IndexType  # noqa: E402

from snaxc.transforms.set_memory_space import InitStreamAndLinalgMemorySpace  # noqa: E402
from snaxc.util.snax_memory import L1, L3  # noqa: E402


class ComputeOpView(Operation):
    """a linalg.generic / dart.operation as far as the pattern looks at it: its operands"""

    def __init__(self, operands):
        self._init_op(list(operands), [], [])


SPACE_CASES = [
    ("L3",), ("none",), ("other",), ("L1",), ("index",), ("L1", "L3"), ("none", "L1", "other"), ("L3", "=0"), ("other", "index", "=0"),
    ("L3+cast",), ("none+cast",), ("other+cast", "L3"), ("L3+cast_elsewhere",), ("none", "L3+cast", "=0"),
]


def space_attr(kind):
    return dict(L1=L1.attribute, L3=L3.attribute, none=NoneAttr(), other=StringAttr("L2"))[kind]


@contract
class InitStreamAndLinalgMemorySpace_contract:
    """afterwards EVERY memref operand of the compute op is in L1 - whatever memory space it came from (L3, no space at all,
    any other space): it is the result of a memory-space cast of the original value (same element type, shape, layout;
    an existing cast to L1 is reused); operands already in L1 and non-memref operands are left alone"""
    target = "snaxc.transforms.set_memory_space.InitStreamAndLinalgMemorySpace.match_and_rewrite"
    shapes = [dict(operands=c) for c in SPACE_CASES]
    native = False
    total = True
    permissive = True
    compare_ret = False

    def args(sh, sym):
        vals, casts = [], {}
        for k, spec in enumerate(sh["operands"]):
            if spec.startswith("="):
                vals.append(vals[int(spec[1:])])
                continue
            kind = spec.split("+")[0]
            if kind == "index":
                vals.append(mk_ident_value(100 + k, IndexType()))
                continue
            v = mk_ident_value(100 + k, MemRefType(i32, [4, 8], NoneAttr(), space_attr(kind)))
            if "+cast" in spec:
                target = StringAttr("L2b") if spec.endswith("elsewhere") else L1.attribute
                c = memref.MemorySpaceCastOp.from_type_and_target_space(v, v.type, target)
                v.uses.append(Use(c, 0))
                casts[k] = c
            vals.append(v)
        op = ComputeOpView(vals)
        for k, v in enumerate(vals):
            v.uses.append(Use(op, k))
        return [op, vals, casts]

    def run(sh, a):
        rw = PatternRewriter(a[0])
        InitStreamAndLinalgMemorySpace().match_and_rewrite(a[0], rw)
        return rw.log

    def ensures(sh, a, ret):
        op, vals, casts = a
        inserted = [o for e in ret if e[0] == "insert_op" for o in e[1]]
        check("nothing but memory-space casts is inserted, in front of the op", all(isinstance(o, memref.MemorySpaceCastOp) for o in inserted)
              and all(e[0] == "insert_op" and (e[2] is None or (e[2].kind == "before" and e[2].anchor is op)) for e in ret))
        check("the op keeps its number of operands", len(op.operands) == len(vals))
        for k in range(min(len(vals), len(op.operands))):
            now, was = op.operands[k], vals[k]
            if not isinstance(was.type, MemRefType):
                check(f"operand {k} (not a memref) is left alone", now is was)
            elif was.type.memory_space == L1.attribute:
                check(f"operand {k} (already in L1) is left alone", now is was)
            else:
                check(f"operand {k}: now in L1", isinstance(now.type, MemRefType) and now.type.memory_space == L1.attribute)
                c = now.owner
                check(f"operand {k}: the L1 value is a memory-space cast of the original value - same element type, shape and layout",
                      isinstance(c, memref.MemorySpaceCastOp) and c.source is was and now is c.dest and now.type.element_type == was.type.element_type
                      and now.type.get_shape() == was.type.get_shape() and now.type.layout == was.type.layout)
                mine = [j for j in casts if vals[j] is was and casts[j].dest.type.memory_space == L1.attribute]
                if len(mine) > 0:
                    check(f"operand {k}: the existing cast to L1 is reused", c is casts[mine[0]] and not any(o is c for o in inserted))
                else:
                    check(f"operand {k}: its cast is one of the inserted ops", any(o is c for o in inserted))
        check("every inserted cast casts one of the op's own operands that is not in L1 yet, to L1",
              all(any(o.source is v for v in vals) and isinstance(o.source.type, MemRefType) and o.source.type.memory_space != L1.attribute
                  and o.dest.type.memory_space == L1.attribute for o in inserted))

    def canary(sh, a, ret):
        check("canary: no cast is ever inserted", len(ret) == 0 and any(s.split("+")[0] in ("L3", "none", "other") for s in sh["operands"]))


# =====================================================================================
# set-memory-space: a public function's boundary memrefs (arguments AND results) without a memory space get the external one
# =====================================================================================
from xdsl.dialects.builtin import FunctionType  # noqa: E402

from snaxc.transforms.set_memory_space import InitFuncMemorySpace  # noqa: E402

FUNC_CASES = [(("none",), ()), ((), ("none",)), (("L3",), ("none",)), (("none", "index"), ("L3",)), (("L1",), ("none", "none")), (("L3",), ("L3",)), ((), ()),
              (("index",), ("index",)), (("none", "L1"), ("none",))]


def boundary_type(kind):
    return IndexType() if kind == "index" else MemRefType(i32, [4, 8], NoneAttr(), space_attr(kind))


@contract
class InitFuncMemorySpace_contract:
    """after the rewrite of a PUBLIC function no memref in its signature - argument or result - is without a memory space:
    those that had none are in the external memory L3 (same element type, shape, layout), every other type is kept; the
    block arguments follow the new input types; private functions and functions without such memrefs are left alone"""
    target = "snaxc.transforms.set_memory_space.InitFuncMemorySpace.match_and_rewrite"
    shapes = [dict(ins=i, outs=o, vis=v) for i, o in FUNC_CASES for v in (None, "public", "private") if v != "private" or (i, o) == FUNC_CASES[0]]
    native = False
    total = True
    permissive = True
    compare_ret = False

    def args(sh, sym):
        ins = [boundary_type(k) for k in sh["ins"]]
        outs = [boundary_type(k) for k in sh["outs"]]
        blk = Block([], ins)
        f = func.FuncOp("f", FunctionType.from_lists(ins, outs), Region([blk]), sh["vis"])
        return [f, ins, outs, blk]

    def run(sh, a):
        rw = PatternRewriter(a[0])
        InitFuncMemorySpace().match_and_rewrite(a[0], rw)
        return rw.log

    def ensures(sh, a, ret):
        f, ins, outs, blk = a
        needs = any(k == "none" for k in sh["ins"] + sh["outs"])
        rep = [e for e in ret if e[0] == "replace_op"]
        if sh["vis"] == "private" or not needs:
            check("private functions, and functions whose boundary memrefs all have a memory space, are left alone", len(rep) == 0)
            return
        check("the function is replaced by one new func.func of the same name and visibility", len(rep) == 1 and rep[0][1] is f and len(rep[0][2]) == 1
              and isinstance(rep[0][2][0], func.FuncOp) and rep[0][2][0].sym_name == f.sym_name and rep[0][2][0].sym_visibility == f.sym_visibility)
        if len(rep) != 1:
            return
        ft = rep[0][2][0].function_type

        def want(t, kind, orig):
            if kind == "none":
                return isinstance(t, MemRefType) and t.memory_space == L3.attribute and t.element_type == i32 and t.get_shape() == (4, 8) and t.layout == NoneAttr()
            if t is orig:
                return True
            return type(t) is type(orig) and (not isinstance(t, MemRefType) or (t.memory_space == orig.memory_space and t.element_type == orig.element_type
                                                                                 and t.get_shape() == orig.get_shape() and t.layout == orig.layout))

        new_ins, new_outs = list(ft.inputs.data), list(ft.outputs.data)
        check("same number of arguments and results", len(new_ins) == len(ins) and len(new_outs) == len(outs))
        check("every ARGUMENT memref without a memory space is now in L3, every other argument type is kept",
              len(new_ins) == len(ins) and all(want(new_ins[k], sh["ins"][k], ins[k]) for k in range(len(ins))))
        check("every RESULT memref without a memory space is now in L3, every other result type is kept",
              len(new_outs) == len(outs) and all(want(new_outs[k], sh["outs"][k], outs[k]) for k in range(len(outs))))
        args_now = list(blk.args)
        check("the entry block's arguments have the new argument types", len(args_now) == len(ins) and all(want(args_now[k].type, sh["ins"][k], ins[k]) for k in range(len(ins))))

    def canary(sh, a, ret):
        check("canary: no function is ever rewritten", len(ret) == 0)
