"""Contracts for C12 (constant re-layout clause)."""
from pyvc.api import check, contract

from snaxc.transforms.frontend.remove_transpose_constants import RemoveTransposeConstants


@contract
class transpose_tuple_contract:
    """as called (`*const_type.get_shape()`): the result is the row-major transpose of the row-major input"""
    target = "snaxc.transforms.frontend.remove_transpose_constants.RemoveTransposeConstants.transpose_tuple"
    shapes = [dict(s0=a, s1=b) for a in (1, 2, 3, 4, 5) for b in (1, 2, 3, 4, 5)]
    quick = lambda sh: sh["s0"] * sh["s1"] <= 12
    total = True

    def args(sh, sym):
        n = sh["s0"] * sh["s1"]
        return [RemoveTransposeConstants(), tuple(sym.int(f"a{i}") for i in range(n)), sh["s0"], sh["s1"]]

    def ensures(sh, a, ret):
        _, data, s0, s1 = a
        check("same number of elements", len(ret) == s0 * s1)
        check("out[c][r] == in[r][c]: the input is s0 x s1 row-major, the output s1 x s0 row-major",
              all(ret[c * s0 + r] == data[r * s1 + c] for r in range(s0) for c in range(s1)))

    def canary(sh, a, ret):
        check("canary: transposition is the identity", list(ret) == list(a[1]) and sh["s0"] > 1 and sh["s1"] > 1)
