"""Contracts for snaxc/transforms/pipeline/pipeline_canonicalize_for.py (C17)."""
from pyvc.api import SYMBOLIC, check, contract, den, implies
from xdsl.dialects import arith, scf
from xdsl.dialects.builtin import IndexType
from xdsl.ir import Block, Operation, Region
from xdsl.pattern_rewriter import PatternRewriter

import snaxc.transforms.pipeline.pipeline_canonicalize_for as pcf


def trip(lb, ub, step):
    """number of iterations of scf.for %i = lb to ub step s (s >= 1): max(0, ceil((ub-lb)/s))"""
    n = ub - lb
    if n <= 0:
        return 0
    return (n + step - 1) // step


def const(v):
    return arith.ConstantOp.from_int_and_width(v, IndexType())


def mk_for(lb, ub, step, body_ops=()):
    """scf.for over index constants with the given body (a yield is appended)"""
    blk = Block(list(body_ops) + [scf.YieldOp()], arg_types=[IndexType()])
    return scf.ForOp(const(lb), const(ub), const(step), [], Region([blk]))


@contract
class ChangeForStep_contract:
    """normalising the step to 1 keeps the trip count and the induction-variable values (UNBOUNDED over lb, ub, step)"""
    target = "snaxc.transforms.pipeline.pipeline_canonicalize_for.ChangeForStep.match_and_rewrite"
    shapes = [dict(kind="plain")]
    compare_ret = False

    def args(sh, sym):
        lb, ub, step = sym.int("lb"), sym.int("ub"), sym.int("step")
        return [lb, ub, step, sym.int("j", 0)]

    def requires(sh, a):
        lb, ub, step, j = a
        return step >= 1 and ub >= 0 and lb >= 0  # scf.for requires a positive step; index values are non-negative

    def run(sh, a):
        lb, ub, step, j = a
        op = mk_for(lb, ub, step)
        rw = PatternRewriter(op)
        pcf.ChangeForStep().match_and_rewrite(op, rw)
        rep = [e for e in rw.log if e[0] == "replace_op"]
        if len(rep) == 0:
            return dict(rewritten=False, log=len(rw.log))
        assert len(rep) == 1 and rep[0][1] is op
        new_for = [o for o in rep[0][2] if isinstance(o, scf.ForOp)][0]
        arg = new_for.body.block.args[0]
        ins = [e for e in rw.log if e[0] == "insert_op"]
        new_iv = arg.replaced[0] if arg.replaced is not None else None
        # the value the body sees when the new induction variable holds k: bind the block argument's denotation
        return dict(rewritten=True, new_lb=den(new_for.lb), new_ub=den(new_for.ub), new_step=den(new_for.step),
                    argden=den(arg), seen=den(new_iv) if new_iv is not None else den(arg),
                    iv_inserted=new_iv is None or (len(ins) >= 1 and any(o is new_iv.owner for e in ins for o in e[1]) and all(e[2].anchor is new_for.body.block for e in ins)))

    def native_run(sh, a):
        from xdsl.dialects.builtin import ModuleOp
        from xdsl.dialects.test import TestOp
        lb, ub, step, j = a
        lbc, ubc, stc = const(lb), const(ub), const(step)
        blk = Block(arg_types=[IndexType()])
        use = TestOp(operands=[blk.args[0]])
        blk.add_ops([use, scf.YieldOp()])
        op = scf.ForOp(lbc, ubc, stc, [], Region([blk]))
        mod = ModuleOp([lbc, ubc, stc, op])
        rw = PatternRewriter(op)
        pcf.ChangeForStep().match_and_rewrite(op, rw)
        fors = [o for o in mod.body.block.ops if isinstance(o, scf.ForOp)]
        assert len(fors) == 1
        nf = fors[0]
        if nf is op:
            return dict(rewritten=False, log=0)
        body = list(nf.body.block.ops)
        seen = use.operands[0]
        k = den(nf.lb) + j * den(nf.step)  # value of the new induction variable in iteration j
        return dict(rewritten=True, new_lb=den(nf.lb), new_ub=den(nf.ub), new_step=den(nf.step), argden=k,
                    seen=den(seen, {id(nf.body.block.args[0]): k}), iv_inserted=seen is nf.body.block.args[0] or any(o is seen.owner for o in body))

    def ensures(sh, a, ret):
        lb, ub, step, j = a
        if not ret["rewritten"]:
            check("the guards only skip loops that are already normal or unsupported", lb != 0 or step == 1)
            check("nothing was recorded when not rewriting", ret["log"] == 0)
        else:
            check("rewritten loop has step 1", ret["new_step"] == 1)
            check("same number of iterations (also when ub is not a multiple of step)", trip(ret["new_lb"], ret["new_ub"], 1) == trip(lb, ub, step))
            check("the recomputed induction variable is defined inside the body before its users", ret["iv_inserted"])
            # iteration j of the new loop binds the block argument to new_lb + j; the body must see the old index lb + j*step
            check("body sees index lb + j*step in iteration j",
                  implies(ret["argden"] == ret["new_lb"] + j and j < trip(lb, ub, step), ret["seen"] == lb + j * step))

    def canary(sh, a, ret):
        check("canary: loops are never rewritten", not ret["rewritten"])


class OtherOp(Operation):
    """an arbitrary operation in a loop body; `impure` is a ghost flag: it has an observable side effect"""

    def __init__(self, impure):
        self._init_op([], [], [])
        self.impure = impure


def mk_other(impure):
    if SYMBOLIC:
        return OtherOp(impure)
    from xdsl.dialects.test import TestOp, TestPureOp
    return TestOp() if impure else TestPureOp()


@contract
class MergeForLoops_guards_contract:
    """a nest is only merged when both loops count from 0 in steps of 1 (the index reconstruction k div ub / k mod ub
    numbers the iterations of both loops from 0)"""
    target = "snaxc.transforms.pipeline.pipeline_canonicalize_for.MergeForLoops.match_and_rewrite"
    shapes = [dict(kind="guards")]
    compare_ret = False

    def args(sh, sym):
        return [sym.int("lb", 0), sym.int("step", 1), sym.int("lb_p", 0), sym.int("step_p", 1), sym.int("ub", 1), sym.int("ub_p", 0)]

    def run(sh, a):
        lb, st, lb_p, st_p, ub, ub_p = a
        inner = mk_for(lb, ub, st, [mk_other(True)])
        parent = mk_for(lb_p, ub_p, st_p, [inner])
        rw = PatternRewriter(inner)
        pcf.MergeForLoops().match_and_rewrite(inner, rw)
        return dict(rewritten=len(rw.log) > 0)

    def native_run(sh, a):
        from xdsl.dialects.builtin import ModuleOp
        lb, st, lb_p, st_p, ub, ub_p = a
        inner = mk_for(lb, ub, st, [mk_other(True)])
        parent = mk_for(lb_p, ub_p, st_p, [inner])
        mod = ModuleOp([parent.lb.owner, parent.ub.owner, parent.step.owner, parent])
        rw = PatternRewriter(inner)
        pcf.MergeForLoops().match_and_rewrite(inner, rw)
        return dict(rewritten=rw.has_done_action)

    def ensures(sh, a, ret):
        lb, st, lb_p, st_p, ub, ub_p = a
        check("merged only if BOTH loops start at 0 and step by 1", implies(ret["rewritten"], lb == 0 and lb_p == 0 and st == 1 and st_p == 1))

    def canary(sh, a, ret):
        check("canary: never merged", not ret["rewritten"])


@contract
class MergeForLoops_contract:
    """merging a two-deep nest into one loop: index reconstruction is the lexicographic bijection
    k <-> (k div ub, k mod ub), and every side-effecting operation still executes the same number of times"""
    target = "snaxc.transforms.pipeline.pipeline_canonicalize_for.MergeForLoops.match_and_rewrite"
    shapes = [dict(pre=p, post=q) for p in (0, 1) for q in (0, 1)]
    compare_ret = False

    def args(sh, sym):
        return [sym.int("ub", 1), sym.int("ub_p", 0), [sym.bool(f"impure_pre{k}") for k in range(sh["pre"])], [sym.bool(f"impure_post{k}") for k in range(sh["post"])],
                sym.int("k", 0), sym.int("q", 0), sym.int("r", 0)]

    def build(sh, a):
        ub, ub_p, pre, post = a[0], a[1], a[2], a[3]
        inner_body_op = mk_other(True)
        inner = mk_for(0, ub, 1, [inner_body_op])
        pre_ops = [mk_other(x) for x in pre]
        post_ops = [mk_other(x) for x in post]
        parent = mk_for(0, ub_p, 1, pre_ops + [inner] + post_ops)
        return parent, inner, inner_body_op, pre_ops + post_ops

    def run(sh, a):
        parent, inner, inner_body_op, others = MergeForLoops_contract.build(sh, a)
        rw = PatternRewriter(inner)
        pcf.MergeForLoops().match_and_rewrite(inner, rw)
        rep = [e for e in rw.log if e[0] == "replace_op"]
        assert len(rep) == 1 and rep[0][1] is parent
        new_parent = rep[0][2][0]
        arg = new_parent.body.block.args[0]
        new_parent_iter = arg.replaced[0].owner
        new_iter = inner.body.block.args[0].replaced[0].owner
        inl = [e for e in rw.log if e[0] == "inline_block"]
        er = [e for e in rw.log if e[0] == "erase_op"]
        n_after = trip(den(new_parent.lb), den(new_parent.ub), den(new_parent.step))
        return dict(new_ub=den(new_parent.ub), new_lb=den(new_parent.lb), new_step=den(new_parent.step),
                    parent_iv=(new_parent_iter, arg), inner_iv=(new_iter, arg),
                    inner_inlined=len(inl) == 1 and inl[0][1] is inner.body.block and inl[0][2].kind == "before" and inl[0][2].anchor is inner
                    and any(e[1] is inner for e in er) and any(isinstance(e[1], scf.YieldOp) for e in er),
                    others_after=[n_after if any(o is x for x in new_parent.body.block.ops) else None for o in others],
                    inner_after=n_after)

    def native_run(sh, a):
        from xdsl.dialects.builtin import ModuleOp
        parent, inner, inner_body_op, others = MergeForLoops_contract.build(sh, a)
        mod = ModuleOp([parent.lb.owner, parent.ub.owner, parent.step.owner, parent])
        rw = PatternRewriter(inner)
        pcf.MergeForLoops().match_and_rewrite(inner, rw)
        fors = [o for o in mod.body.block.ops if isinstance(o, scf.ForOp)]
        assert len(fors) == 1
        nf = fors[0]
        arg = nf.body.block.args[0]
        body = list(nf.body.block.ops)
        assert not any(isinstance(o, scf.ForOp) for o in body)
        div = [o for o in body if isinstance(o, arith.DivUIOp)][0]
        rem = [o for o in body if isinstance(o, arith.RemUIOp)][0]
        n_after = trip(den(nf.lb), den(nf.ub), den(nf.step))
        return dict(new_ub=den(nf.ub), new_lb=den(nf.lb), new_step=den(nf.step), parent_iv=(div, arg), inner_iv=(rem, arg),
                    inner_inlined=any(o is inner_body_op for o in body),
                    others_after=[n_after if any(o is x for x in body) else None for o in others], inner_after=n_after)

    def ensures(sh, a, ret):
        ub, ub_p, pre, post, k, q, r = a
        check("merged loop runs ub * ub_parent times from 0 with step 1", ret["new_ub"] == ub * ub_p and ret["new_lb"] == 0 and ret["new_step"] == 1)
        d, arg = ret["parent_iv"]
        m, arg2 = ret["inner_iv"]
        check("parent index is rebuilt as k div ub", isinstance(d, arith.DivUIOp) and d.lhs is arg and den(d.rhs) == ub)
        check("inner index is rebuilt as k mod ub", isinstance(m, arith.RemUIOp) and m.lhs is arg2 and den(m.rhs) == ub)
        # the lexicographic bijection [0, ub*ub_p) <-> [0,ub_p) x [0,ub)   (arithmetic lemma, all values)
        check("k in range maps into the nest's index box", implies(k < ub * ub_p, 0 <= k // ub and k // ub < ub_p and 0 <= k % ub and k % ub < ub))
        check("every (q, r) of the nest is hit by k = q*ub + r, in lexicographic order",
              implies(q < ub_p and r < ub, q * ub + r < ub * ub_p and (q * ub + r) // ub == q and (q * ub + r) % ub == r))
        check("the inner body is inlined into the merged loop and the inner loop removed", ret["inner_inlined"])
        check("inner body executes ub * ub_parent times, as before", ret["inner_after"] == trip(0, ub_p, 1) * trip(0, ub, 1))
        others = list(pre) + list(post)
        for i in range(len(others)):
            check(f"side-effecting op #{i} of the parent body executes as often as before (ub_parent times)",
                  implies(others[i], ret["others_after"][i] == trip(0, ub_p, 1)))

    def canary(sh, a, ret):
        check("canary: merged bound equals the parent bound", ret["new_ub"] == a[1])


# =====================================================================================
# snaxc/transforms/reuse_memref_allocs.py: the size lookup used when hoisting allocations / dim queries
# =====================================================================================
from pyvc.api import mk_opresult  # noqa: E402
from xdsl.dialects.builtin import DYNAMIC_INDEX  # noqa: E402


class SubviewView:
    """view of memref.subview: static_sizes (DenseArray with DYNAMIC_INDEX markers) and the dynamic size operands"""

    def __init__(self, static_sizes, sizes):
        self._static = tuple(static_sizes)
        self.sizes = tuple(sizes)
        self.static_sizes = self

    def get_values(self):
        return self._static


def _masks(n):
    import itertools
    return ["".join(m) for m in itertools.product("sd", repeat=n)]


@contract
class get_subview_dim_contract:
    """the size of dimension `index` of a subview: the static size, or the dynamic size operand of THAT dimension"""
    target = "snaxc.transforms.reuse_memref_allocs.MoveMemrefDims.match_and_rewrite::get_subview_dim"
    shapes = [dict(mask=m, index=i) for n in (1, 2, 3, 4) for m in _masks(n) for i in range(n)]
    quick = lambda sh: len(sh["mask"]) <= 3
    total = True
    compare_ret = False

    def args(sh, sym):
        static, dyn = [], []
        for k, c in enumerate(sh["mask"]):
            if c == "s":
                static.append(sym.int(f"n{k}", 0))
            else:
                static.append(DYNAMIC_INDEX)
                dyn.append(mk_opresult(sym.int(f"d{k}", 0), IndexType()))
        return [SubviewView(static, dyn), sh["index"]]

    def ensures(sh, a, ret):
        sv, i = a
        if sh["mask"][i] == "s":
            check("static dimension: the static size", ret == sv.get_values()[i])
        else:
            k = len([c for c in sh["mask"][:i] if c == "d"])
            check("dynamic dimension: the size operand that belongs to this dimension", ret is sv.sizes[k])

    def canary(sh, a, ret):
        check("canary: always the first dynamic size", len(a[0].sizes) > 0 and ret is a[0].sizes[0])


# =====================================================================================
# MoveMemrefDims as a whole: the value that replaces a hoisted memref.dim denotes the same run-time extent
# =====================================================================================
from xdsl.dialects import memref as _memref  # noqa: E402
from xdsl.dialects.builtin import MemRefType, i32  # noqa: E402
from xdsl.ir import Use  # noqa: E402

import snaxc.transforms.reuse_memref_allocs as rma  # noqa: E402


class UserOp(Operation):
    def __init__(self, operands):
        self._init_op(list(operands), [], [])


G_MOVE = {}


MOVE_SHAPES = [dict(outer=o, inner=i, pos=p) for o in (0, 1) for i in (0, 1) for p in (0, 1)] + [dict(outer=0, inner=None, pos=0), dict(outer=1, inner=None, pos=1)]
# the subview's dynamic size is an affine.min (the last tile of a dimension that the tile size does not divide is smaller)
MOVE_SHAPES += [dict(outer=p, inner="min", pos=p) for p in (0, 1)]


@contract
class MoveMemrefDims_contract:
    """for { %d = dim %A, c_inner ; use(%d) ; %sv = subview %A [..][%d or static ..] ; %x = dim %sv, c_outer ; alloc(%x) }:
    when %x is replaced by a value defined in front of the loop, that value is the extent %x had - for all run-time
    shapes (in particular non-square ones: the two dims may query DIFFERENT indices)"""
    target = "snaxc.transforms.reuse_memref_allocs.MoveMemrefDims.match_and_rewrite"
    shapes = MOVE_SHAPES
    native = False
    total = True
    permissive = True
    compare_ret = False

    def args(sh, sym):
        n = [sym.int("n0", 1), sym.int("n1", 1)]
        fb = Block([], [MemRefType(i32, [DYNAMIC_INDEX, DYNAMIC_INDEX])])
        A = fb.args[0]
        A.rt_shape = n
        c = [arith.ConstantOp.from_int_and_width(k, IndexType()) for k in (0, 1)]
        body = Block([], [IndexType()])
        ops = []
        # the subview's size list: position `pos` is dynamic and given by an in-loop dim of A (or by A's static-looking size 4)
        static_sizes = [4, 4]
        sizes = []
        rt = [4, 4]
        d_in = None
        mn = None
        if sh["inner"] == "min":
            # %m = affine.min (d0)[s0] -> (8, s0 - d0) (%i, %N): tile size 8, or what is left of the dimension
            from xdsl.dialects import affine as _affine
            from xdsl.ir.affine import AffineConstantExpr, AffineDimExpr, AffineMap, AffineSymExpr
            nval = mk_opresult(sym.int("N", 1), IndexType())
            body.args[0].den = sym.int("I", 0)
            mn = _affine.MinOp([body.args[0], nval], AffineMap(1, 1, (AffineConstantExpr(8), AffineSymExpr(0) - AffineDimExpr(0))))
            other = UserOp([mn.results[0]])
            ops = [mn, other]
            static_sizes[sh["pos"]] = DYNAMIC_INDEX
            sizes = [mn.results[0]]
            rt[sh["pos"]] = den(mn.results[0])
        elif sh["inner"] is not None:
            d_in = _memref.DimOp(A, c[sh["inner"]].results[0])
            other = UserOp([d_in.results[0]])
            ops = [d_in, other]
            static_sizes[sh["pos"]] = DYNAMIC_INDEX
            sizes = [d_in.results[0]]
            rt[sh["pos"]] = den(d_in)
        sv = _memref.SubviewOp(A, MemRefType(i32, [DYNAMIC_INDEX if x == DYNAMIC_INDEX else 4 for x in static_sizes]), [], sizes, [], [0, 0], static_sizes, [1, 1])
        sv.results[0].rt_shape = rt
        x = _memref.DimOp(sv.results[0], c[sh["outer"]].results[0])
        alloc = _memref.AllocOp.get(i32, 64, [DYNAMIC_INDEX], [x])
        ops = ops + [sv, x, alloc, scf.YieldOp()]
        for o in ops:
            body.add_op(o)
        loop = scf.ForOp(c[0].results[0], c[1].results[0], c[1].results[0], [], body)
        for o in c + [loop]:
            fb.add_op(o)
        Region([fb])
        x.results[0].uses.append(Use(alloc, 0))
        if mn is not None:
            mn.results[0].uses.append(Use(other, 0))
            mn.results[0].uses.append(Use(sv, 1))
            G_MOVE["min"] = mn
        else:
            G_MOVE["min"] = None
        if d_in is not None:
            d_in.results[0].uses.append(Use(other, 0))
            d_in.results[0].uses.append(Use(sv, 1))
        return [x, loop, n, body]

    def run(sh, a):
        rw = PatternRewriter(a[0])
        rma.MoveMemrefDims().match_and_rewrite(a[0], rw)
        return rw.log

    def ensures(sh, a, ret):
        x, loop, n, body = a
        rep = x.results[0].replaced
        if rep is None:
            check("left alone: nothing is inserted either", not any(e[0] == "insert_op" for e in ret))
            return
        v = rep[0]
        if sh["inner"] == "min":
            check("a dim of a tile whose size is an affine.min (full tile, or the smaller last one): the hoisted size is an UPPER bound of it, for every iteration", den(v) >= den(x.results[0]))
            mn = G_MOVE["min"]
            check("... and the affine.min itself keeps its other readers (the subview that cuts the tile, the kernel working on it): the last tile stays the smaller one",
                  getattr(mn.results[0], "replaced", None) is None)
            return
        check("the value that replaces the dim denotes the same run-time extent, for every run-time shape", den(v) == den(x.results[0]))
        o = v.owner
        inserted_before_loop = any(e[0] == "insert_op" and e[2].kind == "before" and e[2].anchor is loop and any(q is o for q in e[1]) for e in ret)
        outside = isinstance(o, Operation) and o.parent is not None and not any(o is q for q in body.ops)
        check("... and is defined in front of the loop", inserted_before_loop or outside)

    def canary(sh, a, ret):
        check("canary: the dim is never replaced", a[0].results[0].replaced is None)


# =====================================================================================
# LoopHoistPureOperations: an op leaves a loop only together with availability of all its operands
# =====================================================================================
from xdsl.traits import Pure  # noqa: E402

import snaxc.transforms.reuse_memref_allocs as rma  # noqa: E402


class HOp(Operation):
    """view of an arbitrary op: operands, one index result, its trait list"""

    def __init__(self, operands=(), pure=True):
        self._init_op(list(operands), [None], [IndexType()])
        self.traits = [Pure()] if pure else []


class AllocV(HOp):
    """the whitelisted (not pure) kind: memref.alloc"""


def level_of(spec):
    """the deepest loop (1 = outermost) whose body or induction variable the value belongs to; 0 = defined before the nest"""
    if spec in ("out", "farg"):
        return 0
    return int(spec[-1])


HOIST_SHAPES = []
for _d in (1, 2, 3):
    _sites = ["out", "farg"] + [f"L{k}" for k in range(1, _d + 1)] + [f"iv{k}" for k in range(1, _d + 1)]
    for _kind in ("pure", "whitelisted", "impure"):
        HOIST_SHAPES.append(dict(depth=_d, kind=_kind, operands=(), in_if=False))
        for _a in _sites:
            HOIST_SHAPES.append(dict(depth=_d, kind=_kind, operands=(_a,), in_if=False))
    for _a in _sites:
        for _b in _sites:
            if _a < _b:
                HOIST_SHAPES.append(dict(depth=_d, kind="pure", operands=(_a, _b), in_if=(_d == 2)))


def build_hoist_nest(sh):
    d = sh["depth"]
    fblock = Block([], [IndexType()])
    out = HOp([])
    bounds = [HOp([]) for _ in range(3)]
    blocks = [None] + [Block([], [IndexType()]) for _ in range(d)]  # blocks[k]: body of loop k
    defs = [None] + [HOp([blocks[k].args[0]]) for k in range(1, d + 1)]  # defs[k]: computed in the body of loop k, before the next loop

    def value(spec):
        if spec == "out":
            return out.results[0]
        if spec == "farg":
            return fblock.args[0]
        k = int(spec[-1])
        return defs[k].results[0] if spec[0] == "L" else blocks[k].args[0]

    cls = AllocV if sh["kind"] == "whitelisted" else HOp
    main = cls([value(s) for s in sh["operands"]], sh["kind"] == "pure")
    loops = [None] * (d + 2)
    inner = [main]
    if sh["in_if"]:
        inner = [scf.IfOp(out.results[0], [], Region([Block([main, scf.YieldOp()])]), Region([Block([scf.YieldOp()])]))]
    for k in range(d, 0, -1):
        for o in [defs[k]] + inner + [scf.YieldOp()]:
            blocks[k].add_op(o)
        loops[k] = scf.ForOp(bounds[0].results[0], bounds[1].results[0], bounds[2].results[0], [], Region([blocks[k]]))
        inner = [loops[k]]
    for o in [out] + bounds + [loops[1]]:
        fblock.add_op(o)
    Region([fblock])
    return main, loops


@contract
class LoopHoistPureOperations_contract:
    """an op is taken out of a loop only if it is pure (or an allocation), and it is put in front of an ENCLOSING loop such
    that every operand is available there: defined before that loop - not in its body, not in the body of any loop nested
    in it, and not an induction variable of it or of a nested loop (nests of depth 1..3, operands from every level)"""
    target = "snaxc.transforms.reuse_memref_allocs.LoopHoistPureOperations.match_and_rewrite"
    shapes = HOIST_SHAPES
    quick = lambda sh: sh["depth"] <= 2 or len(sh["operands"]) <= 1 or "L2" in sh["operands"] or "iv2" in sh["operands"]
    native = False
    total = True
    permissive = True
    compare_ret = False

    def args(sh, sym):
        main, loops = build_hoist_nest(sh)
        return [main, loops]

    def run(sh, a):
        rw = PatternRewriter(a[0])
        rma.LoopHoistPureOperations([AllocV]).match_and_rewrite(a[0], rw)
        return rw.log

    def ensures(sh, a, ret):
        main, loops = a
        d = sh["depth"]
        check("at most one rewrite step, an insertion of the op itself", len(ret) <= 1 and all(e[0] == "insert_op" and len(e[1]) == 1 and e[1][0] is main for e in ret))
        if len(ret) == 1:
            pt = ret[0][2]
            ks = [k for k in range(1, d + 1) if pt.anchor is loops[k]]
            check("the op is re-inserted directly in front of one of the loops around it", pt.kind == "before" and len(ks) == 1)
            check("only pure ops and allocations are hoisted", sh["kind"] in ("pure", "whitelisted"))
            if len(ks) == 1:
                k = ks[0]
                for s in sh["operands"]:
                    check(f"operand defined at {s}: available in front of loop {k} (defined before it)", level_of(s) < k)
            check("the op was taken out of its block", getattr(main, "detached", False))
        else:
            check("not hoisted: nothing is rewritten", not getattr(main, "detached", False))

    def canary(sh, a, ret):
        check("canary: nothing is ever hoisted", len(ret) == 0 and sh["kind"] == "pure" and all(level_of(s) == 0 and s != "farg" for s in sh["operands"]))


# =====================================================================================
# MergeForLoops on a loop that was itself produced by an earlier merge (nests of depth >= 3)
# =====================================================================================
from xdsl.ir import Use  # noqa: E402


class IvReader(Operation):
    """any op of the parent body that reads the parent's induction variable"""

    def __init__(self, operands):
        self._init_op(list(operands), [None], [IndexType()])


@contract
class MergeForLoops_prior_users_contract:
    """EVERY op that read the parent's induction variable before the merge reads the rebuilt parent index (k div ub)
    afterwards - also the div / rem index computations an EARLIER merge left in the parent body (three-deep nests are merged
    in two steps); the only reader of the raw counter is the new division itself"""
    target = "snaxc.transforms.pipeline.pipeline_canonicalize_for.MergeForLoops.match_and_rewrite"
    shapes = [dict(users=u) for u in (("div", "rem"), ("other",), ("div", "other", "rem"), ("rem",))]
    native = False
    total = True
    permissive = True
    compare_ret = False

    def args(sh, sym):
        ub, ub_p = sym.int("ub", 1), sym.int("ub_p", 0)
        inner = mk_for(0, ub, 1, [OtherOp(True)])
        blk = Block([], arg_types=[IndexType()])
        iv = blk.args[0]
        c = const(sym.int("c", 1))
        users = []
        for kind in sh["users"]:
            users.append(arith.DivUIOp(iv, c) if kind == "div" else (arith.RemUIOp(iv, c) if kind == "rem" else IvReader([iv])))
        for o in [c] + users + [inner, scf.YieldOp()]:
            blk.add_op(o)
        parent = scf.ForOp(const(0), const(ub_p), const(1), [], Region([blk]))
        return [inner, parent, iv, users, ub]

    def run(sh, a):
        rw = PatternRewriter(a[0])
        pcf.MergeForLoops().match_and_rewrite(a[0], rw)
        return rw.log

    def ensures(sh, a, ret):
        inner, parent, iv, users, ub = a
        check("the nest is merged", any(e[0] == "replace_op" and e[1] is parent for e in ret))
        rep = getattr(iv, "replaced", None)
        check("the readers of the parent's induction variable are redirected", rep is not None)
        if rep is None:
            return
        value, predicate = rep
        d = value.owner
        check("... to the rebuilt parent index k div ub", isinstance(d, arith.DivUIOp) and d.lhs is iv and den(d.rhs) == ub)
        for k, u in enumerate(users):
            check(f"reader {k} ({sh['users'][k]}) of the parent's induction variable now reads the rebuilt index", predicate is None or predicate(Use(u, 0)))
        check("the new division itself keeps reading the merged counter", predicate is not None and not predicate(Use(d, 0)))

    def canary(sh, a, ret):
        check("canary: nothing is redirected", getattr(a[2], "replaced", None) is None)
