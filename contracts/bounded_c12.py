"""Bounded stand-in for C12 (NOT a proof): transform_constant (numpy frombuffer/reshape/transpose/argsort) on every dense
static target layout of an enumerated family: each logical element must sit at the address the new layout assigns to it."""
import itertools


def transform_constant_layouts(tier="quick", seed=0):
    import numpy as np
    from pyvc import shim  # noqa: F401
    from xdsl.dialects.builtin import DenseIntOrFPElementsAttr, IntegerType, MemRefType, TensorType

    from snaxc.dialects.tsl import TiledStridedLayoutAttr
    from snaxc.ir.tsl import Stride, TiledStride, TiledStridedLayout
    from snaxc.transforms.realize_memref_casts import transform_constant

    fams = []
    bs = (2, 3) if tier == "quick" else (2, 3, 4)
    # (rank, depth) structures: tile bounds per level
    for b in itertools.product(bs, repeat=2):
        fams.append([[b[0]], [b[1]]])          # rank 2, depth 1
        fams.append([[b[0], b[1]]])            # rank 1, depth 2
    for b in itertools.product((2, 3), repeat=3):
        fams.append([[b[0]], [b[1]], [b[2]]])  # rank 3, depth 1
        fams.append([[b[0], b[1]], [b[2]]])    # rank 2, mixed depth
    for b in itertools.product((2,), repeat=4):
        fams.append([[2, 2], [2, 2]])          # rank 2, depth 2
    if tier == "thorough":
        fams.append([[2, 3], [3, 2]])
        fams.append([[2, 2], [3, 2]])
    cases = 0
    viol = []
    seen = set()
    for bounds in fams:
        levels = [(d, k) for d in range(len(bounds)) for k in range(len(bounds[d]))]
        for perm in itertools.permutations(range(len(levels))):
            # dense by construction: the level perm[0] is contiguous, each next level steps over everything before it
            step = {}
            cur = 1
            for p in perm:
                d, k = levels[p]
                step[(d, k)] = cur
                cur *= bounds[d][k]
            key = (str(bounds), tuple(sorted(step.items())))
            if key in seen:
                continue
            seen.add(key)
            layout = TiledStridedLayout([TiledStride([Stride(step[(d, k)], bounds[d][k]) for k in range(len(bounds[d]))]) for d in range(len(bounds))])
            shape = [int(np.prod(b)) for b in bounds]
            n = int(np.prod(shape))
            for width, src_kind in ((8, "memref"), (32, "tensor")):
                et = IntegerType(width)
                ty = MemRefType(et, shape) if src_kind == "memref" else TensorType(et, shape)
                vals = [(7 * i + 3) % 120 for i in range(n)]
                src = DenseIntOrFPElementsAttr.from_list(ty, vals)
                cases += 1
                try:
                    new = transform_constant(src, TiledStridedLayoutAttr(layout))
                except Exception as e:  # noqa
                    if len(viol) < 5:
                        viol.append(dict(clause="transform_constant raised", input=f"{layout}", observed=f"{type(e).__name__}: {e}"))
                    continue
                if new is None:
                    if len(viol) < 5:
                        viol.append(dict(clause="dense static layout was refused", input=f"{layout}"))
                    continue
                got = list(new.get_values())
                bad = None
                for flat, idx in enumerate(itertools.product(*[range(s) for s in shape])):
                    addr = 0
                    for d, i in enumerate(idx):
                        # digits of i in the mixed radix of the dimension's tile bounds (outer -> inner)
                        rem = i
                        digs = []
                        for bnd in reversed(bounds[d]):
                            digs.append(rem % bnd)
                            rem //= bnd
                        digs.reverse()
                        addr += sum(t * step[(d, k)] for k, t in enumerate(digs))
                    if got[addr] != vals[flat]:
                        bad = (idx, addr, got[addr], vals[flat])
                        break
                if bad and len(viol) < 5:
                    viol.append(dict(clause="re-laid-out constant holds each logical value at the address the new layout prescribes",
                                     input=f"#tsl.tsl<{layout}> i{width} {src_kind}", observed=f"index {bad[0]} -> address {bad[1]} holds {bad[2]}, expected {bad[3]}"))
    return dict(domain="all dense static layouts built from every permutation of the levels of 5 (rank, depth) structures with bounds in {2,3}(,4); i8 memref and i32 tensor sources; distinct contents",
                cases=cases, violations=viol)
