"""Bounded stand-ins for C03 / C16 (NOT proofs): the real scheduler run natively, end to end, on an
enumerated family of small concrete schedules; every yielded schedule is compared with the input as a
multiset of operand-index tuples (C03) and checked against the template (C16).  This is also the
native replay search for violations of the modular scheduler contract (whose views are abstract)."""
import itertools
import random
from collections import Counter


def _tuples(schedule):
    import numpy as np

    bounds = schedule[0].bounds
    c = Counter()
    for x in itertools.product(*[range(b) for b in bounds]):
        v = np.array(x)
        c[tuple(tuple(int(e) for e in sp.pattern.eval(v)) for sp in schedule)] += 1
    return c


def _instances(tier, seed):
    import numpy as np

    from snaxc.ir.dart.access_pattern import Schedule, SchedulePattern, Template, TemplatePattern
    from snaxc.ir.dart.affine_transform import AffineTransform

    rnd = random.Random(seed)
    out = []
    # matmul-like: A[m,k] B[k,n] C[m,n]; template (m,n,k) with bounds
    def matmul(bm, bn, bk, tb):
        A = [np.array([[1, 0, 0], [0, 0, 1]]), np.array([[0, 0, 1], [0, 1, 0]]), np.array([[1, 0, 0], [0, 1, 0]])]
        sched = Schedule(SchedulePattern((bm, bn, bk), AffineTransform(a, np.zeros(2, dtype=int))) for a in A)
        templ = Template(TemplatePattern(tb, AffineTransform(a, np.zeros(2, dtype=int))) for a in A)
        return templ, sched

    bs = (1, 2, 3, 4, 6, 8) if tier == "quick" else (1, 2, 3, 4, 5, 6, 8, 10, 12)
    tbs = [(2, 2, 2), (4, 2, 2), (4, 4, 4), (2, None, 4), (None, None, None)]
    combos = list(itertools.product(bs, bs, bs, tbs))
    rnd.shuffle(combos)
    for bm, bn, bk, tb in combos[: (60 if tier == "quick" else 400)]:
        if bm * bn * bk <= 512:
            out.append(matmul(bm, bn, bk, tb))
    # 1-operand / 1-D and 2-D tilings
    for b, tb in itertools.product(bs, (2, 3, 4)):
        a = np.array([[1]])
        out.append((Template([TemplatePattern((tb,), AffineTransform(a, np.zeros(1, dtype=int)))]),
                    Schedule([SchedulePattern((b,), AffineTransform(a, np.zeros(1, dtype=int)))])))
    for b0, b1, tb in itertools.product(bs[:4], bs[:5], (2, 4)):
        a = np.array([[1, 0], [0, 1]])
        out.append((Template([TemplatePattern((tb,), AffineTransform(np.array([[0], [1]]), np.zeros(2, dtype=int)))]),
                    Schedule([SchedulePattern((b0, b1), AffineTransform(a, np.zeros(2, dtype=int)))])))
    # strided accesses (coefficients with a common factor): a downsampling copy in[2i] -> out[i] and a stride-2 window
    # in[2x + k] * w[k] -> out[x]
    for b, tb in itertools.product((2, 4, 6), (2, None)):
        out.append((Template([TemplatePattern((tb,), AffineTransform(np.array([[1]]), np.zeros(1, dtype=int))) for _ in range(2)]),
                    Schedule([SchedulePattern((b,), AffineTransform(np.array([[2]]), np.zeros(1, dtype=int))),
                              SchedulePattern((b,), AffineTransform(np.array([[1]]), np.zeros(1, dtype=int)))])))
    for bx, bk, tb in itertools.product((2, 4), (2, 3), ((2, 2), (None, None))):
        mats = [np.array([[2, 1]]), np.array([[0, 1]]), np.array([[1, 0]])]
        tm = [np.array([[1, 1]]), np.array([[0, 1]]), np.array([[1, 0]])]
        out.append((Template(TemplatePattern(tb, AffineTransform(a, np.zeros(1, dtype=int))) for a in tm),
                    Schedule(SchedulePattern((bx, bk), AffineTransform(a, np.zeros(1, dtype=int))) for a in mats)))
    return out


def scheduler_end_to_end(tier="quick", seed=0):
    from pyvc import shim  # noqa: F401
    from snaxc.ir.dart.scheduler import is_pure_output_stationary, scheduler_backtrack

    cases = 0
    yielded = 0
    viol = []
    for templ, sched in _instances(tier, seed):
        ref = _tuples(sched)
        for checks in ([], [is_pure_output_stationary]):
            cases += 1
            try:
                ys = list(itertools.islice(scheduler_backtrack(templ, sched, extra_checks=checks), 12))
            except Exception as e:  # noqa
                if len(viol) < 5:
                    viol.append(dict(clause="C03: scheduler raised", input=f"{sched} on {templ}", observed=f"{type(e).__name__}: {e}"))
                continue
            for y in ys:
                yielded += 1
                if _tuples(y) != ref and len(viol) < 5:
                    viol.append(dict(clause="C03: yielded schedule visits the same multiset of operand-index tuples",
                                     input=f"bounds {sched[0].bounds}, template bounds {templ[0].bounds}", observed=f"yielded bounds {y[0].bounds}"))
                # C16: innermost bounds do not exceed static template bounds, all extra checks hold, template matches
                tb = templ[0].bounds
                for k in range(1, len(tb) + 1):
                    if tb[-k] is not None and y[0].bounds[-k] > tb[-k] and len(viol) < 5:
                        viol.append(dict(clause="C16: bound exceeds template bound", input=f"bounds {sched[0].bounds}, template {tb}", observed=f"{y[0].bounds}"))
                if not templ.matches(y) and len(viol) < 5:
                    viol.append(dict(clause="C16: template does not match yielded schedule", input=f"bounds {sched[0].bounds}, template {tb}", observed=f"{y[0].bounds}"))
                for c in checks:
                    if not c(templ, y) and len(viol) < 5:
                        viol.append(dict(clause=f"C16: extra check {c.__name__} fails on yielded schedule", input=f"bounds {sched[0].bounds}, template {tb}", observed=f"{y[0].bounds}"))
    return dict(domain="matmul-like 3-operand schedules with bounds from a small set x 5 template bound vectors, 1-D/2-D single-operand tilings; first 12 yields each; with/without pure-output-stationary check",
                cases=cases, yielded_schedules=yielded, violations=viol)


def _rank(rows):
    from fractions import Fraction

    m = [[Fraction(x) for x in r] for r in rows]
    rank = 0
    ncols = len(m[0]) if m else 0
    for c in range(ncols):
        piv = next((i for i in range(rank, len(m)) if m[i][c] != 0), None)
        if piv is None:
            continue
        m[rank], m[piv] = m[piv], m[rank]
        for i in range(len(m)):
            if i != rank and m[i][c] != 0:
                f = m[i][c] / m[rank][c]
                m[i] = [a - f * b for a, b in zip(m[i], m[rank])]
        rank += 1
    return rank


def _same_rowspace(A, B):
    ra, rb = _rank(A), _rank(B)
    return ra == rb == _rank(list(A) + list(B))


def template_matches(tier="quick", seed=0):
    """TemplatePattern.matches (float SVD) accepts exactly the patterns that span the same index subspace as the
    template: exact rational row-space oracle, all small integer matrices + the broadcast / inner_dims reductions"""
    import numpy as np
    from pyvc import shim  # noqa: F401

    from snaxc.ir.dart.access_pattern import SchedulePattern, TemplatePattern, same_nonzero_singular_vectors
    from snaxc.ir.dart.affine_transform import AffineTransform

    vals = (-1, 0, 1, 2)
    rnd = random.Random(seed)
    cases = 0
    viol = []

    def mats(r, c, limit):
        allm = list(itertools.product(vals, repeat=r * c))
        if len(allm) > limit:
            allm = rnd.sample(allm, limit)
        return [[list(m[i * c:(i + 1) * c]) for i in range(r)] for m in allm]

    lim = 40 if tier == "quick" else 160
    for r, c in ((1, 1), (1, 2), (2, 2), (2, 3), (3, 3), (2, 4), (3, 4)):
        A_s = mats(r, c, lim)
        for A in A_s:
            for B in rnd.sample(A_s, min(len(A_s), 12)):
                cases += 1
                Aa, Ba = np.array(A), np.array(B)
                got = bool(same_nonzero_singular_vectors(Aa, Ba))
                if (Aa.tolist() != A or Ba.tolist() != B) and len(viol) < 5:
                    # frame: the scheduler hands in VIEWS of the access matrices of the schedule it is building
                    viol.append(dict(clause="C03/C16 frame: same_nonzero_singular_vectors leaves its arguments unchanged", input=f"{A} vs {B}", observed=f"{Aa.tolist()} vs {Ba.tolist()}"))
                exp = _same_rowspace(A, B)
                if got != exp and len(viol) < 5:
                    viol.append(dict(clause="C16: same_nonzero_singular_vectors <=> equal row spaces over Q", input=f"{A} vs {B}", expected=exp, observed=got))
    # matches(): inner_dims reduction when the schedule has more dims, False when fewer, broadcast slicing of template rows
    for tr, sr, td, sd in ((2, 2, 2, 2), (2, 2, 2, 3), (2, 2, 2, 4), (3, 2, 2, 2), (3, 2, 3, 4), (2, 2, 3, 2), (2, 3, 2, 3), (2, 3, 3, 3), (2, 4, 3, 3), (1, 2, 2, 3)):
        for _ in range(60 if tier == "quick" else 400):
            T = [[rnd.choice(vals) for _ in range(td)] for _ in range(tr)]
            S = [[rnd.choice(vals) for _ in range(sd)] for _ in range(sr)]
            tp = TemplatePattern([None] * td, AffineTransform(np.array(T), np.zeros(tr, dtype=int)))
            sp = SchedulePattern([2] * sd, AffineTransform(np.array(S), np.zeros(sr, dtype=int)))
            cases += 1
            try:
                got = bool(tp.matches(sp))
            except Exception as e:  # noqa
                got = f"{type(e).__name__}"
            if (tp.pattern.A.tolist() != T or sp.pattern.A.tolist() != S) and len(viol) < 5:
                viol.append(dict(clause="C03/C16 frame: TemplatePattern.matches leaves template and schedule unchanged", input=f"template {T} schedule {S}",
                                 observed=f"template {tp.pattern.A.tolist()} schedule {sp.pattern.A.tolist()}"))
            if sd < td:
                exp = False
            else:
                S_in = [row[sd - td:] for row in S]
                # documented broadcast: the schedule may address FEWER result rows than the template (outer rows dropped)
                T_in = T[tr - sr:] if tr > sr else T
                exp = _same_rowspace(T_in, S_in)
            if got != exp and len(viol) < 5:
                viol.append(dict(clause="C16: TemplatePattern.matches <=> inner dims of the schedule span the template's subspace",
                                 input=f"template {T} schedule {S}", expected=exp, observed=got))
    return dict(domain="integer matrices with entries in {-1,0,1,2} up to 3x4 (sampled pairs), plus matches() on random template/schedule pairs of 10 rank/dim combinations",
                cases=cases, violations=viol)
