"""Contracts for snaxc/ir/dart/{affine_transform,access_pattern}.py (C03, C19, C16)."""
import numpy as np
from pyvc.api import check, contract, implies
from xdsl.ir.affine import AffineConstantExpr, AffineDimExpr, AffineMap

from snaxc.ir.dart.access_pattern import AccessPattern, Schedule, SchedulePattern, Template, TemplatePattern
from snaxc.ir.dart.affine_transform import AffineTransform


def sym_matrix(sym, pfx, rows, cols):
    return np.array([[sym.int(f"{pfx}{i}_{j}") for j in range(cols)] for i in range(rows)]).reshape(rows, cols)


def sym_vector(sym, pfx, n, lo=None):
    return np.array([sym.int(f"{pfx}{i}", lo) for i in range(n)]).reshape(n)


def mk_transform(sym, pfx, rows, cols):
    return AffineTransform(sym_matrix(sym, pfx + "A", rows, cols), sym_vector(sym, pfx + "b", rows))


def lin(A, b, x):
    """reference semantics: A.x + b as python lists"""
    return [sum(A[i][j] * x[j] for j in range(len(x))) + b[i] for i in range(len(b))]


def tolist(a):
    return a.tolist()


RC = [(r, c) for r in (1, 2, 3) for c in (1, 2, 3, 4, 5)]


@contract
class AffineTransform_eval:
    target = "snaxc.ir.dart.affine_transform.AffineTransform.eval"
    shapes = [dict(rows=r, cols=c) for r, c in RC]
    quick = lambda sh: sh["rows"] <= 2 and sh["cols"] <= 3
    total = True

    def args(sh, sym):
        return [mk_transform(sym, "", sh["rows"], sh["cols"]), sym_vector(sym, "x", sh["cols"])]

    def ensures(sh, a, ret):
        t, x = a
        check("eval(x) == A.x + b", tolist(ret) == lin(tolist(t.A), tolist(t.b), tolist(x)))

    def canary(sh, a, ret):
        check("canary: result is always b", tolist(ret) == tolist(a[0].b))


@contract
class AffineTransform_eval_batch:
    target = "snaxc.ir.dart.affine_transform.AffineTransform.eval"
    shapes = [dict(rows=r, cols=c, batch=2) for r, c in RC if r <= 2 and c <= 3]
    total = True

    def args(sh, sym):
        return [mk_transform(sym, "", sh["rows"], sh["cols"]), sym_matrix(sym, "x", sh["batch"], sh["cols"])]

    def ensures(sh, a, ret):
        t, x = a
        check("batch eval row-wise", tolist(ret) == [lin(tolist(t.A), tolist(t.b), row) for row in tolist(x)])

    def canary(sh, a, ret):
        check("canary: batch rows all equal", tolist(ret)[0] == tolist(ret)[1])


@contract
class AffineTransform_compose:
    target = "snaxc.ir.dart.affine_transform.AffineTransform.compose"
    shapes = [dict(rows=r, mid=m, cols=c) for r in (1, 2, 3) for m in (1, 2, 3) for c in (1, 2, 3, 4)]
    quick = lambda sh: sh["rows"] <= 2 and sh["mid"] <= 2 and sh["cols"] <= 3
    total = True

    def args(sh, sym):
        return [mk_transform(sym, "f", sh["rows"], sh["mid"]), mk_transform(sym, "g", sh["mid"], sh["cols"]),
                sym_vector(sym, "x", sh["cols"])]

    def run(sh, a):
        return a[0].compose(a[1])

    def ensures(sh, a, ret):
        f, g, x = a
        xs = tolist(x)
        inner = lin(tolist(g.A), tolist(g.b), xs)
        check("compose(x) == self(other(x))", lin(tolist(ret.A), tolist(ret.b), xs) == lin(tolist(f.A), tolist(f.b), inner))
        check("shape", ret.A.shape == (sh["rows"], sh["cols"]) and ret.b.shape == (sh["rows"],))

    def canary(sh, a, ret):
        check("canary: compose ignores other.b", tolist(ret.b) == tolist(a[0].b))


def mk_affine_map(sym, pfx, rows, cols):
    """an AffineMap with concrete linear structure and symbolic coefficients"""
    results = []
    for i in range(rows):
        e = AffineConstantExpr(sym.int(f"{pfx}c{i}"))
        for j in range(cols):
            e = e + AffineDimExpr(j) * sym.int(f"{pfx}m{i}_{j}")
        results.append(e)
    return AffineMap(cols, 0, tuple(results))


@contract
class AffineTransform_from_affine_map:
    target = "snaxc.ir.dart.affine_transform.AffineTransform.from_affine_map"
    shapes = [dict(rows=r, cols=c) for r, c in RC if c <= 4]
    quick = lambda sh: sh["rows"] <= 2 and sh["cols"] <= 2
    thorough = lambda sh: sh["rows"] * sh["cols"] <= 9  # 3x4 exceeds the path budget (30000): not covered
    total = True

    def args(sh, sym):
        return [mk_affine_map(sym, "", sh["rows"], sh["cols"]), [sym.int(f"x{j}") for j in range(sh["cols"])]]

    def run(sh, a):
        return AffineTransform.from_affine_map(a[0])

    def ensures(sh, a, ret):
        m, x = a
        check("matrix form evaluates like the map", lin(tolist(ret.A), tolist(ret.b), x) == list(m.eval(x, [])))
        check("dims", ret.num_dims == m.num_dims and ret.num_results == len(m.results))

    def canary(sh, a, ret):
        check("canary: offset is zero", tolist(ret.b) == [0] * sh["rows"])


def mk_nonlinear_map(sym, kind, cols):
    """maps with a floordiv / mod nested inside an otherwise linear expression"""
    d0 = AffineDimExpr(0)
    c = sym.int("c", 2, 9)
    if kind == "nested_floordiv":
        e = d0 + d0 // c
    elif kind == "nested_mod_sum":
        e = (d0 % c) + AffineDimExpr(cols - 1)
    elif kind == "floordiv_times":
        e = (d0 // c) * c
    elif kind == "top_mod":
        e = d0 % c
    else:
        e = (d0 + 1) // c
    return AffineMap(cols, 0, (e,))


@contract
class AffineTransform_from_affine_map_nonlinear:
    """a map that is not a pure linear transformation must be refused (ValueError) - never silently linearised"""
    target = "snaxc.ir.dart.affine_transform.AffineTransform.from_affine_map"
    shapes = [dict(kind=k, cols=c) for k in ("nested_floordiv", "nested_mod_sum", "floordiv_times", "top_mod", "top_floordiv") for c in (1, 2)]
    may_not_return = True

    def args(sh, sym):
        return [mk_nonlinear_map(sym, sh["kind"], sh["cols"]), [sym.int(f"x{j}", 0) for j in range(sh["cols"])]]

    def run(sh, a):
        return AffineTransform.from_affine_map(a[0])

    def raises(sh, a, exc):
        check("only ValueError may be raised for a non-linear map", exc == "ValueError")

    def ensures(sh, a, ret):
        m, x = a
        check("if a matrix form is returned it evaluates like the map", lin(tolist(ret.A), tolist(ret.b), x) == list(m.eval(x, [])))


@contract
class AffineTransform_to_affine_map:
    target = "snaxc.ir.dart.affine_transform.AffineTransform.to_affine_map"
    shapes = [dict(rows=r, cols=c) for r, c in RC if c <= 4]
    quick = lambda sh: sh["rows"] <= 2 and sh["cols"] <= 2
    thorough = lambda sh: sh["rows"] * sh["cols"] <= 8  # 3x3 and 3x4 exceed the path budget (30000): not covered
    total = True

    def args(sh, sym):
        return [mk_transform(sym, "", sh["rows"], sh["cols"]), [sym.int(f"x{j}") for j in range(sh["cols"])]]

    def run(sh, a):
        return a[0].to_affine_map()

    def ensures(sh, a, ret):
        t, x = a
        check("map evaluates like the matrix form", list(ret.eval(x, [])) == lin(tolist(t.A), tolist(t.b), x))
        check("dims", ret.num_dims == sh["cols"] and ret.num_symbols == 0 and len(ret.results) == sh["rows"])

    def canary(sh, a, ret):
        check("canary: map is constant", list(ret.eval(a[1], [])) == tolist(a[0].b))


# =====================================================================================
# C03: elementary schedule transformations preserve the iteration space
# =====================================================================================
def mk_schedule_pattern(sym, pfx, rows, dims):
    bounds = [sym.int(f"{pfx}B{j}", 1) for j in range(dims)]
    return SchedulePattern(bounds, mk_transform(sym, pfx, rows, dims))


def ev(p, x):
    """operand index tuple of pattern p at iteration point x (python list)"""
    return tolist(p.pattern.eval(np.array(x).reshape(len(x))))


def in_box(x, bounds):
    return all(0 <= xi and xi < bi for xi, bi in zip(x, bounds))


RD = [(r, n) for r in (1, 2, 3) for n in (1, 2, 3, 4, 5)]


def rotate_perm(n, d):
    """new position k holds old dimension pi[k]"""
    return list(range(1, d)) + [0] + list(range(d, n))


def check_rotated(sp, ret, n, d, xnew, tag=""):
    pi = rotate_perm(n, d)
    check(tag + "pi is a permutation of the dimensions", sorted(pi) == list(range(n)))
    xold = [0] * n
    for k in range(n):
        xold[pi[k]] = xnew[k]
    check(tag + "bounds are permuted by pi", list(ret.bounds) == [sp.bounds[pi[k]] for k in range(n)])
    check(tag + "same operand index at corresponding points", ev(ret, xnew) == ev(sp, xold))
    check(tag + "box maps onto box", in_box(xnew, ret.bounds) == in_box(xold, sp.bounds))
    # frame clauses used by the modular scheduler proof (contracts/scheduler.py AbsSchedule.rotate)
    for k in range(1, n - d + 1):
        check(tag + f"frame: inner view {k} untouched", tolist(ret.pattern.A[:, n - k:]) == tolist(sp.pattern.A[:, n - k:]))
    check(tag + "frame: bounds behind the rotated prefix untouched", list(ret.bounds[d:]) == list(sp.bounds[d:]))
    check(tag + "frame: offset vector untouched", tolist(ret.pattern.b) == tolist(sp.pattern.b))


@contract
class SchedulePattern_rotate:
    target = "snaxc.ir.dart.access_pattern.SchedulePattern.rotate"
    shapes = [dict(rows=r, dims=n, d=d) for r, n in RD for d in range(1, n + 1)]
    quick = lambda sh: sh["rows"] <= 2 and sh["dims"] <= 3
    total = True

    def args(sh, sym):
        return [mk_schedule_pattern(sym, "", sh["rows"], sh["dims"]), sh["d"], [sym.int(f"x{j}") for j in range(sh["dims"])]]

    def run(sh, a):
        return a[0].rotate(a[1])

    def ensures(sh, a, ret):
        check_rotated(a[0], ret, sh["dims"], sh["d"], a[2])
        check("result type", isinstance(ret, SchedulePattern))

    def canary(sh, a, ret):
        check("canary: rotation is the identity", list(ret.bounds) == list(a[0].bounds))


def check_tiled(sp, ret, n, d, tb, xnew, y, tag=""):
    """ret = sp.tile_dim(d, tb).  xnew: a point of the new space (n+1 coords); y: a coordinate of old dim d."""
    b = sp.bounds[d]
    check(tag + "bounds split (b//tb, tb)", list(ret.bounds) == list(sp.bounds[:d]) + [b // tb, tb] + list(sp.bounds[d + 1:]))
    phi = list(xnew[:d]) + [xnew[d] * tb + xnew[d + 1]] + list(xnew[d + 2:])
    check(tag + "same operand index at phi(x)", ev(ret, xnew) == ev(sp, phi))
    check(tag + "phi maps the new box into the old box", implies(in_box(xnew, ret.bounds), in_box(phi, sp.bounds)))
    # inverse witness: every old coordinate y of dim d is hit by exactly (y div tb, y mod tb)
    q, r = y // tb, y % tb
    check(tag + "inverse witness in range", implies(0 <= y and y < b, 0 <= q and q < b // tb and 0 <= r and r < tb))
    check(tag + "inverse witness maps back", q * tb + r == y)
    # frame clauses used by the modular scheduler proof (contracts/scheduler.py AbsSchedule.tile_dim)
    for k in range(1, n - d + 1):
        check(tag + f"frame: inner view {k} untouched", tolist(ret.pattern.A[:, n + 1 - k:]) == tolist(sp.pattern.A[:, n - k:]))
    check(tag + "frame: tiled pair multiplies back to the old bound", ret.bounds[d] * tb == b and ret.bounds[d + 1] == tb)
    check(tag + "frame: offset vector untouched", tolist(ret.pattern.b) == tolist(sp.pattern.b))
    check(tag + "phi is injective on the tiled pair",
          implies(in_box(xnew, ret.bounds) and xnew[d] * tb + xnew[d + 1] == y, xnew[d] == q and xnew[d + 1] == r))


@contract
class SchedulePattern_tile_dim:
    target = "snaxc.ir.dart.access_pattern.SchedulePattern.tile_dim"
    shapes = [dict(rows=r, dims=n, d=d) for r, n in RD if n <= 4 for d in range(n)]
    quick = lambda sh: sh["rows"] <= 2 and sh["dims"] <= 3
    total = True

    def args(sh, sym):
        return [mk_schedule_pattern(sym, "", sh["rows"], sh["dims"]), sh["d"], sym.int("tb"),
                [sym.int(f"x{j}") for j in range(sh["dims"] + 1)], sym.int("y")]

    def requires(sh, a):
        sp, d, tb = a[0], a[1], a[2]
        # the contract callers must establish: the tile size divides the bound
        return tb >= 1 and sp.bounds[d] % tb == 0

    def run(sh, a):
        return a[0].tile_dim(a[1], a[2])

    def ensures(sh, a, ret):
        check_tiled(a[0], ret, sh["dims"], sh["d"], a[2], a[3], a[4])

    def canary(sh, a, ret):
        check("canary: tiled bound equals the old bound", ret.bounds[sh["d"]] == a[0].bounds[sh["d"]])


@contract
class SchedulePattern_add_dim:
    target = "snaxc.ir.dart.access_pattern.SchedulePattern.add_dim"
    shapes = [dict(rows=r, dims=n) for r, n in RD if n <= 4]
    quick = lambda sh: sh["rows"] <= 2 and sh["dims"] <= 3
    total = True

    def args(sh, sym):
        return [mk_schedule_pattern(sym, "", sh["rows"], sh["dims"]), [sym.int(f"x{j}") for j in range(sh["dims"] + 1)]]

    def run(sh, a):
        return a[0].add_dim()

    def ensures(sh, a, ret):
        sp, x = a
        check("new leading unit bound", list(ret.bounds) == [1] + list(sp.bounds))
        check("same operand index, new coordinate ignored within its box", implies(x[0] == 0, ev(ret, x) == ev(sp, x[1:])))

    def canary(sh, a, ret):
        check("canary: new coordinate never matters", ev(ret, a[1]) != ev(a[0], a[1][1:]))


def mk_access_pattern(sym, pfx, rows, dims, cls):
    bounds = [sym.int(f"{pfx}B{j}", 1) for j in range(dims)]
    return cls(bounds, mk_transform(sym, pfx, rows, dims))


@contract
class AccessPattern_inner_dims:
    target = "snaxc.ir.dart.access_pattern.AccessPattern.inner_dims"
    shapes = [dict(rows=r, dims=n, k=k) for r, n in RD if n <= 4 for k in range(1, n + 1)]
    quick = lambda sh: sh["rows"] <= 2 and sh["dims"] <= 3
    total = True

    def args(sh, sym):
        return [mk_schedule_pattern(sym, "", sh["rows"], sh["dims"]), sh["k"], [sym.int(f"x{j}") for j in range(sh["k"])]]

    def run(sh, a):
        return a[0].inner_dims(a[1])

    def ensures(sh, a, ret):
        sp, k, x = a
        n = sh["dims"]
        check("bounds are the innermost k", list(ret.bounds) == list(sp.bounds[n - k:]))
        check("equals self on points whose outer coordinates are 0", ev(ret, x) == ev(sp, [0] * (n - k) + x))

    def canary(sh, a, ret):
        check("canary: inner view has a zero matrix", ev(ret, a[2]) == tolist(a[0].pattern.b))


@contract
class AccessPattern_canonicalize:
    target = "snaxc.ir.dart.access_pattern.AccessPattern.canonicalize"
    shapes = [dict(rows=r, dims=n) for r, n in RD if n <= 3 and r <= 2]
    quick = lambda sh: sh["dims"] <= 3
    total = True

    def args(sh, sym):
        return [mk_schedule_pattern(sym, "", sh["rows"], sh["dims"]), [sym.int(f"x{j}") for j in range(sh["dims"])]]

    def run(sh, a):
        return a[0].canonicalize()

    def ensures(sh, a, ret):
        sp, x = a
        keep = [j for j in range(sh["dims"]) if sp.bounds[j] > 1]
        check("kept bounds are the non-unit ones, in order", list(ret.bounds) == [sp.bounds[j] for j in keep])
        check("same operand index on the box", implies(in_box(x, sp.bounds), ev(ret, [x[j] for j in keep]) == ev(sp, x)))

    def canary(sh, a, ret):
        check("canary: nothing is ever dropped", len(ret.bounds) == sh["dims"])


@contract
class AccessPattern_canonicalize_unbounded:
    """templates may leave a dimension UNBOUNDED (bound None): such a dimension is kept, whatever the others are"""
    target = "snaxc.ir.dart.access_pattern.AccessPattern.canonicalize"
    shapes = [dict(rows=r, dims=n, none=m) for r in (1, 2) for n in (1, 2, 3) for m in range(1, 2 ** n)]
    quick = lambda sh: sh["rows"] == 1 or sh["dims"] <= 2
    total = True

    def args(sh, sym):
        n = sh["dims"]
        bounds = [None if (sh["none"] >> j) & 1 else sym.int(f"B{j}", 1) for j in range(n)]
        return [TemplatePattern(bounds, mk_transform(sym, "", sh["rows"], n)), [sym.int(f"x{j}", 0) for j in range(n)]]

    def run(sh, a):
        return a[0].canonicalize()

    def ensures(sh, a, ret):
        tp, x = a
        n = sh["dims"]
        keep = [j for j in range(n) if tp.bounds[j] is None or tp.bounds[j] > 1]
        check("unbounded dimensions and bounded non-unit ones are kept, in order", list(ret.bounds) == [tp.bounds[j] for j in keep] and isinstance(ret, TemplatePattern))
        if ret.num_dims != len(keep):
            return  # reported above; the point below could not even be formed
        inside = all(x[j] < tp.bounds[j] for j in range(n) if tp.bounds[j] is not None)
        check("same operand index at every point of the (partly unbounded) box", implies(inside, ev(ret, [x[j] for j in keep]) == ev(tp, x)))

    def canary(sh, a, ret):
        check("canary: every dimension is dropped", len(ret.bounds) == 0)


def mk_schedule(sym, ops, rows, dims):
    bounds = [sym.int(f"B{j}", 1) for j in range(dims)]
    return Schedule([SchedulePattern(bounds, mk_transform(sym, f"o{i}", rows, dims)) for i in range(ops)])


OPS = [(o, r, n) for o in (1, 2, 3) for r in (1, 2) for n in (1, 2, 3)]


@contract
class Schedule_rotate:
    target = "snaxc.ir.dart.access_pattern.Schedule.rotate"
    shapes = [dict(ops=o, rows=r, dims=n, d=d) for o, r, n in OPS for d in range(1, n + 1)]
    quick = lambda sh: sh["ops"] <= 2 and sh["rows"] == 1
    total = True

    def args(sh, sym):
        return [mk_schedule(sym, sh["ops"], sh["rows"], sh["dims"]), sh["d"], [sym.int(f"x{j}") for j in range(sh["dims"])]]

    def run(sh, a):
        return a[0].rotate(a[1])

    def ensures(sh, a, ret):
        check("one result pattern per operand", len(ret) == sh["ops"] and isinstance(ret, Schedule))
        for i in range(sh["ops"]):
            check_rotated(a[0][i], ret[i], sh["dims"], sh["d"], a[2], f"operand {i}: ")

    def canary(sh, a, ret):
        check("canary: operand 0 unchanged", ev(ret[0], a[2]) == ev(a[0][0], a[2]))


@contract
class Schedule_tile_dim:
    target = "snaxc.ir.dart.access_pattern.Schedule.tile_dim"
    shapes = [dict(ops=o, rows=r, dims=n, d=d) for o, r, n in OPS for d in range(n)]
    quick = lambda sh: sh["ops"] <= 2 and sh["rows"] == 1
    total = True

    def args(sh, sym):
        return [mk_schedule(sym, sh["ops"], sh["rows"], sh["dims"]), sh["d"], sym.int("tb"),
                [sym.int(f"x{j}") for j in range(sh["dims"] + 1)], sym.int("y")]

    def requires(sh, a):
        return a[2] >= 1 and a[0][0].bounds[a[1]] % a[2] == 0

    def run(sh, a):
        return a[0].tile_dim(a[1], a[2])

    def ensures(sh, a, ret):
        check("one result pattern per operand", len(ret) == sh["ops"] and isinstance(ret, Schedule))
        for i in range(sh["ops"]):
            check_tiled(a[0][i], ret[i], sh["dims"], sh["d"], a[2], a[3], a[4], f"operand {i}: ")

    def canary(sh, a, ret):
        check("canary: number of dims unchanged", ret.num_dims == sh["dims"])


@contract
class Schedule_add_dim:
    target = "snaxc.ir.dart.access_pattern.Schedule.add_dim"
    shapes = [dict(ops=o, rows=r, dims=n) for o, r, n in OPS]
    quick = lambda sh: sh["ops"] <= 2 and sh["rows"] == 1
    total = True

    def args(sh, sym):
        return [mk_schedule(sym, sh["ops"], sh["rows"], sh["dims"]), [sym.int(f"x{j}") for j in range(sh["dims"] + 1)]]

    def run(sh, a):
        return a[0].add_dim()

    def ensures(sh, a, ret):
        check("one result pattern per operand", len(ret) == sh["ops"])
        for i in range(sh["ops"]):
            check(f"operand {i}: new leading unit bound", list(ret[i].bounds) == [1] + list(a[0][i].bounds))
            check(f"operand {i}: same operand index", implies(a[1][0] == 0, ev(ret[i], a[1]) == ev(a[0][i], a[1][1:])))

    def canary(sh, a, ret):
        check("canary: bounds unchanged", list(ret[0].bounds) == list(a[0][0].bounds))


@contract
class PatternCollection_clear_unused_dims:
    target = "snaxc.ir.dart.access_pattern.PatternCollection.clear_unused_dims"
    shapes = [dict(ops=o, rows=r, dims=n, custom=c) for o, r, n in OPS for c in (False, True)]
    quick = lambda sh: sh["ops"] <= 2 and sh["rows"] == 1
    total = True

    def args(sh, sym):
        s = mk_schedule(sym, sh["ops"], sh["rows"], sh["dims"])
        custom = tuple(sym.int(f"C{j}", 1) for j in range(sh["dims"])) if sh["custom"] else None
        return [s, custom, [sym.int(f"x{j}") for j in range(sh["dims"])]]

    def run(sh, a):
        return a[0].clear_unused_dims(a[1])

    def ensures(sh, a, ret):
        s, custom, x = a
        pb = list(custom) if custom is not None else list(s[0].bounds)
        keep = [j for j in range(sh["dims"]) if pb[j] != 1]
        check("one result pattern per operand", len(ret) == sh["ops"])
        for i in range(sh["ops"]):
            check(f"operand {i}: exactly the dimensions with bound != 1 are kept (a dimension nobody indexes still REPEATS the iteration: dropping it changes the multiset)",
                  ret[i].num_dims == len(keep))
            check(f"operand {i}: kept bounds", list(ret[i].bounds) == [pb[j] for j in keep])
            if ret[i].num_dims == len(keep):
                check(f"operand {i}: same operand index on the box of the given bounds",
                      implies(in_box(x, pb), ev(ret[i], [x[j] for j in keep]) == ev(s[i], x)))

    def canary(sh, a, ret):
        check("canary: nothing dropped", ret[0].num_dims == sh["dims"])


# =====================================================================================
# C16: the scheduler's constraint predicates against declarative specifications
# =====================================================================================
from snaxc.ir.dart.scheduler import is_memory_flexible_enough, is_output_channel_stationary, is_pure_output_stationary  # noqa: E402


def mk_template(ops, rows, dims):
    z = np.array([[0] * dims for _ in range(rows)]).reshape(rows, dims)
    return Template([TemplatePattern([None] * dims, AffineTransform(z, np.array([0] * rows).reshape(rows))) for _ in range(ops)])


def col_nonzero(A, j):
    return any(A[i][j] != 0 for i in range(len(A)))


def snap(coll):
    """pre-state snapshot of a Schedule / Template: per operand (bounds, A, b) as python lists"""
    return [(list(p.bounds), tolist(p.pattern.A), tolist(p.pattern.b)) for p in coll]


def check_frame(a, pre_t, pre_s):
    """FRAME: an extra check is a pure predicate - scheduler_backtrack goes on building on the very objects (numpy views
    of the candidate's matrices included) it handed to the check"""
    check("frame: the template handed to the check is left unchanged", snap(a[0]) == pre_t)
    check("frame: the schedule handed to the check is left unchanged (bounds, strides and offsets of every operand)", snap(a[1]) == pre_s)


CONSTR = [dict(ops=o, rows=r, temporal=t, tdims=td) for o in (1, 2) for r in (1, 2) for t in (0, 1, 2, 3, 4) for td in (1, 2, 3) if t + td <= 6]


@contract
class is_pure_output_stationary_contract:
    target = "snaxc.ir.dart.scheduler.is_pure_output_stationary"
    shapes = CONSTR
    quick = lambda sh: sh["temporal"] <= 3 and sh["tdims"] <= 2
    total = True

    def args(sh, sym):
        n = sh["temporal"] + sh["tdims"]
        t, s = mk_template(sh["ops"], sh["rows"], sh["tdims"]), mk_schedule(sym, sh["ops"], sh["rows"], n)
        return [t, s, snap(t), snap(s)]

    def ensures(sh, a, ret):
        A = a[3][sh["ops"] - 1][1]
        check_frame(a, a[2], a[3])
        T = sh["temporal"]
        # spec: among the temporal columns of the OUTPUT operand no reduction (all-zero) column precedes a parallel one
        spec = all(not (not col_nonzero(A, i) and col_nonzero(A, j)) for i in range(T) for j in range(i + 1, T))
        check("is_pure_output_stationary <=> no all-zero temporal column precedes a non-zero one (output operand)", ret == spec)

    def canary(sh, a, ret):
        check("canary: every schedule is output stationary", ret and sh["temporal"] >= 2)


@contract
class is_output_channel_stationary_contract:
    target = "snaxc.ir.dart.scheduler.is_output_channel_stationary"
    shapes = [dict(sh, ch=c) for sh in CONSTR if sh["temporal"] >= 1 for c in range(sh["rows"])]
    quick = lambda sh: sh["temporal"] <= 3 and sh["tdims"] <= 2
    total = True

    def args(sh, sym):
        n = sh["temporal"] + sh["tdims"]
        t, s = mk_template(sh["ops"], sh["rows"], sh["tdims"]), mk_schedule(sym, sh["ops"], sh["rows"], n)
        return [t, s, sh["ch"], snap(t), snap(s)]

    def ensures(sh, a, ret):
        row = a[4][sh["ops"] - 1][1][sh["ch"]][: sh["temporal"]]
        check_frame(a, a[3], a[4])
        spec = all(x == 0 for x in row) or row[0] != 0
        check("is_output_channel_stationary <=> the channel row is all zero or starts with a non-zero (no zero before the first non-zero)", ret == spec)

    def canary(sh, a, ret):
        check("canary: always channel stationary", ret)


@contract
class is_memory_flexible_enough_contract:
    target = "snaxc.ir.dart.scheduler.is_memory_flexible_enough"
    shapes = [dict(sh, sizes=sz) for sh in CONSTR if sh["temporal"] <= 3 for sz in ((1, 4), (2, 8), (8, 1))]
    quick = lambda sh: sh["temporal"] <= 2 and sh["tdims"] <= 2 and sh["sizes"] != (8, 1)
    total = True

    def args(sh, sym):
        n = sh["temporal"] + sh["tdims"]
        t, s = mk_template(sh["ops"], sh["rows"], sh["tdims"]), mk_schedule(sym, sh["ops"], sh["rows"], n)
        return [t, s, list(sh["sizes"])[: sh["ops"]], snap(t), snap(s)]

    def ensures(sh, a, ret):
        check_frame(a, a[3], a[4])
        T, n = sh["temporal"], sh["temporal"] + sh["tdims"]
        if T == 0:
            check("no temporal dimensions: nothing to check", ret is True or ret == True)  # noqa: E712
        else:
            ok = True
            for o in range(sh["ops"]):
                A = a[4][o][1]
                size = a[2][o]
                g = -(-8 // size)  # ceil(bank width / element size)
                # some result row has only bank-aligned temporal coefficients AND a spatial coefficient equal to 1
                ok = ok and any(all(A[i][j] % g == 0 for j in range(T)) and any(A[i][j] == 1 for j in range(T, n)) for i in range(sh["rows"]))
            check("is_memory_flexible_enough <=> every operand has a row with aligned temporal strides and a unit spatial stride", ret == ok)

    def canary(sh, a, ret):
        check("canary: always flexible enough", ret)
