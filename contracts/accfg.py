"""Contracts for snaxc/inference/{trace_acc_state,helpers}.py and snaxc/transforms/accfg_dedup.py (C07, C01, C04-rocc).

State = Field -> SSA value.  Per shape the field universe is FIELDS (the conditions are pointwise in the field,
so a small universe exercises every case); which fields a state contains and which SSA values they hold
(identity tags) are SYMBOLIC."""
from pyvc.api import SYMBOLIC, check, contract, implies, mk_ident_value
from xdsl.dialects import scf
from xdsl.dialects.builtin import IndexType
from xdsl.ir import Block, Region

from snaxc.dialects import accfg
from snaxc.inference import helpers, trace_acc_state

FIELDS = ("A", "B")
G = {}


def mk_state(sym, pfx, fields=FIELDS):
    d = {}
    for f in fields:
        if sym.bool(f"{pfx}_has_{f}"):
            d[f] = mk_ident_value(sym.int(f"{pfx}_{f}", 0, 3))
    return d


def submap(x, y):
    """x is a sub-map of y: every binding of x is a binding of y"""
    return all(k in y and x[k] == y[k] for k in x)


@contract
class state_intersection_contract:
    target = "snaxc.inference.trace_acc_state.state_intersection"
    shapes = [dict(nf=n) for n in (1, 2, 3)]
    quick = lambda sh: sh["nf"] <= 2
    total = True
    compare_ret = False

    def args(sh, sym):
        fs = ("A", "B", "C")[: sh["nf"]]
        return [mk_state(sym, "a", fs), mk_state(sym, "b", fs)]

    def ensures(sh, a, ret):
        x, y = a
        for f in ("A", "B", "C")[: sh["nf"]]:
            both = f in x and f in y and x[f] == y[f]
            check(f"field {f}: kept exactly when both sides know it with the same value (never from one side only)", (f in ret) == both)
            if f in ret and f in x:
                check(f"field {f}: the kept value is that value", ret[f] == x[f])
        check("no other keys", all(k in x for k in ret))

    def canary(sh, a, ret):
        check("canary: intersection equals the first state", len(ret) == len(a[0]))


# ---------------------------------------------------------------------------------------------------
# infer_state_of: local soundness conditions of the must-analysis (recursive calls = the function's own contract)
# ---------------------------------------------------------------------------------------------------
def infer_rec(local):
    """INFER(v) for the values the case refers to: an arbitrary (symbolic) state fixed in args(); a COPY is
    returned because callers update the result in place"""
    v = local["state_var"]
    for val, st in G["infer"]:
        if val is v:
            return dict(st)
    raise AssertionError("infer_state_of called on a value outside the view")


def state_val():
    v = mk_ident_value(len(G["infer"]) + 100)
    return v


def with_state(sym, pfx, fields=FIELDS):
    v = state_val()
    G["infer"].append((v, mk_state(sym, pfx, fields)))
    return v


def params_of(sym, n):
    names = [("A", "B", "A")[k] if False else sym_name(sym, k) for k in range(n)]
    return names


def sym_name(sym, k, fields=FIELDS):
    # a parameter name from the universe, chosen symbolically (so duplicated names are covered)
    if len(fields) == 2:
        return "A" if sym.bool(f"p{k}_isA") else "B"
    return "A" if sym.bool(f"p{k}_isA") else ("B" if sym.bool(f"p{k}_isB") else "C")


FIELDS3 = ("A", "B", "C")


INFER_SHAPES = ([dict(kind="setup_noin", nparams=n) for n in (0, 1, 2)] + [dict(kind="setup_in", nparams=n) for n in (0, 1, 2)]
                + [dict(kind=k, nparams=0) for k in ("if_result", "for_result", "for_result_const", "for_blockarg", "other_blockarg")])


@contract
class infer_state_of_contract:
    """whatever is inferred for a state-typed value is a SUBSET of what holds on every execution reaching it"""
    target = "snaxc.inference.trace_acc_state.infer_state_of"
    shapes = INFER_SHAPES
    native = False
    total = True
    modular = {"snaxc.inference.trace_acc_state.infer_state_of": infer_rec}

    def args(sh, sym):
        G["infer"] = []
        kind = sh["kind"]
        if kind in ("setup_noin", "setup_in"):
            names = [sym_name(sym, k) for k in range(sh["nparams"])]
            vals = [mk_ident_value(sym.int(f"v{k}", 0, 3)) for k in range(sh["nparams"])]
            ins = with_state(sym, "in") if kind == "setup_in" else None
            op = accfg.SetupOp(vals, names, "acc", ins)
            G["case"] = dict(names=names, vals=vals, ins=ins)
            return [op.out_state]
        if kind == "if_result":
            ty, ey = with_state(sym, "then"), with_state(sym, "else")
            other = mk_ident_value(50)
            op = scf.IfOp(mk_ident_value(51), [None, None], Region([Block([scf.YieldOp(other, ty)])]), Region([Block([scf.YieldOp(other, ey)])]))
            G["case"] = dict(ty=ty, ey=ey)
            return [op.results[1]]
        if kind in ("for_result", "for_result_const", "for_blockarg"):
            init, yv = with_state(sym, "init"), with_state(sym, "yield")
            other = mk_ident_value(50)
            blk = Block(arg_types=[IndexType(), None, None])
            blk.add_op(scf.YieldOp(other, yv))
            if kind == "for_result_const":
                # compile-time constant bounds (an implementation may use them to rule out the zero-trip case)
                from xdsl.dialects import arith as _arith
                LB, UB, ST = sym.int("LB"), sym.int("UB"), sym.int("ST", 1)
                bounds = [_arith.ConstantOp.from_int_and_width(x, IndexType()).results[0] for x in (LB, UB, ST)]
                op = scf.ForOp(bounds[0], bounds[1], bounds[2], [other, init], Region([blk]))
                G["case"] = dict(init=init, yv=yv, LB=LB, UB=UB)
                return [op.results[1]]
            op = scf.ForOp(mk_ident_value(52), mk_ident_value(53), mk_ident_value(54), [other, init], Region([blk]))
            G["case"] = dict(init=init, yv=yv)
            return [op.results[1] if kind == "for_result" else blk.args[2]]
        blk = Block(arg_types=[None])
        G["case"] = {}
        return [blk.args[0]]

    def ensures(sh, a, ret):
        kind = sh["kind"]
        c = G["case"]
        table = G["infer"]

        def INFER(v):
            for val, st in table:
                if val is v:
                    return st
            return None

        if kind in ("setup_noin", "setup_in"):
            truth = dict(INFER(c["ins"])) if kind == "setup_in" else {}
            for n, v in zip(c["names"], c["vals"]):
                truth[n] = v  # a later write of the same field overrides an earlier one
            check("setup: inferred state is a sub-map of (incoming state overridden by the written fields)", submap(ret, truth))
            check("setup: every written field is known afterwards (precision)", all(n in ret for n in c["names"]))
        elif kind == "if_result":
            t, e = INFER(c["ty"]), INFER(c["ey"])
            check("if: inferred state holds on the then path", submap(ret, t))
            check("if: inferred state holds on the else path", submap(ret, e))
        elif kind == "for_result":
            check("loop result: holds when the loop ran (state yielded by the last iteration)", submap(ret, INFER(c["yv"])))
            check("loop result: holds when the loop ran zero times (the initial state)", submap(ret, INFER(c["init"])))
        elif kind == "for_result_const":
            check("loop result (constant bounds): holds when the loop ran (state yielded by the last iteration)", implies(c["LB"] < c["UB"], submap(ret, INFER(c["yv"]))))
            check("loop result (constant bounds): holds when the loop ran zero times, i.e. whenever NOT lb < ub (the initial state)",
                  implies(not (c["LB"] < c["UB"]), submap(ret, INFER(c["init"]))))
        elif kind == "for_blockarg":
            check("loop head: holds on the first iteration (the initial state)", submap(ret, INFER(c["init"])))
            check("loop head: holds on every later iteration (the state yielded by the previous one)", submap(ret, INFER(c["yv"])))
        else:
            check("unknown block argument: nothing is assumed", len(ret) == 0)

    def canary(sh, a, ret):
        check("canary: nothing is ever inferred", len(ret) == 0 and sh["kind"] != "other_blockarg")


@contract
class calc_if_state_delta_contract:
    """which accelerator states an scf.if must yield: exactly those present on BOTH sides that are new or changed;
    a state dropped on one side is not carried; the two branch dicts lose exactly the keys of the old state"""
    target = "snaxc.inference.helpers.calc_if_state_delta"
    shapes = [dict(nf=n) for n in (1, 2)]
    total = True
    compare_ret = False

    def args(sh, sym):
        fs = ("A", "B")[: sh["nf"]]
        old, t, e = mk_state(sym, "old", fs), mk_state(sym, "then", fs), mk_state(sym, "else", fs)
        return [old, t, e, dict(t), dict(e)]

    def run(sh, a):
        return helpers.calc_if_state_delta(a[0], a[1], a[2])

    def ensures(sh, a, ret):
        old, t_after, e_after, t0, e0 = a
        for f in ("A", "B")[: sh["nf"]]:
            both = f in t0 and f in e0
            changed = both and (f not in old or not (t0[f] == old[f] and e0[f] == old[f]))
            check(f"{f}: yielded exactly when both branches have it and it is new or changed on a side", (f in ret) == changed)
            if f in ret and f in t0 and f in e0:
                check(f"{f}: the pair is (then value, else value)", ret[f][0] == t0[f] and ret[f][1] == e0[f])
            check(f"{f}: frame - branch dicts lose exactly the keys of the old state",
                  (f in t_after) == (f in t0 and f not in old) and (f in e_after) == (f in e0 and f not in old))
        check("no other keys", all(k in t0 and k in e0 for k in ret))

    def canary(sh, a, ret):
        check("canary: nothing is ever yielded", len(ret) == 0)


# ---------------------------------------------------------------------------------------------------
# has_accfg_effects: structural recursion over the op tree
# ---------------------------------------------------------------------------------------------------
from xdsl.ir import Operation  # noqa: E402


class TreeOp(Operation):
    """view of an arbitrary op: attribute dict, class tag (is it a call), children"""

    def __init__(self, attrs, children, layout="one_block"):
        self._init_op([], [], [])
        self.attributes = attrs
        if len(children) == 0:
            self.regions = []
        elif layout == "regions":
            # one region per child (scf.if: then / else; scf.while: before / after)
            self.regions = [Region([Block([c])]) for c in children]
        elif layout == "blocks":
            # one region, one block per child (unstructured control flow inside the op)
            self.regions = [Region([Block([c]) for c in children])]
        else:
            self.regions = [Region([Block(children)])]


from xdsl.dialects import func as _func  # noqa: E402


class FuncCallView(TreeOp, _func.CallOp):
    """a func.call (subclass of the stub's CallOp so that isinstance() recognises it)"""


class LlvmCallView(TreeOp):
    __opaque_bases__ = ("llvm.CallOp",)


def effects_rec(local):
    op = local["op"]
    for o, r in G["fx"]:
        if o is op:
            return r
    raise AssertionError("has_accfg_effects called on an op outside the view")


@contract
class has_accfg_effects_contract:
    """an op has effects iff its explicit attribute says so, else iff it is a call, else iff some nested op has
    (recursive calls through the function's own contract: arbitrary answers for the children)"""
    target = "snaxc.inference.helpers.has_accfg_effects"
    shapes = ([dict(attr=a, call=c, nchildren=n) for a in ("none_attr", "effects_none", "effects_all", "other_attr") for c in ("no", "func", "llvm") for n in (0, 1, 2)]
              + [dict(attr=a, call="no", nchildren=n, layout=l) for a in ("none_attr", "other_attr") for n in (2, 3) for l in ("regions", "blocks")])
    native = False
    total = True
    modular = {"snaxc.inference.helpers.has_accfg_effects": effects_rec}
    permissive = True

    def args(sh, sym):
        from xdsl.dialects import func, llvm
        G["fx"] = []
        children = []
        for k in range(sh["nchildren"]):
            c = TreeOp({}, [])
            G["fx"].append((c, sym.bool(f"child{k}_effects")))
            children.append(c)
        attrs = {}
        if sh["attr"] == "effects_none":
            attrs["accfg.effects"] = accfg.EffectsAttr(accfg.EffectsEnum.NONE)
        elif sh["attr"] == "effects_all":
            attrs["accfg.effects"] = accfg.EffectsAttr(accfg.EffectsEnum.FULL)
        elif sh["attr"] == "other_attr":
            attrs["accfg.effects"] = mk_ident_value(7)
        cls = dict(no=TreeOp, func=FuncCallView, llvm=LlvmCallView)[sh["call"]]
        op = cls(attrs, children, sh.get("layout", "one_block"))
        G["case"] = dict(children=[r for _, r in G["fx"]])
        return [op]

    def ensures(sh, a, ret):
        kids = G["case"]["children"]
        if sh["attr"] == "effects_none":
            check("explicit 'none' annotation: no effects, whatever the op is", ret == False)  # noqa: E712
        elif sh["attr"] == "effects_all":
            check("explicit 'all' annotation: effects", ret == True)  # noqa: E712
        elif sh["call"] != "no":
            check("an unannotated call has effects", ret == True)  # noqa: E712
        else:
            check("otherwise: effects iff some nested op has effects - in ANY region and ANY block of the op", ret == any(kids))

    def canary(sh, a, ret):
        check("canary: nothing has effects", ret == False)  # noqa: E712


# ===================================================================================================
# C01: accfg_dedup.py - each rewrite preserves the register file every launch observes
# ===================================================================================================
from xdsl.pattern_rewriter import PatternRewriter  # noqa: E402

import snaxc.transforms.accfg_dedup as dedup  # noqa: E402


def apply_params(rho, names, vals):
    """register semantics of a setup: rho (+) params, later writes of a field win"""
    r = dict(rho)
    for n, v in zip(names, vals):
        r[n] = v
    return r


def same_regs(r1, r2, fields=FIELDS):
    return all((f in r1) == (f in r2) and (f not in r1 or r1[f] == r2[f]) for f in fields)


def names_of(op):
    return [p.data for p in op.param_names]


def sound(prev, rho):
    """Sound(prev, rho): every assumed binding is true in the register file"""
    return all(k in rho and rho[k] == prev[k] for k in prev)


def mk_regs(sym, pfx, fields=FIELDS):
    """an arbitrary total register file over the field universe"""
    return {f: mk_ident_value(sym.int(f"{pfx}_{f}", 0, 3)) for f in fields}


@contract
class SimplifyRedundantSetupCalls_contract:
    """dropping parameters the inferred previous state already holds never changes the registers after the setup,
    GIVEN the inferred state is sound (C07)"""
    target = "snaxc.transforms.accfg_dedup.SimplifyRedundantSetupCalls.match_and_rewrite"
    shapes = [dict(nparams=n, has_in=h) for n in (0, 1, 2, 3) for h in (False, True)]
    native = False
    total = True
    modular = {"snaxc.inference.trace_acc_state.infer_state_of": infer_rec}

    def args(sh, sym):
        G["infer"] = []
        names = [sym_name(sym, k, FIELDS3) for k in range(sh["nparams"])]
        vals = [mk_ident_value(sym.int(f"v{k}", 0, 3)) for k in range(sh["nparams"])]
        ins = with_state(sym, "prev", FIELDS3) if sh["has_in"] else None
        op = accfg.SetupOp(vals, names, "acc", ins)
        rho = mk_regs(sym, "rho", FIELDS3)
        return [op, names, vals, ins, rho]

    def requires(sh, a):
        op, names, vals, ins, rho = a
        # is_valid(setup): a setup names each field at most once (the form every accelerator lowering emits - the
        # property's own quantifier).  With a duplicated field the later write wins, and dropping it is not sound.
        distinct = all(names[i] != names[j] for i in range(len(names)) for j in range(i))
        return distinct and (sound(G["infer"][0][1], rho) if ins is not None else True)

    def run(sh, a):
        op = a[0]
        rw = PatternRewriter(op)
        dedup.SimplifyRedundantSetupCalls().match_and_rewrite(op, rw)
        return rw.log

    def ensures(sh, a, ret):
        op, names, vals, ins, rho = a
        if len(ret) == 0:
            check("nothing recorded", True)
        else:
            check("exactly one replacement of the matched op by one new setup", len(ret) == 1 and ret[0][0] == "replace_op" and ret[0][1] is op and len(ret[0][2]) == 1)
            new = ret[0][2][0]
            check("same accelerator and same incoming state", isinstance(new, accfg.SetupOp) and new.accelerator == op.accelerator and new.in_state is op.in_state)
            check("something was actually dropped", len(new.values) < len(vals))
            check("registers after the reduced setup equal registers after the original one",
                  same_regs(apply_params(rho, names_of(new), list(new.values)), apply_params(rho, names, vals), FIELDS3))
            check("value/name lists stay aligned", len(new.values) == len(new.param_names))

    def canary(sh, a, ret):
        check("canary: the pattern never rewrites", len(ret) == 0)


class PureView(Operation):
    """an op between two setups: `pure` is a ghost flag (is_side_effect_free)"""

    def __init__(self, pure):
        self._init_op([], [], [])
        self.pure = pure


@contract
class MergeSetupOps_contract:
    """two setups of one accelerator with only side-effect-free ops in between become one setup with the union of
    the fields (later wins) chained on the first one's incoming state"""
    target = "snaxc.transforms.accfg_dedup.MergeSetupOps.match_and_rewrite"
    shapes = [dict(between=b, prev=p, n1=n1, n2=n2) for b in (0, 1, 2) for p in ("same", "other", "none") for n1, n2 in ((1, 1), (2, 1), (1, 2), (0, 2))]
    quick = lambda sh: sh["between"] <= 1 or (sh["n1"], sh["n2"]) == (1, 1)
    native = False
    total = True

    def args(sh, sym):
        n1, n2 = sh["n1"], sh["n2"]
        names1 = [sym_name(sym, k) for k in range(n1)]
        vals1 = [mk_ident_value(sym.int(f"u{k}", 0, 3)) for k in range(n1)]
        names2 = [sym_name(sym, 10 + k) for k in range(n2)]
        vals2 = [mk_ident_value(sym.int(f"w{k}", 0, 3)) for k in range(n2)]
        st0 = mk_ident_value(90)
        ops = []
        prev = None
        if sh["prev"] != "none":
            prev = accfg.SetupOp(vals1, names1, "acc" if sh["prev"] == "same" else "other_acc", st0)
            if sh["prev"] == "other":
                prev.pure = sym.bool("other_setup_pure")
            ops.append(prev)
        mids = [PureView(sym.bool(f"pure{k}")) for k in range(sh["between"])]
        ops.extend(mids)
        op = accfg.SetupOp(vals2, names2, "acc", prev.out_state if prev is not None else None)
        ops.append(op)
        blk = Block(ops)
        rho = mk_regs(sym, "rho")
        return [op, prev, mids, names1, vals1, names2, vals2, rho, st0]

    def run(sh, a):
        op = a[0]
        rw = PatternRewriter(op)
        dedup.MergeSetupOps().match_and_rewrite(op, rw)
        return rw.log

    def ensures(sh, a, ret):
        op, prev, mids, names1, vals1, names2, vals2, rho, st0 = a
        if len(ret) == 0:
            check("not merged", True)
        else:
            check("only a setup of the same accelerator is merged", sh["prev"] == "same")
            check("every op skipped over is side-effect free", all(m.pure for m in mids))
            er = [e for e in ret if e[0] == "erase_op"]
            rp = [e for e in ret if e[0] == "replace_op"]
            check("the earlier setup is erased and the matched one replaced by exactly one setup", len(er) == 1 and er[0][1] is prev and len(rp) == 1 and rp[0][1] is op and len(rp[0][2]) == 1 and len(ret) == 2)
            new = rp[0][2][0]
            check("merged setup is chained on the earlier setup's incoming state", new.in_state is st0 and new.accelerator == op.accelerator)
            check("registers after the merged setup equal registers after both setups in sequence",
                  same_regs(apply_params(rho, names_of(new), list(new.values)), apply_params(apply_params(rho, names1, vals1), names2, vals2)))

    def canary(sh, a, ret):
        check("canary: setups are never merged", len(ret) == 0)


@contract
class ElideEmptySetupOps_contract:
    target = "snaxc.transforms.accfg_dedup.ElideEmptySetupOps.match_and_rewrite"
    shapes = [dict(nparams=n, has_in=h) for n in (0, 1) for h in (False, True)]
    native = False
    total = True

    def args(sh, sym):
        vals = [mk_ident_value(sym.int(f"v{k}", 0, 3)) for k in range(sh["nparams"])]
        ins = mk_ident_value(91) if sh["has_in"] else None
        return [accfg.SetupOp(vals, ["A"][: sh["nparams"]], "acc", ins), ins]

    def run(sh, a):
        rw = PatternRewriter(a[0])
        dedup.ElideEmptySetupOps().match_and_rewrite(a[0], rw)
        return rw.log

    def ensures(sh, a, ret):
        op, ins = a
        if len(ret) == 0:
            check("kept: it writes something or has no incoming state", sh["nparams"] > 0 or not sh["has_in"])
            check("uses untouched", op.out_state.replaced is None)
        else:
            check("only an empty setup with an incoming state is removed", sh["nparams"] == 0 and sh["has_in"])
            check("it is erased and its users now see the incoming state", len(ret) == 1 and ret[0][0] == "erase_op" and ret[0][1] is op
                  and op.out_state.replaced is not None and op.out_state.replaced[0] is ins)

    def canary(sh, a, ret):
        check("canary: never removed", len(ret) == 0)


# ---------------------------------------------------------------------------------------------------
# PullSetupOpsOutOfLoops and the region walk it relies on
# ---------------------------------------------------------------------------------------------------
def mk_loop_value(sym, name):
    v = mk_ident_value(sym.int(name, 0, 2))
    v.inside = sym.bool(name + "_defined_in_loop")
    return v


def defined_in_block_contract(local):
    """assumed (use-def / dominance question on the IR): val_is_defined_in_block == the ghost flag of the value"""
    return local["val"].inside


def build_loop(sym, sh):
    """scf.for whose body holds `top` setups at top level and `nested` setups inside an scf.if (then-branch), all for
    accelerator 'acc' (plus one for another accelerator); the first top-level setup takes the loop-carried state"""
    init = mk_ident_value(95)
    blk = Block(arg_types=[IndexType(), None])
    state_arg = blk.args[1]
    setups = []
    ops = []
    prev_state = state_arg
    for k in range(sh["top"]):
        names = [sym_name(sym, 10 * k + j) for j in range(sh["nparams"])]
        vals = [mk_loop_value(sym, f"t{k}_{j}") for j in range(sh["nparams"])]
        s = accfg.SetupOp(vals, names, "acc", prev_state)
        prev_state = s.out_state
        setups.append((s, names, vals))
        ops.append(s)
    nested_ops = []
    in_for = sh["nested"] > 0 and sh.get("nest", "if") == "for"
    iblk = Block(arg_types=[IndexType(), accfg.StateType("acc")]) if in_for else None
    for k in range(sh["nested"]):
        names = [sym_name(sym, 100 + 10 * k + j) for j in range(sh["nparams"])]
        vals = [mk_loop_value(sym, f"n{k}_{j}") for j in range(sh["nparams"])]
        s = accfg.SetupOp(vals, names, "acc", iblk.args[1] if in_for else prev_state)
        setups.append((s, names, vals))
        nested_ops.append(s)
    other = accfg.SetupOp([mk_loop_value(sym, "o0")], ["A"], "other_acc", None)
    if in_for:
        # the nested setups sit in an inner scf.for that carries the accelerator state itself (what trace-states builds for a loop nest)
        for o in nested_ops + [scf.YieldOp(nested_ops[-1].out_state)]:
            iblk.add_op(o)
        inner = scf.ForOp(mk_ident_value(91), mk_ident_value(92), mk_ident_value(93), [prev_state], Region([iblk]))
        ops.append(inner)
        prev_state = inner.results[0]
    elif sh["nested"] > 0:
        ops.append(scf.IfOp(mk_ident_value(96), [], Region([Block(nested_ops + [scf.YieldOp()])]), Region([Block([scf.YieldOp()])])))
    ops.append(other)
    ops.append(scf.YieldOp(prev_state))
    for o in ops:
        blk.add_op(o)
    loop = scf.ForOp(mk_ident_value(97), mk_ident_value(98), mk_ident_value(99), [init], Region([blk]))
    return loop, setups, init, state_arg


LOOP_SHAPES = [dict(top=t, nested=n, nparams=p) for t in (1, 2) for n in (0, 1) for p in (1, 2) if not (t == 2 and n == 1 and p == 2)]
LOOP_SHAPES += [dict(top=1, nested=1, nparams=p, nest="for") for p in (1, 2)]


def consistent_values(setups):
    """same identity => same 'defined in loop' flag (one SSA value has one definition site)"""
    vs = [v for _, _, vals in setups for v in vals]
    return all(implies(vs[i] == vs[j], vs[i].inside == vs[j].inside) for i in range(len(vs)) for j in range(i))


@contract
class all_setup_ops_in_region_contract:
    """every setup of the accelerator ANYWHERE in the region (nested control flow included) is reported"""
    target = "snaxc.inference.trace_acc_state.all_setup_ops_in_region"
    shapes = LOOP_SHAPES
    native = False
    total = True

    def args(sh, sym):
        loop, setups, init, state_arg = build_loop(sym, sh)
        G["case"] = dict(setups=setups)
        return [loop.body, "acc"]

    def requires(sh, a):
        return all(names[i] != names[j] for _, names, _ in G["case"]["setups"] for i in range(len(names)) for j in range(i))

    def ensures(sh, a, ret):
        states = list(ret)
        setups = G["case"]["setups"]
        check("one state per setup of this accelerator, nested ones included, none for other accelerators", len(states) == len(setups))
        for k in range(min(len(states), len(setups))):
            _, names, vals = setups[k]
            check(f"setup {k}: its fields and values", sorted(states[k].keys()) == sorted(names) and all(states[k][n] == v for n, v in zip(names, vals)))

    def canary(sh, a, ret):
        check("canary: only one setup is ever found", len(list(ret)) == 1)


@contract
class PullSetupOpsOutOfLoops_contract:
    """a field is hoisted in front of the loop only if EVERY setup in the loop (nested ones included) writes the same
    value to it and that value is defined outside the loop; the hoisted setup is chained in front of the loop state"""
    target = "snaxc.transforms.accfg_dedup.PullSetupOpsOutOfLoops.match_and_rewrite"
    shapes = LOOP_SHAPES
    native = False
    total = True
    modular = {"snaxc.inference.helpers.val_is_defined_in_block": defined_in_block_contract}

    def args(sh, sym):
        loop, setups, init, state_arg = build_loop(sym, sh)
        G["case"] = dict(setups=setups)
        return [setups[0][0], loop, setups, init, state_arg]

    def requires(sh, a):
        setups = a[2]
        return consistent_values(setups) and all(names[i] != names[j] for _, names, _ in setups for i in range(len(names)) for j in range(i))

    def run(sh, a):
        op, loop = a[0], a[1]
        rw = PatternRewriter(op)
        dedup.PullSetupOpsOutOfLoops().match_and_rewrite(op, rw)
        return rw.log

    def ensures(sh, a, ret):
        op, loop, setups, init, state_arg = a
        if len(ret) == 0:
            check("nothing hoisted", True)
        else:
            check("exactly one setup is inserted directly before the loop", len(ret) == 1 and ret[0][0] == "insert_op" and len(ret[0][1]) == 1
                  and ret[0][2].kind == "before" and ret[0][2].anchor is loop)
            new = ret[0][1][0]
            hn, hv = names_of(new), list(new.values)
            check("hoisted setup: same accelerator, chained on the loop's initial state", new.accelerator == op.accelerator and new.in_state is init)
            check("the loop now starts from the hoisted setup's state", any(o is new.out_state for o in loop.operands) and not any(o is init for o in loop.operands))
            for i in range(len(hn)):
                for s, names, vals in setups:
                    for n, v in zip(names, vals):
                        check(f"hoisted field {i}: every setup in the loop that writes it writes the hoisted value, defined outside the loop",
                              implies(n == hn[i], v == hv[i] and not v.inside))

    def canary(sh, a, ret):
        check("canary: nothing is ever hoisted", len(ret) == 0)


# ===================================================================================================
# C07: threading of states through control flow (_weave_states_in_region), one op at a time.
# TRUTH: at every program point a partial map T: accelerator -> the SSA state value that is the latest state of that
# accelerator on EVERY path reaching the point (absent when unknown).  Soundness of the woven state S: S is a sub-map of T.
# The transfer function of each op kind is stated below; recursive calls use the function's own contract:
# "given S_in sub-map of T_entry the returned dict is a sub-map of T_exit" with T_exit an arbitrary ghost map.
# ===================================================================================================
import snaxc.transforms.convert_linalg_to_accfg as l2a  # noqa: E402

ACCS = ("acc", "other")
W = {}


def mk_acc_state(sym, pfx, base):
    """a state dict over the accelerator universe with symbolic presence; values are identity-tagged state values"""
    d = {}
    for i, a in enumerate(W.get("accs", ACCS)):
        if sym.bool(f"{pfx}_has_{a}"):
            d[a] = mk_ident_value(sym.int(f"{pfx}_{a}", base, base + 2), accfg.StateType(a))
    return d


def weave_rec(local):
    """the function's own contract for recursive calls: the result is SOME state that is a sub-map of the ghost truth at
    the exit of that container (fixed in args); the container's ops are not touched"""
    c = local["container"]
    passed = local["state"]
    # call-site preconditions of the recursive call
    if isinstance(c, RegionOpView):
        # the regions of an unknown op may run any number of times, later runs start from whatever the previous run left
        check("the nested weave of an op whose regions may run repeatedly starts without any assumed state", len(passed) == 0)
    elif W.get("for_op") is not None and c is W["for_op"]:
        # the whole loop handed to a nested weave (the path taken for bodies with effects): it runs any number of times and
        # every iteration after the first starts from whatever the previous one left
        check("the nested weave of a loop whose body may change accelerator state starts without any assumed state", len(passed) == 0)
    elif W.get("for_op") is not None and c is W["for_op"].body:
        # a loop body: a loop-carried block argument stands for "the state at the head of THIS iteration"; any other
        # value is only right at the head of every iteration if nothing in the body can change that accelerator
        f = W["for_op"]
        for a in passed:
            is_arg = any(passed[a] is x for x in f.body.block.args)
            check(f"loop body: the state assumed for '{a}' at the head of the body is a loop-carried argument, or the body cannot change it",
                  is_arg or (not f.fx and a not in f.nested))
    else:
        T = W.get("T", {})
        check("the state handed to a branch of an scf.if is (a part of) the true state in front of the if",
              all(a in T and passed[a] is T[a] for a in passed))
    for cont, st in W["rec"]:
        if cont is c:
            return dict(st)
    return {}


def effects_flag(local):
    return getattr(local["op"], "fx", False)


def nested_accs(local):
    """find_all_acc_names_in_region through its (assumed) contract: the ghost set of accelerators set up inside"""
    owner = local["reg"].parent
    return set(getattr(owner, "nested", []))


class RegionOpView(Operation):
    """an op with regions that is neither scf.if nor scf.for; ghost: fx = it (or something nested) has accfg effects,
    nested = accelerators set up somewhere inside it"""

    def __init__(self, fx, nested, has_regions):
        self._init_op([], [], [])
        self.fx = fx
        self.nested = nested
        if has_regions:
            r = Region([Block([])])
            r.parent = self
            self.regions = [r]


WEAVE_SHAPES = ([dict(kind="setup", has_in=h) for h in (False, True)] + [dict(kind="if"), dict(kind="region_op"), dict(kind="effect"), dict(kind="plain")]
                + [dict(kind="for", pre=p) for p in ("none", "existing_arg")])


@contract
class weave_states_transfer_contract:
    target = "snaxc.transforms.convert_linalg_to_accfg._weave_states_in_region"
    shapes = WEAVE_SHAPES
    native = False
    total = True
    permissive = True
    modular = {"snaxc.transforms.convert_linalg_to_accfg._weave_states_in_region": weave_rec,
               "snaxc.inference.helpers.has_accfg_effects": effects_flag,
               "snaxc.inference.helpers.find_all_acc_names_in_region": nested_accs}

    def requires(sh, a):
        if sh["kind"] != "for":
            return True
        op, Sb = a[2], a[5]["Sb"]
        # without effects in the body, every accelerator the body sets up has a woven state at its end
        return op.fx or all(x in Sb for x in op.nested)

    def args(sh, sym):
        W["rec"] = []
        W["for_op"] = None
        # the conditions are pointwise in the accelerator: the if case is explored for one accelerator
        W["accs"] = ("acc",) if sh["kind"] == "if" else ACCS
        ACCS_ = W["accs"]
        T = mk_acc_state(sym, "T", 0)          # truth before the op
        W["T"] = T
        S = {}
        for a in ACCS_:                         # the woven state: any sub-map of the truth
            if a in T and sym.bool(f"S_has_{a}"):
                S[a] = T[a]
        kind = sh["kind"]
        extra = {}
        if kind == "setup":
            ins = mk_ident_value(sym.int("ins", 0, 4), accfg.StateType("acc")) if sh["has_in"] else None
            op = accfg.SetupOp([mk_ident_value(50)], ["A"], "acc", ins)
        elif kind == "if":
            op = scf.IfOp(mk_ident_value(51), [], Region([Block([scf.YieldOp()])]), Region([Block([scf.YieldOp()])]))
            Tt, Te = mk_acc_state(sym, "Tthen", 10), mk_acc_state(sym, "Telse", 10)
            # values unchanged inside a branch are the incoming ones: let the ghost truths also range over the old values
            for a in ACCS_:
                if a in T and sym.bool(f"then_keeps_{a}"):
                    Tt[a] = T[a]
                if a in T and sym.bool(f"else_keeps_{a}"):
                    Te[a] = T[a]
            St = {a: Tt[a] for a in ACCS_ if a in Tt and sym.bool(f"St_has_{a}")}
            Se = {a: Te[a] for a in ACCS_ if a in Te and sym.bool(f"Se_has_{a}")}
            W["rec"] = [(op.true_region, St), (op.false_region, Se)]
            extra = dict(Tt=Tt, Te=Te)
        elif kind == "region_op":
            op = RegionOpView(sym.bool("fx"), [a for a in ACCS if sym.bool(f"nested_{a}")], True)
        elif kind == "effect":
            op = RegionOpView(True, [], False)
        elif kind == "for":
            # scf.for with ghost flags: fx = something in the body has accfg effects, nested = accelerators set up in the body
            blk = Block(arg_types=[IndexType()] + ([accfg.StateType("acc")] if sh["pre"] == "existing_arg" else []))
            blk.add_op(scf.YieldOp(*([blk.args[1]] if sh["pre"] == "existing_arg" else [])))
            init = [T["acc"]] if sh["pre"] == "existing_arg" and "acc" in T else ([mk_ident_value(77, accfg.StateType("acc"))] if sh["pre"] == "existing_arg" else [])
            op = scf.ForOp(mk_ident_value(52), mk_ident_value(53), mk_ident_value(54), init, Region([blk]))
            op.fx = sym.bool("fx")
            op.nested = [a for a in ACCS if sym.bool(f"nested_{a}")]
            # the woven state at the END of the body (what the recursive call returns): any map; without effects every
            # accelerator set up in the body has a state there
            Sb = {}
            for a in ACCS:
                if sym.bool(f"Sb_has_{a}"):
                    Sb[a] = mk_ident_value(sym.int(f"Sb_{a}", 20, 22), accfg.StateType(a))
            W["rec"] = [(op.body, Sb)]
            W["for_op"] = op
            extra = dict(Sb=Sb)
        else:
            op = RegionOpView(False, [], False)
        return [Region([Block([op])]), dict(S), op, T, dict(S), extra]

    def run(sh, a):
        rw = PatternRewriter(a[2])
        out = l2a._weave_states_in_region(a[0], a[1], rw)
        return (out, rw.log)

    def ensures(sh, a, ret):
        region, S_mut, op, T, S_in, extra = a
        out, log = ret
        kind = sh["kind"]
        check("the returned dict is the (mutated) dict that was passed in", out is S_mut)
        if kind == "setup":
            reps = [e for e in log if e[0] == "replace_op"]
            final = reps[-1][2][0] if len(reps) > 0 else op
            check("the setup keeps its values, field names and accelerator", list(final.values) == list(op.values) and final.param_names == op.param_names and final.accelerator == op.accelerator)
            if "acc" in S_in:
                check("threading: the setup is linked to the state that really precedes it", final.in_state == S_in["acc"])
            else:
                check("a setup without known predecessor keeps its incoming state", final is op)
            T_after = dict(T)
            T_after["acc"] = final.out_state
            check("sound after the setup", submap(out, T_after))
            check("the new state of the accelerator is the setup's result", "acc" in out and out["acc"] is final.out_state)
        elif kind == "if":
            Tt, Te = extra["Tt"], extra["Te"]
            reps = [e for e in log if e[0] == "replace_op"]
            new_if = [e[2][0] for e in reps if e[1] is op]
            yields = {id(r): None for r in ()}
            for acc_name in ACCS:
                if acc_name in out:
                    v = out[acc_name]
                    unchanged = acc_name in Tt and acc_name in Te and v == Tt[acc_name] and v == Te[acc_name]
                    carried = False
                    if len(new_if) == 1 and any(v is r for r in new_if[0].results):
                        k = [i for i, r in enumerate(new_if[0].results) if r is v][0]
                        yt = [e[2][0] for e in reps if e[1] is op.true_region.block.last_op or (len(e[2]) == 1 and isinstance(e[2][0], scf.YieldOp) and e[1].parent is op.true_region.block)]
                        ye = [e[2][0] for e in reps if len(e[2]) == 1 and isinstance(e[2][0], scf.YieldOp) and e[1].parent is op.false_region.block]
                        yt = [e[2][0] for e in reps if len(e[2]) == 1 and isinstance(e[2][0], scf.YieldOp) and e[1].parent is op.true_region.block]
                        if len(yt) == 1 and len(ye) == 1 and k < len(yt[0].operands) and k < len(ye[0].operands):
                            carried = (acc_name in Tt and acc_name in Te and yt[0].operands[k] == Tt[acc_name] and ye[0].operands[k] == Te[acc_name])
                    check(f"after the if, the state assumed for '{acc_name}' holds on BOTH paths (unchanged in both, or a new if-result carrying both)", unchanged or carried)
        elif kind == "region_op":
            for acc_name in ACCS:
                if acc_name in out:
                    check(f"after an op with nested regions, '{acc_name}' is still assumed only if nothing inside may have changed it",
                          not op.fx and acc_name not in op.nested and acc_name in T and out[acc_name] == T[acc_name])
        elif kind == "effect":
            check("after an op that may reconfigure the accelerators nothing is assumed", len(out) == 0)
        elif kind == "for":
            for acc_name in ACCS:
                if acc_name in out:
                    v = out[acc_name]
                    is_result = any(v is r for r in op.results)
                    if acc_name in op.nested:
                        check(f"after the loop, '{acc_name}' (set up in the body) is assumed through a loop result only", is_result)
                    else:
                        # (a loop that already carries this accelerator's state keeps doing so: its result is handled by the
                        # loop-result condition of infer_state_of)
                        check(f"after the loop, '{acc_name}' (not set up in the body) keeps its state only if nothing in the body can change it",
                              is_result or (not op.fx and acc_name in T and v == T[acc_name]))
        else:
            check("an op without effects leaves the state as it was", submap(out, T) and len(out) == len(S_in))

    def canary(sh, a, ret):
        check("canary: the state is always empty afterwards", len(ret[0]) == 0)


# =====================================================================================
# HoistSetupCallsIntoConditionals: a setup after an scf.if moves into both branches only when no launch can observe
# the if's state in between, and when everything it uses is available inside the branches
# =====================================================================================
from pyvc.api import mk_opresult  # noqa: E402
from xdsl.ir import Use  # noqa: E402


class RegionView(Operation):
    """some op with one region (e.g. a second scf.if / a loop) holding the given ops"""

    def __init__(self, ops):
        self._init_op([], [], [])
        r = Region([Block(list(ops))])
        r.parent = self
        self.regions = [r]


class ValOp(Operation):
    """defines one value (e.g. an arith op computing a setup parameter)"""

    def __init__(self):
        self._init_op([], [None], [IndexType()])


HOIST_SHAPES = ([dict(launch=l, place=p, val="before_if") for l in ("none", "after", "before", "nested_before", "nested_after") for p in ("same_block", "inner_block")]
                + [dict(launch="none", place=p, val="between") for p in ("same_block", "inner_block")]
                + [dict(launch="none", place="same_block", val="if_result")])


def build_hoist(sh, sym):
    """%r = scf.if { ...; yield %t } else { ...; yield %e };  [launch %r | region { launch %r }];  %s = setup from %r (...)"""
    st = accfg.StateType("acc")
    t_state = accfg.SetupOp([], [], "acc")
    e_state = accfg.SetupOp([], [], "acc")
    yt, ye = scf.YieldOp(t_state.out_state), scf.YieldOp(e_state.out_state)
    cond = mk_opresult(sym.int("c"))
    if sh["val"] == "if_result":
        # the scf.if also yields an ordinary value, which the setup writes: it only exists AFTER the scf.if
        tv, evv = ValOp(), ValOp()
        yt, ye = scf.YieldOp(t_state.out_state, tv.results[0]), scf.YieldOp(e_state.out_state, evv.results[0])
        if_op = scf.IfOp(cond, [st, IndexType()], Region([Block([t_state, tv, yt])]), Region([Block([e_state, evv, ye])]))
    else:
        if_op = scf.IfOp(cond, [st], Region([Block([t_state, yt])]), Region([Block([e_state, ye])]))
    r = if_op.results[0]
    pre_val = ValOp()
    mid_val = ValOp()
    used = mid_val.results[0] if sh["val"] == "between" else (if_op.results[1] if sh["val"] == "if_result" else pre_val.results[0])
    op = accfg.SetupOp([used], ["f"], "acc", r)
    launch = accfg.LaunchOp([], [], r) if sh["launch"] != "none" else None
    before, after = [], []
    if sh["launch"] == "before":
        before = [launch]
    elif sh["launch"] == "after":
        after = [launch]
    elif sh["launch"] == "nested_before":
        before = [RegionView([launch])]
    elif sh["launch"] == "nested_after":
        after = [RegionView([launch])]
    if sh["place"] == "same_block":
        ops = [pre_val, if_op] + before + [mid_val, op] + after
    else:
        # the setup sits inside a later region op (e.g. the then-block of a second scf.if); launches stay in the outer block
        inner = RegionView([mid_val, op])
        ops = [pre_val, if_op] + before + [inner] + after
    blk = Block(ops)
    Region([blk])
    r.uses.append(Use(op, 1))
    if launch is not None:
        r.uses.append(Use(launch, 0))
    return dict(if_op=if_op, op=op, launch=launch, r=r, yields=[yt, ye], states=[t_state.out_state, e_state.out_state], used=used)


@contract
class HoistSetupCallsIntoConditionals_contract:
    """hoisted => no launch that observes the scf.if's state can run between the if and the setup, and the setup's values
    exist where the copies are placed; the copies continue the branch states and the if yields their results"""
    target = "snaxc.transforms.accfg_dedup.HoistSetupCallsIntoConditionals.match_and_rewrite"
    shapes = HOIST_SHAPES
    native = False
    total = True
    permissive = True
    compare_ret = False

    def args(sh, sym):
        return [build_hoist(sh, sym)]

    def run(sh, a):
        v = a[0]
        rw = PatternRewriter(v["op"])
        dedup.HoistSetupCallsIntoConditionals().match_and_rewrite(v["op"], rw)
        return rw.log

    def ensures(sh, a, ret):
        v = a[0]
        op = v["op"]
        if len(ret) == 0:
            check("not hoisted: nothing is touched", op.out_state.replaced is None)
            return
        # a launch on the if's state is only harmless when it provably comes AFTER the setup: same block, later position
        check("hoisted only when no launch observing the scf.if's state can run between the if and the setup",
              sh["launch"] == "none" or (sh["launch"] == "after" and sh["place"] == "same_block"))
        check("hoisted only when the values the setup writes are defined in front of the scf.if (available inside its branches)", sh["val"] == "before_if")
        check("hoisted only when the setup sits in the scf.if's own block (nested in a later op it runs conditionally; inside the branches it would run always)",
              sh["place"] == "same_block")
        ins = [e for e in ret if e[0] == "insert_op"]
        rep = [e for e in ret if e[0] == "replace_op"]
        check("one copy per branch, placed in front of that branch's yield; each yield replaced; the setup erased",
              len(ins) == 2 and len(rep) == 2 and len([e for e in ret if e[0] == "erase_op" and e[1] is op]) == 1 and len(ret) == 5)
        for k in range(2):
            y = v["yields"][k]
            mine = [e for e in ins if e[2].kind == "before" and e[2].anchor is y]
            check(f"branch {k}: a copy of the setup (same accelerator, fields and values) continues the state that branch yielded",
                  len(mine) == 1 and len(mine[0][1]) == 1 and isinstance(mine[0][1][0], accfg.SetupOp) and mine[0][1][0].in_state is v["states"][k]
                  and mine[0][1][0].accelerator == op.accelerator and mine[0][1][0].param_names == op.param_names
                  and len(mine[0][1][0].values) == 1 and mine[0][1][0].values[0] is v["used"])
            ry = [e for e in rep if e[1] is y]
            check(f"branch {k}: the yield now passes on the state after the copy",
                  len(ry) == 1 and len(ry[0][2]) == 1 and isinstance(ry[0][2][0], scf.YieldOp) and len(mine) == 1 and ry[0][2][0].operands[0] is mine[0][1][0].out_state)
        check("users of the erased setup's state now see the scf.if's result", op.out_state.replaced is not None and op.out_state.replaced[0] is v["r"])

    def canary(sh, a, ret):
        check("canary: never hoisted", len(ret) == 0)
