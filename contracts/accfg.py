"""Contracts for snaxc/inference/{trace_acc_state,helpers}.py and snaxc/transforms/accfg_dedup.py (C07, C01, C04-rocc).

State = Field -> SSA value.  Per shape the field universe is FIELDS (the conditions are pointwise in the field,
so a small universe exercises every case); which fields a state contains and which SSA values they hold
(identity tags) are SYMBOLIC."""
from pyvc.api import SYMBOLIC, check, contract, implies, mk_ident_value
from xdsl.dialects import scf
from xdsl.dialects.builtin import IndexType
from xdsl.ir import Block, Region

from snaxc.dialects import accfg
from snaxc.inference import helpers, trace_acc_state

FIELDS = ("A", "B")
G = {}


def mk_state(sym, pfx, fields=FIELDS):
    d = {}
    for f in fields:
        if sym.bool(f"{pfx}_has_{f}"):
            d[f] = mk_ident_value(sym.int(f"{pfx}_{f}", 0, 3))
    return d


def submap(x, y):
    """x is a sub-map of y: every binding of x is a binding of y"""
    return all(k in y and x[k] == y[k] for k in x)


@contract
class state_intersection_contract:
    target = "snaxc.inference.trace_acc_state.state_intersection"
    shapes = [dict(nf=n) for n in (1, 2, 3)]
    quick = lambda sh: sh["nf"] <= 2
    total = True
    compare_ret = False

    def args(sh, sym):
        fs = ("A", "B", "C")[: sh["nf"]]
        return [mk_state(sym, "a", fs), mk_state(sym, "b", fs)]

    def ensures(sh, a, ret):
        x, y = a
        for f in ("A", "B", "C")[: sh["nf"]]:
            both = f in x and f in y and x[f] == y[f]
            check(f"field {f}: kept exactly when both sides know it with the same value (never from one side only)", (f in ret) == both)
            if f in ret and f in x:
                check(f"field {f}: the kept value is that value", ret[f] == x[f])
        check("no other keys", all(k in x for k in ret))

    def canary(sh, a, ret):
        check("canary: intersection equals the first state", len(ret) == len(a[0]))


# ---------------------------------------------------------------------------------------------------
# infer_state_of: local soundness conditions of the must-analysis (recursive calls = the function's own contract)
# ---------------------------------------------------------------------------------------------------
def infer_rec(local):
    """INFER(v) for the values the case refers to: an arbitrary (symbolic) state fixed in args(); a COPY is
    returned because callers update the result in place"""
    v = local["state_var"]
    for val, st in G["infer"]:
        if val is v:
            return dict(st)
    raise AssertionError("infer_state_of called on a value outside the view")


def state_val():
    v = mk_ident_value(len(G["infer"]) + 100)
    return v


def with_state(sym, pfx):
    v = state_val()
    G["infer"].append((v, mk_state(sym, pfx)))
    return v


def params_of(sym, n):
    names = [("A", "B", "A")[k] if False else sym_name(sym, k) for k in range(n)]
    return names


def sym_name(sym, k):
    # a parameter name from the universe, chosen symbolically (so duplicated names are covered)
    return "A" if sym.bool(f"p{k}_isA") else "B"


INFER_SHAPES = ([dict(kind="setup_noin", nparams=n) for n in (0, 1, 2)] + [dict(kind="setup_in", nparams=n) for n in (0, 1, 2)]
                + [dict(kind=k, nparams=0) for k in ("if_result", "for_result", "for_blockarg", "other_blockarg")])


@contract
class infer_state_of_contract:
    """whatever is inferred for a state-typed value is a SUBSET of what holds on every execution reaching it"""
    target = "snaxc.inference.trace_acc_state.infer_state_of"
    shapes = INFER_SHAPES
    native = False
    total = True
    modular = {"snaxc.inference.trace_acc_state.infer_state_of": infer_rec}

    def args(sh, sym):
        G["infer"] = []
        kind = sh["kind"]
        if kind in ("setup_noin", "setup_in"):
            names = [sym_name(sym, k) for k in range(sh["nparams"])]
            vals = [mk_ident_value(sym.int(f"v{k}", 0, 3)) for k in range(sh["nparams"])]
            ins = with_state(sym, "in") if kind == "setup_in" else None
            op = accfg.SetupOp(vals, names, "acc", ins)
            G["case"] = dict(names=names, vals=vals, ins=ins)
            return [op.out_state]
        if kind == "if_result":
            ty, ey = with_state(sym, "then"), with_state(sym, "else")
            other = mk_ident_value(50)
            op = scf.IfOp(mk_ident_value(51), [None, None], Region([Block([scf.YieldOp(other, ty)])]), Region([Block([scf.YieldOp(other, ey)])]))
            G["case"] = dict(ty=ty, ey=ey)
            return [op.results[1]]
        if kind in ("for_result", "for_blockarg"):
            init, yv = with_state(sym, "init"), with_state(sym, "yield")
            other = mk_ident_value(50)
            blk = Block(arg_types=[IndexType(), None, None])
            blk.add_op(scf.YieldOp(other, yv))
            op = scf.ForOp(mk_ident_value(52), mk_ident_value(53), mk_ident_value(54), [other, init], Region([blk]))
            blk.parent = op  # parent_op() of the body block (the region level is not modelled)
            G["case"] = dict(init=init, yv=yv)
            return [op.results[1] if kind == "for_result" else blk.args[2]]
        blk = Block(arg_types=[None])
        blk.parent = None
        G["case"] = {}
        return [blk.args[0]]

    def ensures(sh, a, ret):
        kind = sh["kind"]
        c = G["case"]
        table = G["infer"]

        def INFER(v):
            for val, st in table:
                if val is v:
                    return st
            return None

        if kind in ("setup_noin", "setup_in"):
            truth = dict(INFER(c["ins"])) if kind == "setup_in" else {}
            for n, v in zip(c["names"], c["vals"]):
                truth[n] = v  # a later write of the same field overrides an earlier one
            check("setup: inferred state is a sub-map of (incoming state overridden by the written fields)", submap(ret, truth))
            check("setup: every written field is known afterwards (precision)", all(n in ret for n in c["names"]))
        elif kind == "if_result":
            t, e = INFER(c["ty"]), INFER(c["ey"])
            check("if: inferred state holds on the then path", submap(ret, t))
            check("if: inferred state holds on the else path", submap(ret, e))
        elif kind == "for_result":
            check("loop result: holds when the loop ran (state yielded by the last iteration)", submap(ret, INFER(c["yv"])))
            check("loop result: holds when the loop ran zero times (the initial state)", submap(ret, INFER(c["init"])))
        elif kind == "for_blockarg":
            check("loop head: holds on the first iteration (the initial state)", submap(ret, INFER(c["init"])))
            check("loop head: holds on every later iteration (the state yielded by the previous one)", submap(ret, INFER(c["yv"])))
        else:
            check("unknown block argument: nothing is assumed", len(ret) == 0)

    def canary(sh, a, ret):
        check("canary: nothing is ever inferred", len(ret) == 0 and sh["kind"] != "other_blockarg")


@contract
class calc_if_state_delta_contract:
    """which accelerator states an scf.if must yield: exactly those present on BOTH sides that are new or changed;
    a state dropped on one side is not carried; the two branch dicts lose exactly the keys of the old state"""
    target = "snaxc.inference.helpers.calc_if_state_delta"
    shapes = [dict(nf=n) for n in (1, 2)]
    total = True
    compare_ret = False

    def args(sh, sym):
        fs = ("A", "B")[: sh["nf"]]
        old, t, e = mk_state(sym, "old", fs), mk_state(sym, "then", fs), mk_state(sym, "else", fs)
        return [old, t, e, dict(t), dict(e)]

    def run(sh, a):
        return helpers.calc_if_state_delta(a[0], a[1], a[2])

    def ensures(sh, a, ret):
        old, t_after, e_after, t0, e0 = a
        for f in ("A", "B")[: sh["nf"]]:
            both = f in t0 and f in e0
            changed = both and (f not in old or not (t0[f] == old[f] and e0[f] == old[f]))
            check(f"{f}: yielded exactly when both branches have it and it is new or changed on a side", (f in ret) == changed)
            if f in ret and f in t0 and f in e0:
                check(f"{f}: the pair is (then value, else value)", ret[f][0] == t0[f] and ret[f][1] == e0[f])
            check(f"{f}: frame - branch dicts lose exactly the keys of the old state",
                  (f in t_after) == (f in t0 and f not in old) and (f in e_after) == (f in e0 and f not in old))
        check("no other keys", all(k in t0 and k in e0 for k in ret))

    def canary(sh, a, ret):
        check("canary: nothing is ever yielded", len(ret) == 0)


# ---------------------------------------------------------------------------------------------------
# has_accfg_effects: structural recursion over the op tree
# ---------------------------------------------------------------------------------------------------
from xdsl.ir import Operation  # noqa: E402


class TreeOp(Operation):
    """view of an arbitrary op: attribute dict, class tag (is it a call), children"""

    def __init__(self, attrs, children):
        self._init_op([], [], [])
        self.attributes = attrs
        blk = Block(children)
        self.regions = [Region([blk])] if len(children) > 0 else []


class FuncCallView(TreeOp):
    __opaque_bases__ = ("func.CallOp",)


class LlvmCallView(TreeOp):
    __opaque_bases__ = ("llvm.CallOp",)


def effects_rec(local):
    op = local["op"]
    for o, r in G["fx"]:
        if o is op:
            return r
    raise AssertionError("has_accfg_effects called on an op outside the view")


@contract
class has_accfg_effects_contract:
    """an op has effects iff its explicit attribute says so, else iff it is a call, else iff some nested op has
    (recursive calls through the function's own contract: arbitrary answers for the children)"""
    target = "snaxc.inference.helpers.has_accfg_effects"
    shapes = [dict(attr=a, call=c, nchildren=n) for a in ("none_attr", "effects_none", "effects_all", "other_attr") for c in ("no", "func", "llvm") for n in (0, 1, 2)]
    native = False
    total = True
    modular = {"snaxc.inference.helpers.has_accfg_effects": effects_rec}
    permissive = True

    def args(sh, sym):
        from xdsl.dialects import func, llvm
        G["fx"] = []
        children = []
        for k in range(sh["nchildren"]):
            c = TreeOp({}, [])
            G["fx"].append((c, sym.bool(f"child{k}_effects")))
            children.append(c)
        attrs = {}
        if sh["attr"] == "effects_none":
            attrs["accfg.effects"] = accfg.EffectsAttr(accfg.EffectsEnum.NONE)
        elif sh["attr"] == "effects_all":
            attrs["accfg.effects"] = accfg.EffectsAttr(accfg.EffectsEnum.FULL)
        elif sh["attr"] == "other_attr":
            attrs["accfg.effects"] = mk_ident_value(7)
        cls = dict(no=TreeOp, func=FuncCallView, llvm=LlvmCallView)[sh["call"]]
        op = cls(attrs, children)
        G["case"] = dict(children=[r for _, r in G["fx"]])
        return [op]

    def ensures(sh, a, ret):
        kids = G["case"]["children"]
        if sh["attr"] == "effects_none":
            check("explicit 'none' annotation: no effects, whatever the op is", ret == False)  # noqa: E712
        elif sh["attr"] == "effects_all":
            check("explicit 'all' annotation: effects", ret == True)  # noqa: E712
        elif sh["call"] != "no":
            check("an unannotated call has effects", ret == True)  # noqa: E712
        else:
            check("otherwise: effects iff some nested op has effects", ret == any(kids))

    def canary(sh, a, ret):
        check("canary: nothing has effects", ret == False)  # noqa: E712
