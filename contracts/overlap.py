"""Contracts for C06: setup/compute overlap (accfg-config-overlap) keeps every launch's configuration.

Both rewrite patterns and the dependency closure they rely on are executed as a whole on views of a block / an scf.for
body.  Setup values are computed by chains of (stub) arith ops whose DENOTATIONS are symbolic terms over the loop
index, the loop-carried values and outer values, so "the copy computes the value of the iteration it will be used in"
is an equation between terms for ALL values of these, all lower bounds and steps:

    prologue copy :  value  ==  original value [ i := lb,       carried := initial values ]
    epilogue copy :  value  ==  original value [ i := i + step, carried := values yielded by this iteration ]

(paper lemma, induction over iterations: the launch of iteration k then observes exactly the registers the original
setup of iteration k would have written)."""
from pyvc.api import check, contract, den, mk_opresult, subst
from xdsl.dialects import arith, scf
from xdsl.dialects.builtin import IndexType
from xdsl.ir import Block, Operation, Region, Use
from xdsl.pattern_rewriter import PatternRewriter

import snaxc.transforms.accfg_config_overlap as ov
from snaxc.dialects import accfg
from snaxc.inference import scoped_setups


class BodyOp(Operation):
    """an op of the body with a ghost purity flag (xdsl.traits.is_side_effect_free is modelled by `pure`)"""

    def __init__(self, operands=(), n_results=0, pure=False, dens=None):
        self._init_op(list(operands), list(dens) if dens is not None else [None for _ in range(n_results)], [IndexType() for _ in range(n_results)])
        self.pure = pure


def use_all(ops):
    """fill the use-lists of the operands of the given ops (views are built without a rewriter)"""
    for o in ops:
        k = 0
        for v in o.operands:
            v.uses.append(Use(o, k))
            k += 1


def idx(v):
    v.type = IndexType()
    return v


# ------------------------------------------------------------------------------------------------------------------
# value chains of the setup inside the loop body: name -> builder(i, p, outer, c) returning (ops, [values])
# ------------------------------------------------------------------------------------------------------------------

def chain_direct(i, p, outer, c):
    return [], [i, p]


def chain_affine(i, p, outer, c):
    k = arith.ConstantOp.from_int_and_width(c, IndexType())
    v = arith.MuliOp(i, k)
    w = arith.AddiOp(v, p)
    return [k, v, w], [w.results[0], outer]


def chain_shared(i, p, outer, c):
    # one intermediate used twice, one value not depending on the loop at all
    k = arith.ConstantOp.from_int_and_width(c, IndexType())
    v = arith.AddiOp(i, outer)
    w = arith.MuliOp(v, v)
    x = arith.SubiOp(w, p)
    return [k, v, w, x], [x.results[0], v.results[0], k.results[0]]


def chain_carried_only(i, p, outer, c):
    v = arith.AddiOp(p, p)
    return [v], [v.results[0]]


CHAINS = dict(direct=chain_direct, affine=chain_affine, shared=chain_shared, carried_only=chain_carried_only)

LOOP_SHAPES = ([dict(chain=ch, extra=ex, variant="ok") for ch in ("direct", "affine", "shared", "carried_only") for ex in ("none", "second_setup")]
               + [dict(chain="affine", extra="none", variant=v) for v in ("impure_input", "launch_before", "launch_amid_inputs", "nested_launch_before", "nested2_launch_before", "nested3_launch_before", "no_launch", "launch_in_nested", "not_loop_carried", "no_in_state")])


def build_loop(sh, sym):
    """scf.for %i = lb to ub step st iter_args(%l0 = s0, %p = p0) { <chain>; %l1 = setup from %l0; launch; await; %pn = %p + d; yield %l1', %pn }"""
    lb, ub, st, p0, outer_v, c, d = (sym.int(n) for n in ("lb", "ub", "step", "p0", "outer", "c", "d"))
    I, P = sym.int("I"), sym.int("P")
    lbv, ubv, stv, p0v, outer = idx(mk_opresult(lb)), idx(mk_opresult(ub)), idx(mk_opresult(st)), idx(mk_opresult(p0)), idx(mk_opresult(outer_v))
    s0 = accfg.SetupOp([], [], "acc")
    body = Block([], [IndexType(), accfg.StateType("acc"), IndexType()])
    i, l0, p = body.args
    i.den, l0.den, p.den = I, None, P
    ops, vals = CHAINS[sh["chain"]](i, p, outer, c)
    variant = sh["variant"]
    if variant == "impure_input":
        imp = BodyOp([i], 1, False, [sym.int("imp")])
        ops = ops + [imp]
        vals = vals + [imp.results[0]]
    pre = []
    if variant == "launch_before":
        pre = [accfg.LaunchOp([], [], l0)]
    if variant == "launch_amid_inputs":
        # a launch on the loop-carried state BETWEEN an early-computed operand of the setup and the setup itself
        ops = ops[:2] + [accfg.LaunchOp([], [], l0)] + ops[2:]
    extra_uses = []
    if variant == "nested_launch_before":
        # a launch on the loop-carried state, guarded by a region op (e.g. scf.if), in front of the setup
        guarded = accfg.LaunchOp([], [], l0)
        wrap0 = BodyOp([], 0, False)
        r0 = Region([Block([guarded])])
        r0.parent = wrap0
        wrap0.regions = [r0]
        pre = [wrap0]
        extra_uses = [guarded]
    if variant in ("nested2_launch_before", "nested3_launch_before"):
        # the same, two resp. three region levels deep (scf.if in scf.if, scf.if in an inner scf.for, ...)
        guarded = accfg.LaunchOp([], [], l0)
        node = guarded
        for _ in range(2 if variant == "nested2_launch_before" else 3):
            w = BodyOp([], 0, False)
            r = Region([Block([node])])
            r.parent = w
            w.regions = [r]
            node = w
        pre = [node]
        extra_uses = [guarded]
    in_state = l0
    if variant == "not_loop_carried":
        other = accfg.SetupOp([], [], "acc", l0)
        pre = [other]
        in_state = other.out_state
    if variant == "no_in_state":
        in_state = None
    setup = accfg.SetupOp(vals, [f"f{k}" for k in range(len(vals))], "acc", in_state)
    rest = []
    last_state = setup.out_state
    if variant == "launch_in_nested":
        inner_launch = accfg.LaunchOp([], [], setup.out_state)
        wrap = BodyOp([], 0, False)
        r = Region([Block([inner_launch])])
        r.parent = wrap
        wrap.regions = [r]
        rest = [wrap]
        launches = [inner_launch]
    elif variant == "no_launch":
        launches = []
    else:
        launch = accfg.LaunchOp([], [], setup.out_state)
        rest = [launch, accfg.AwaitOp(launch)]
        launches = [launch]
    if sh["extra"] == "second_setup":
        s2 = accfg.SetupOp([i], ["g"], "acc", setup.out_state)
        l2 = accfg.LaunchOp([], [], s2.out_state)
        rest = rest + [s2, l2, accfg.AwaitOp(l2)]
        last_state = s2.out_state
        launches.append(l2)
    dk = arith.ConstantOp.from_int_and_width(d, IndexType())
    pn = arith.AddiOp(p, dk)
    y = scf.YieldOp(last_state, pn.results[0])
    all_ops = pre + ops + [setup] + rest + [dk, pn, y]
    for o in all_ops:
        body.add_op(o)
    loop = scf.ForOp(lbv, ubv, stv, [s0.out_state, p0v], body)
    top = Block([s0, loop])
    Region([top])
    use_all([s0, loop] + all_ops + [l for l in launches if not any(l is o for o in all_ops)] + extra_uses)  # (a launch nested in a region op is a use as well)
    return dict(loop=loop, setup=setup, s0=s0, body=body, ops=ops, vals=vals, launches=launches, y=y, pn=pn,
                sym=dict(lb=lb, st=st, p0=p0, I=I, P=P, d=d), lbv=lbv, p0v=p0v, all_ops=all_ops)


def pure_rule(local):
    op = local["op"]
    if isinstance(op, (arith.ConstantOp, arith.AddiOp, arith.MuliOp, arith.SubiOp)):
        return True
    return getattr(op, "pure", False)


@contract
class LoopLevelSetupAwaitOverlap_contract:
    """the first setup of a loop body is replaced by a copy before the loop (computing the values of the FIRST iteration)
    and a copy at the end of the body (computing the values of the NEXT iteration); launches and awaits are untouched;
    no copied computation uses a value that is not available where it is inserted"""
    target = "snaxc.transforms.accfg_config_overlap.LoopLevelSetupAwaitOverlapPattern.match_and_rewrite"
    shapes = LOOP_SHAPES
    native = False
    total = True
    permissive = True
    compare_ret = False
    modular = {"xdsl.traits.is_side_effect_free": pure_rule}

    def args(sh, sym):
        return [build_loop(sh, sym)]

    def run(sh, a):
        v = a[0]
        rw = PatternRewriter(v["setup"])
        ov.LoopLevelSetupAwaitOverlapPattern().match_and_rewrite(v["setup"], rw)
        return rw.log

    def ensures(sh, a, ret):
        v = a[0]
        loop, setup, body, y = v["loop"], v["setup"], v["body"], v["y"]
        S = v["sym"]
        if sh["variant"] != "ok":
            check("loops the pattern cannot handle are left untouched (impure input, launch before the setup, no launch in this block, state not loop-carried)",
                  len(ret) == 0 and loop.operands[3] is v["s0"].out_state and y.operands[0] is (setup.out_state if sh["extra"] == "none" else y.operands[0]))
            return
        ins = [e for e in ret if e[0] == "insert_op"]
        before = [e for e in ins if e[2].kind == "before" and e[2].anchor is loop]
        at_end = [e for e in ins if e[2].kind == "before" and e[2].anchor is y]
        check("exactly: one insertion before the loop, insertions before the yield, the original setup erased",
              len(before) == 1 and len(at_end) >= 1 and len(ins) == len(before) + len(at_end)
              and [e for e in ret if e[0] == "erase_op"] == [("erase_op", setup)] or ([e[1] for e in ret if e[0] == "erase_op"] == [setup]))
        check("nothing else is rewritten (launches and awaits stay where they are, in number and order)",
              all(e[0] in ("insert_op", "erase_op") for e in ret) and all(not isinstance(o, (accfg.LaunchOp, accfg.AwaitOp)) for e in ins for o in e[1]))
        pro_ops = before[0][1]
        pro = pro_ops[-1]
        check("the op before the loop is a setup of the same accelerator and fields, chained on the loop's initial state",
              isinstance(pro, accfg.SetupOp) and pro.accelerator == setup.accelerator and pro.param_names == setup.param_names
              and pro.in_state is v["s0"].out_state and len(pro.values) == len(setup.values))
        check("the loop now starts from the state after that setup", loop.operands[3] is pro.out_state and loop.operands[4] is v["p0v"])
        first = [(S["I"], S["lb"]), (S["P"], S["p0"])]
        for k in range(len(setup.values)):
            check(f"prologue value {k} == original value of the first iteration (i = lb, carried values = initial values)",
                  den(pro.values[k]) == subst(den(setup.values[k]), first))
        body_vals = [r for o in v["all_ops"] for r in o.results] + list(body.args)
        pro_defined = [r for o in pro_ops for r in o.results]
        check("no op inserted before the loop uses a value defined inside the loop",
              all(not any(x is b for b in body_vals) for o in pro_ops for x in o.operands))
        check("ops inserted before the loop only use earlier ones of that insertion (or outer values)",
              all(not any(x is r for r in [q for o2 in pro_ops[j:] for q in o2.results]) for j in range(len(pro_ops)) for x in pro_ops[j].operands))
        end_ops = [o for e in at_end for o in e[1]]
        epi = end_ops[-1]
        nexts = [o for o in end_ops if isinstance(o, arith.AddiOp) and o.operands[0] is body.args[0] and o.operands[1] is loop.step]
        check("the next index is recomputed as i + step at the end of the body", len(nexts) >= 1 and den(nexts[0]) == S["I"] + S["st"])
        check("the last op before the yield is a setup of the same accelerator and fields", isinstance(epi, accfg.SetupOp) and epi.accelerator == setup.accelerator
              and epi.param_names == setup.param_names and len(epi.values) == len(setup.values))
        nxt = [(S["I"], S["I"] + S["st"]), (S["P"], den(v["pn"]))]
        for k in range(len(setup.values)):
            check(f"epilogue value {k} == original value of the NEXT iteration (i + step, carried values = the values this iteration yields)",
                  den(epi.values[k]) == subst(den(setup.values[k]), nxt))
        # state threading: the epilogue setup continues from the state at the end of the body, the yield passes its result on
        old_last = setup.out_state if sh["extra"] == "none" else None
        if sh["extra"] == "none":
            check("the epilogue setup is chained on the body's state: the erased setup's result, whose users now see the loop-carried state",
                  epi.in_state is setup.out_state and setup.out_state.replaced is not None and setup.out_state.replaced[0] is body.args[1])
        else:
            check("the epilogue setup is chained on the state at the end of the body (after the second setup)",
                  isinstance(epi.in_state.owner, accfg.SetupOp) and epi.in_state.owner is not setup and epi.in_state.owner.in_state is setup.out_state
                  and setup.out_state.replaced is not None and setup.out_state.replaced[0] is body.args[1])
        check("the yield passes on the state after the epilogue setup and the other carried values unchanged", y.operands[0] is epi.out_state and y.operands[1] is v["pn"].results[0])
        defined_before_yield = body_vals + [r for o in end_ops for r in o.results]
        check("ops inserted before the yield only use values defined in the body, earlier insertions, or outer values",
              all(not any(x is r for r in [q for o2 in end_ops[j:] for q in o2.results]) for j in range(len(end_ops)) for x in end_ops[j].operands))

    def canary(sh, a, ret):
        check("canary: the loop pattern never fires", len(ret) == 0 and sh["variant"] == "ok")


# ------------------------------------------------------------------------------------------------------------------
# block level: the setup (with the pure ops computing its values) moves up right behind the previous launch
# ------------------------------------------------------------------------------------------------------------------
BLOCK_SHAPES = ([dict(between=b, variant="ok") for b in ("await", "await_other", "input_between", "inputs_mixed")]
                + [dict(between="await", variant=v) for v in ("third_use", "other_block", "adjacent", "impure_input", "no_launch")])


def build_block(sh, sym):
    """%s = setup; %t = launch %s; <between>; %n = setup from %s(values)"""
    a_v, b_v = sym.int("a"), sym.int("b")
    av, bv = idx(mk_opresult(a_v)), idx(mk_opresult(b_v))
    s = accfg.SetupOp([], [], "acc")
    launch = accfg.LaunchOp([], [], s.out_state)
    aw = accfg.AwaitOp(launch)
    other = BodyOp([], 1, False, [sym.int("o")])
    v1 = arith.AddiOp(av, bv)
    v2 = arith.MuliOp(v1, av)
    between = {"await": [aw], "await_other": [aw, other], "input_between": [v1, aw], "inputs_mixed": [v1, aw, other, v2]}[sh["between"]]
    early = [o for o in (v1, v2) if not any(o is x for x in between)]
    vals = [v2.results[0], v1.results[0]]
    variant = sh["variant"]
    if variant == "impure_input":
        imp = BodyOp([av], 1, False, [sym.int("imp")])
        between = between + [imp]
        vals = vals + [imp.results[0]]
    nxt = accfg.SetupOp(vals, [f"f{k}" for k in range(len(vals))], "acc", s.out_state)
    tail = []
    if variant == "third_use":
        tail = [accfg.LaunchOp([], [], s.out_state)]
    if variant == "adjacent":
        between = []
        early = [v1, v2]
    if variant == "no_launch":
        ops = [s] + early + [o for o in between if o is not aw] + [nxt]
        launch = None
    elif variant == "other_block":
        wrap = BodyOp([], 0, False)
        r = Region([Block([launch, aw])])
        r.parent = wrap
        wrap.regions = [r]
        ops = [s] + early + [wrap] + [o for o in between if o is not aw] + [nxt]
    else:
        ops = [s] + early + [launch] + between + [nxt] + tail
    blk = Block(ops)
    Region([blk])
    use_all(ops + ([launch, aw] if variant == "other_block" else []))
    return dict(block=blk, s=s, launch=launch, nxt=nxt, between=between, inputs=[v1, v2], ops=ops, aw=aw, other=other)


@contract
class BlockLevelSetupAwaitOverlap_contract:
    """the setup and exactly the pure ops computing its values that sit below the launch are moved right behind the
    launch, in their original order; nothing else moves; never when the state has another user"""
    target = "snaxc.transforms.accfg_config_overlap.BlockLevelSetupAwaitOverlapPattern.match_and_rewrite"
    shapes = BLOCK_SHAPES
    native = False
    total = True
    permissive = True
    compare_ret = False
    modular = {"xdsl.traits.is_side_effect_free": pure_rule}

    def args(sh, sym):
        return [build_block(sh, sym)]

    def run(sh, a):
        v = a[0]
        rw = PatternRewriter(v["nxt"])
        ov.BlockLevelSetupAwaitOverlapPattern().match_and_rewrite(v["nxt"], rw)
        return rw.log

    def ensures(sh, a, ret):
        v = a[0]
        if sh["variant"] != "ok":
            check("nothing moves when the state has a third user, the launch is in another block, the two are already adjacent, an input is impure or there is no launch",
                  len(ret) == 0 and all(not getattr(o, "detached", False) for o in v["ops"]))
            return
        moved = [o for e in ret if e[0] == "insert_op" for o in e[1]]
        check("only insertions, all right behind the launch", all(e[0] == "insert_op" and ((e[2].kind == "after" and e[2].anchor is v["launch"]) or (e[2].kind == "before" and e[2].anchor is v["between"][0])) for e in ret))
        expected = [o for o in v["between"] if any(o is x for x in v["inputs"])] + [v["nxt"]]
        # (the pattern may also decide to move nothing, e.g. when the op right behind the launch already is one of the inputs)
        sub = [o for o in expected if any(o is m for m in moved)]
        check("only the setup and the computations of its values that sit below the launch move, in their original order",
              len(sub) == len(moved) and all(moved[k] is sub[k] for k in range(len(moved))))
        check("if anything moves, the setup moves (last)", len(moved) == 0 or moved[-1] is v["nxt"])
        check("every moved op was detached first", all(getattr(o, "detached", False) for o in moved))
        check("the await, other ops and the launch itself stay in place", all(not getattr(o, "detached", False) for o in v["ops"] if not any(o is x for x in moved)))
        # availability: everything a moved op uses is defined above the launch or moved before it
        pos = {}
        k = 0
        for o in v["ops"]:
            pos[id(o)] = k
            k += 1
        lpos = pos[id(v["launch"])]
        ok = True
        for j in range(len(moved)):
            for x in moved[j].operands:
                if isinstance(x.owner, Operation) and id(x.owner) in pos:
                    if pos[id(x.owner)] > lpos and not any(x.owner is m for m in moved[:j]):
                        ok = False
        check("no moved op uses a value that is not available right behind the launch", ok)

    def canary(sh, a, ret):
        check("canary: the block pattern never moves anything", len(ret) == 0 and sh["variant"] == "ok")


# ------------------------------------------------------------------------------------------------------------------
# get_scoped_setup_inputs: the dependency closure
# ------------------------------------------------------------------------------------------------------------------
@contract
class get_scoped_setup_inputs_contract:
    """the closure holds exactly the ops of the block that the setup's values depend on (transitively), in block order,
    all of them side-effect free; None as soon as an op with effects is in the dependency cone"""
    target = "snaxc.inference.scoped_setups.get_scoped_setup_inputs"
    shapes = [dict(chain=ch, impure=imp) for ch in ("direct", "affine", "shared", "carried_only") for imp in (False, True)]
    native = False
    total = True
    permissive = True
    compare_ret = False
    modular = {"xdsl.traits.is_side_effect_free": pure_rule}

    def args(sh, sym):
        v = build_loop(dict(chain=sh["chain"], extra="none", variant="impure_input" if sh["impure"] else "ok"), sym)
        return [v["setup"], v["body"], v]

    def ensures(sh, a, ret):
        setup, body, v = a
        if sh["impure"]:
            check("an op with effects in the dependency cone makes the closure undefined", ret is None)
            return
        check("a closure is returned", ret is not None)
        # dependency cone computed independently: backwards over operands, restricted to ops of this block
        cone = []
        work = list(setup.values)
        while len(work) > 0:
            x = work.pop()
            o = x.owner
            if isinstance(o, Operation) and any(o is b for b in body.ops) and not any(o is c for c in cone):
                cone.append(o)
                work.extend(o.operands)
        got = list(ret.inputs)
        check("the closure is exactly the dependency cone of the setup's values inside the block",
              len(got) == len(cone) and all(any(g is c for c in cone) for g in got))
        order = [o for o in body.ops if any(o is g for g in got)]
        check("in block order (definitions before uses)", all(got[k] is order[k] for k in range(len(got))))
        check("the setup and the block arguments are recorded", ret.setup is setup and len(ret.dependent_vars) == len(body.args) and all(ret.dependent_vars[k] is body.args[k] for k in range(len(body.args))))

    def canary(sh, a, ret):
        check("canary: the closure is always empty", ret is not None and len(ret.inputs) == 0 and sh["chain"] != "direct")


# ------------------------------------------------------------------------------------------------------------------
# the cloning step both loop copies rely on: a SIMULTANEOUS substitution of the dependent values
# ------------------------------------------------------------------------------------------------------------------
NEW_KINDS = ("fresh", "swap", "shift", "keep_one", "rotate")


@contract
class copy_with_new_dependent_vals_contract:
    """the copy computes  value[ d_0 := n_0, ..., d_k := n_k ]  with all replacements made AT ONCE: a new value that is
    itself one of the old dependent values (loop-carried values passed on unchanged, swapped - ping-pong buffers - or
    rotated by the yield) is NOT replaced a second time; the original ops are left as they are"""
    target = "snaxc.inference.scoped_setups.ScopedSetupWithInputs.copy_with_new_dependent_vals"
    shapes = [dict(new=k) for k in NEW_KINDS]
    native = False
    total = True
    permissive = True
    compare_ret = False

    def args(sh, sym):
        D = [sym.int(f"D{k}") for k in range(3)]
        N = [sym.int(f"N{k}") for k in range(3)]
        body = Block([], [IndexType(), IndexType(), IndexType()])
        d = list(body.args)
        for k in range(3):
            d[k].den = D[k]
        fresh = [idx(mk_opresult(N[k])) for k in range(3)]
        ext = idx(mk_opresult(sym.int("ext")))
        new = dict(fresh=fresh, swap=[d[1], d[0], fresh[2]], shift=[d[1], d[2], fresh[0]], keep_one=[d[0], fresh[1], d[2]], rotate=[d[1], d[2], d[0]])[sh["new"]]
        a = arith.AddiOp(d[0], ext)
        m = arith.MuliOp(a.results[0], d[1])
        s = arith.SubiOp(m.results[0], d[2])
        inputs = [a, m, s]
        setup = accfg.SetupOp([s.results[0], d[0], d[1], ext, m.results[0]], ["f0", "f1", "f2", "f3", "f4"], "acc")
        for o in inputs + [setup]:
            body.add_op(o)
        scoped = scoped_setups.ScopedSetupWithInputs(setup, tuple(d), tuple(inputs))
        return [scoped, tuple(new), D, d, ext, inputs, setup]

    def ensures(sh, a, ret):
        scoped, new, D, d, ext, inputs, setup = a
        check("the copy records the new dependent values", len(ret.dependent_vars) == 3 and all(ret.dependent_vars[k] is new[k] for k in range(3)))
        check("one clone per input op, same kind, in the same order - new objects, not the originals",
              len(ret.inputs) == len(inputs) and all(type(ret.inputs[j]) is type(inputs[j]) and not any(ret.inputs[j] is o for o in inputs) for j in range(min(len(ret.inputs), len(inputs)))))
        check("the setup is cloned (same accelerator and fields), not reused", ret.setup is not setup and ret.setup.accelerator == setup.accelerator and ret.setup.param_names == setup.param_names)
        sigma = [(D[k], den(new[k])) for k in range(3)]
        for k in range(len(setup.values)):
            check(f"setup value {k} == original value [ d := n ] (simultaneous substitution)", den(ret.setup.values[k]) == subst(den(setup.values[k]), sigma))

        def image(x, upto):
            for k in range(3):
                if x is d[k]:
                    return new[k]
            for j in range(upto):
                if x is inputs[j].results[0]:
                    return ret.inputs[j].results[0]
            return x

        for j in range(min(len(ret.inputs), len(inputs))):
            check(f"clone {j}: every operand is the image of the original operand (new dependent value / earlier clone / same outer value)",
                  len(ret.inputs[j].operands) == len(inputs[j].operands) and all(ret.inputs[j].operands[k] is image(inputs[j].operands[k], j) for k in range(len(inputs[j].operands))))
        check("cloned setup: every value is the image of the original value",
              len(ret.setup.values) == len(setup.values) and all(ret.setup.values[k] is image(setup.values[k], len(inputs)) for k in range(len(setup.values))))
        check("frame: the original ops keep their operands", inputs[0].operands[0] is d[0] and inputs[0].operands[1] is ext and inputs[1].operands[1] is d[1]
              and inputs[2].operands[1] is d[2] and setup.values[1] is d[0] and setup.values[2] is d[1] and scoped.setup is setup)

    def canary(sh, a, ret):
        check("canary: the copy uses the old dependent values", ret.setup.values[1] is a[3][0] and sh["new"] != "keep_one")
