"""print load errors of an interpreted module: python tools/loaderr.py snaxc.ir.dart.access_pattern"""
import sys, os
sys.path.insert(0, os.path.dirname(os.path.dirname(os.path.abspath(__file__))))
from pyvc.ctx import Ctx
from pyvc.interp import Interp
from pyvc.stubs import install_stubs
I = Interp(Ctx()); install_stubs(I)
for name in sys.argv[1:]:
    m = I.load_module(name)
    print(name, "->", m.path, "errors:", m.globals.get("__load_errors__"))
for n, m in I.modules.items():
    if m.globals.get("__load_errors__"):
        print("  ", n, m.globals["__load_errors__"])
