"""debug helper: run one (contract, shape index) job in-process and print raises / undecided / errors.
usage: .venv/bin/python tools/dbg_job.py contracts.kernels RescaleClampPattern_contract 0"""
import sys, os, json
sys.path.insert(0, os.path.dirname(os.path.dirname(os.path.abspath(__file__))))
from pyvc import harness
mod, name, idx = sys.argv[1], sys.argv[2], int(sys.argv[3])
res = harness.run_job(mod, name, idx) if hasattr(harness, "run_job") else None
for k in ("raises", "errors", "undecided", "status"):
    if k in res:
        print(k, json.dumps(res[k], default=str)[:3000])
print({k: (v if not isinstance(v, (list, dict)) else len(v)) for k, v in res.items()})
