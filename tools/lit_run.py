import sys, os, io, contextlib, re
repo = sys.argv[1]
os.environ["PYVC_REPO"] = repo
sys.path.insert(0, "/verif")
import pyvc.shim
from snaxc.tools.snax_opt_main import SNAXOptMain
for f in sys.argv[2:]:
    run = [l for l in open(f) if l.startswith("// RUN:")]
    for r in run:
        m = re.search(r"snax-opt (.*?)(\||$)", r)
        if not m:
            continue
        args = m.group(1).replace("%s", f).split()
        out = io.StringIO()
        with contextlib.redirect_stdout(out), contextlib.redirect_stderr(io.StringIO()):
            try:
                SNAXOptMain(args=args).run()
            except SystemExit:
                pass
            except BaseException as e:
                print("EXC", type(e).__name__, str(e)[:100])
        print("###", os.path.basename(f), " ".join(args)[:80])
        print(out.getvalue())
