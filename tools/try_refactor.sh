#!/bin/sh
# usage: tools/try_refactor.sh <patch.diff> <prop> [<prop> ...]
# applies a behaviour-PRESERVING refactoring to a scratch copy of /repo (PYVC_REPO) and runs the quick checks:
# the expected outcome is exit 0 (a VIOLATION line would be a false alarm; exit 2/3 = the check could not follow the new code)
PATCH="$1"; shift
cd /verif
D=$(mktemp -d /tmp/pyvc-ref.XXXXXX)
mkdir -p "$D/repo"; cp -r /repo/snaxc /repo/util "$D/repo/"
( cd "$D/repo" && git init -q . 2>/dev/null; git apply --unsafe-paths "$PATCH" ) || { echo "[$PATCH] PATCH DOES NOT APPLY"; rm -rf "$D"; exit 9; }
for P in "$@"; do
  OUT=$(PYVC_REPO="$D/repo" ./check "$P" 2>&1); RC=$?
  echo "[$(basename $(dirname $PATCH)) vs $P] exit=$RC viol=$(echo "$OUT" | grep -c '^VIOLATION') :: $(echo "$OUT" | grep -m1 '^VIOLATION\|^CHECK-ERROR\|^UNDECIDED\|^OK' | cut -c1-260)"
done
rm -rf "$D"
