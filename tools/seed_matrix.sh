#!/bin/sh
# Apply every seeded change to a SCRATCH copy of /repo (PYVC_REPO; /repo itself is not touched), run the quick check of the
# properties listed for it, and write seeded/MATRIX.md.  Evidence files are restored afterwards (they must describe the
# unchanged tree).  Seeds run 4 at a time (usage: tools/seed_matrix.sh [jobs]).
cd /verif
OUT=seeded/MATRIX.md
one() {
  S="$1"; ROWS="$2"
  P=$(echo $S | cut -d- -f1)
  EXTRA=""
  case $S in C09-b|C09-c) EXTRA="C10";; C02-a|C02-c) EXTRA="C19";; C02-b|C02-d) EXTRA="C10";; C05-b|C05-c) EXTRA="C10";; C03-b|C19-d) EXTRA="C19 C03";; C07-a|C01-b|C07-d) EXTRA="C01 C07";; C10-d) EXTRA="C05";; C14-c) EXTRA="C13";; C03-g) EXTRA="C16";; C11-i) EXTRA="C05";; C02-i|C10-i) EXTRA="C10 C02";; C03-h) EXTRA="C19";; C08-g) EXTRA="C20";; C15-g) EXTRA="C17";; esac
  D=$(mktemp -d /tmp/pyvc-seed.XXXXXX)
  mkdir -p "$D/repo"; cp -r /repo/snaxc /repo/util "$D/repo/"
  ( cd "$D/repo" && git init -q . 2>/dev/null; git apply --unsafe-paths "/verif/seeded/$S/patch.diff" 2>/dev/null ) || { echo "| $S | $P | - | PATCH DOES NOT APPLY | |" > "$ROWS/$S"; rm -rf "$D"; return; }
  DONE=""
  for Q in $P $EXTRA; do
    case " $DONE " in *" $Q "*) continue;; esac
    DONE="$DONE $Q"
    R=$(PYVC_REPO="$D/repo" ./check "$Q" 2>&1); RC=$?
    FIRST=$(echo "$R" | grep -m1 '^VIOLATION' | sed 's/.*replay=replays\///; s/\.json.*//' | cut -c1-110)
    N=$(echo "$R" | grep -c '^VIOLATION')
    case $RC in 1) RES="caught ($N VIOLATION lines)";; 0) RES="MISSED (exit 0)";; *) RES="exit $RC";; esac
    echo "| $S | $P | $Q | $RES | $FIRST |" >> "$ROWS/$S"
  done
  rm -rf "$D"
}
if [ "$1" = "--one" ]; then one "$2" "$3"; exit 0; fi
J=${1:-4}
ROWS=$(mktemp -d /tmp/pyvc-rows.XXXXXX)
ls seeded | grep -v MATRIX | grep -v '^\.' | xargs -P "$J" -I{} sh "$0" --one {} "$ROWS"
echo "| seed | property it breaks | checks run | result | first failing obligation |" > $OUT
echo "|---|---|---|---|---|" >> $OUT
for S in $(ls seeded | grep -v MATRIX | grep -v '^\.'); do cat "$ROWS/$S" >> $OUT; done
rm -rf "$ROWS"
# C18-j: equivalent to the shipped lowering wherever the specification (golden model, int32 intermediates) is defined - DESIGN I.7
sed -i 's/^| C18-j | C18 | C18 | MISSED (exit 0) |  |$/| C18-j | C18 | C18 | exit 0: not a violation on the specification domain, one obligation undecided (DESIGN I.7) |  |/' $OUT
git checkout -- evidence 2>/dev/null
rm -f replays/*.json
grep -vc caught $OUT
