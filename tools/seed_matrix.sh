#!/bin/sh
# Apply every seeded change to /repo in turn, run the quick check of the properties listed for it, undo it, and write
# seeded/MATRIX.md.  Evidence files are restored afterwards (they must describe the unchanged tree).
cd /verif
OUT=seeded/MATRIX.md
echo "| seed | property it breaks | checks run | result | first failing obligation |" > $OUT
echo "|---|---|---|---|---|" >> $OUT
for S in $(ls seeded | grep -v MATRIX); do
  P=$(echo $S | cut -d- -f1)
  EXTRA=""
  case $S in C09-b) EXTRA="C10";; C02-a) EXTRA="C19";; C02-b) EXTRA="C10";; C05-b) EXTRA="C10";; C03-b) EXTRA="C19";; C07-a|C01-b) EXTRA="C01 C07";; esac
  git -C /repo apply "/verif/seeded/$S/patch.diff" || { echo "| $S | $P | - | PATCH DOES NOT APPLY | |" >> $OUT; continue; }
  for Q in $P $EXTRA; do
    [ "$Q" = "$P" ] || [ -n "$Q" ] || continue
    R=$(./check "$Q" 2>&1); RC=$?
    FIRST=$(echo "$R" | grep -m1 '^VIOLATION' | sed 's/.*replay=replays\///; s/\.json.*//' | cut -c1-110)
    N=$(echo "$R" | grep -c '^VIOLATION')
    case $RC in 1) RES="caught ($N VIOLATION lines)";; 0) RES="MISSED (exit 0)";; *) RES="exit $RC";; esac
    echo "| $S | $P | $Q | $RES | $FIRST |" >> $OUT
  done
  git -C /repo checkout -- .
done
git checkout -- evidence 2>/dev/null
rm -f replays/*.json
cat $OUT
