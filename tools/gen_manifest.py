#!/usr/bin/env python3
"""Generate MANIFEST.json from contracts/registry.py (claims) and contracts/manifest_meta.py (texts)."""
import json
import os
import sys

sys.path.insert(0, os.path.dirname(os.path.dirname(os.path.abspath(__file__))))
from contracts.manifest_meta import CLAIMS, NOT_APPLICABLE  # noqa: E402
from contracts.registry import PROPERTIES  # noqa: E402

BASELINE = "cd /repo && /venv/bin/python -m pytest -ra -q -p no:cacheprovider --timeout=900 --continue-on-collection-errors"

man = dict(
    version=1,
    setup_cmd="./setup.sh",
    hooks=dict(
        guard="SNAX_MLIR_VERIF",
        enable="no hooks are needed: the verifier reads /repo's source text (sidecar contracts in /verif/contracts); the variable is unused",
        baseline_off_cmd=BASELINE,
        source_commits=[],
        add_only=True,
    ),
    engines=[dict(name="pyvc", path="pyvc/", serves_properties=sorted(CLAIMS), kind_free_text="verification-condition generator: symbolic execution of the real Python AST of /repo (re-read every run) against sidecar contracts; obligations discharged by z3 5.1 with cvc5 fallback; counter-models replayed natively")],
    checks=[],
    notes="See DESIGN.md. Exit codes: 0 held / 1 violation / 3 checker error. Evidence is rewritten on every run.",
    not_applicable=[],
)
ids = ["C%02d" % i for i in range(1, 21)]
for pid in ids:
    if pid in CLAIMS and pid in PROPERTIES:
        c = CLAIMS[pid]
        man["checks"].append(dict(
            property_id=pid,
            quick_cmd=f"./check {pid} --tier quick",
            thorough_cmd=f"./check {pid} --tier thorough",
            evidence_file=f"evidence/{pid}.json",
            replay_cmd_template=f"./check {pid} --replay {{path}}",
            engine="pyvc",
            level_claimed=dict(category=PROPERTIES[pid].get("level", "proof"), text=c["text"], design_ref=c.get("design_ref", "DESIGN.md section 3")),
            level_note=c["note"],
            technique=c.get("technique", "contract-based deductive verification: VCs generated from the real Python AST, discharged by z3/cvc5"),
        ))
    else:
        man["not_applicable"].append(dict(property_id=pid, reason=NOT_APPLICABLE[pid]))
with open(os.path.join(os.path.dirname(os.path.dirname(os.path.abspath(__file__))), "MANIFEST.json"), "w") as f:
    json.dump(man, f, indent=1)
print("checks:", [c["property_id"] for c in man["checks"]])
