"""Rewrite the coverage table of DESIGN.md (between the COVTABLE markers) from evidence/*.json + contracts/registry.py."""
import json, os, re, sys
ROOT = os.path.dirname(os.path.dirname(os.path.abspath(__file__)))
sys.path.insert(0, ROOT)
from contracts.registry import PROPERTIES
LEVEL = {
    "C01": "per-shape, symbolic states", "C02": "per-shape, whole methods", "C03": "per-shape + **unbounded** scheduler",
    "C04": "per-configuration / per-shape", "C05": "per-shape, whole method", "C07": "per-shape, symbolic states + transfer functions",
    "C08": "per-configuration, all values", "C09": "**unbounded** + per-shape, whole method", "C10": "per-shape",
    "C11": "per-shape + **unbounded** allocator + assumed solver", "C12": "per-shape (token data flow) + narrow re-layout clause",
    "C13": "enumerated program shapes, all traces (placement clause only)", "C14": "per-shape, whole method",
    "C16": "**unbounded** scheduler + per-shape", "C17": "**unbounded** arithmetic", "C18": "per-shape, bit-vector, golden model",
    "C19": "per-shape", "C20": "per merge history, symbolic data (graph evaluation)", "C15": "**unbounded** trip count, per stage count (sequential clauses)", "C06": "per-shape, symbolic arithmetic (substitution equations)",
}
rows = ["| id | contracts (files) | obligations discharged | refuted = known findings | paths | wall | level |", "|---|---|---|---|---|---|---|"]
for pid in sorted(PROPERTIES):
    p = os.path.join(ROOT, "evidence", pid + ".json")
    if not os.path.exists(p):
        continue
    e = json.load(open(p))
    c = e["coverage"]
    spec = PROPERTIES[pid]
    files = sorted({m.split(".")[-1] + ".py" for m, _ in spec["contracts"]})
    nb = len(spec.get("bounded", []))
    kf = sorted({k["finding"].split("-")[0] for k in c.get("known_findings_hit", [])})
    rows.append("| %s | %d (%s)%s | %d | %d%s | %d | %d s | %s |" % (
        pid, len(spec["contracts"]), ", ".join("`%s`" % f for f in files), " + %d bounded" % nb if nb else "", c["discharged"],
        c.get("obligations_refuted_by_known_findings", 0), " (%s)" % ", ".join(kf) if kf else "", c.get("paths_explored", 0), round(e.get("wall_s", 0)), LEVEL.get(pid, "")))
na = [f"C{i:02d}" for i in range(1, 21) if f"C{i:02d}" not in PROPERTIES]
if na:
    rows.append("| %s | — | — | — | — | — | **not applicable** (Part II §4) |" % ", ".join(na))
d = open(os.path.join(ROOT, "DESIGN.md")).read()
a, b = d.index("<!-- COVTABLE -->"), d.index("<!-- /COVTABLE -->")
d = d[:a] + "<!-- COVTABLE -->\n" + "\n".join(rows) + "\n" + d[b:]
open(os.path.join(ROOT, "DESIGN.md"), "w").write(d)
print("\n".join(rows))
