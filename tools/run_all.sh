#!/bin/sh
# usage: tools/run_all.sh [quick|thorough]  -- every registered check, one line each
cd /verif
T=${1:-quick}
for P in C01 C02 C03 C04 C05 C06 C07 C08 C09 C10 C11 C12 C13 C14 C15 C16 C17 C18 C19 C20; do
  S=$(date +%s)
  OUT=$( (ulimit -v 10000000; timeout 7200 ./check $P --tier $T) 2>&1 ); RC=$?
  E=$(date +%s)
  echo "$P exit=$RC $((E-S))s viol=$(echo "$OUT" | grep -c '^VIOLATION') undec=$(echo "$OUT" | grep -c '^UNDECIDED') err=$(echo "$OUT" | grep -c '^CHECK-ERROR') known=$(echo "$OUT" | grep -c '^KNOWN-FINDING') :: $(echo "$OUT" | grep '^OK\|^FAIL' | cut -c1-150)"
  echo "$OUT" | grep '^VIOLATION\|^UNDECIDED\|^CHECK-ERROR' | cut -c1-260 | head -5
done
