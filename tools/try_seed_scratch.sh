#!/bin/sh
# usage: tools/try_seed_scratch.sh <seed name> <prop> [<prop> ...]  -- like try_seed.sh but on a scratch copy (PYVC_REPO): /repo is not touched
S="$1"; shift
cd /verif
D=$(mktemp -d /tmp/pyvc-seed.XXXXXX)
mkdir -p "$D/repo"; cp -r /repo/snaxc /repo/util "$D/repo/"
( cd "$D/repo" && git init -q . 2>/dev/null; git apply --unsafe-paths "/verif/seeded/$S/patch.diff" ) || { echo "[$S] PATCH DOES NOT APPLY"; rm -rf "$D"; exit 9; }
for P in "$@"; do
  OUT=$(PYVC_REPO="$D/repo" ./check "$P" $TIERARG 2>&1); RC=$?
  echo "[$S vs $P] exit=$RC $(echo "$OUT" | grep -c '^VIOLATION') violation line(s); first: $(echo "$OUT" | grep -m1 '^VIOLATION\|^CHECK-ERROR\|^UNDECIDED' | cut -c1-220)"
done
rm -rf "$D"
