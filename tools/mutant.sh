#!/bin/sh
# usage: tools/mutant.sh <file under snaxc/> <python-regex> <replacement> <prop> [--only X]
# copies /repo/snaxc to a scratch dir, applies ONE substitution, runs the check against it, removes the copy
set -e
F="$1"; PAT="$2"; REP="$3"; PROP="$4"; shift 4
D=$(mktemp -d /tmp/pyvc-mut.XXXXXX)
mkdir -p "$D/repo"; cp -r /repo/snaxc /repo/util "$D/repo/"
python3 - "$D/repo/snaxc/$F" "$PAT" "$REP" <<'PY'
import re, sys
p, pat, rep = sys.argv[1:4]
s = open(p).read()
n = len(re.findall(pat, s))
if n != 1:
    print(f"MUTANT-ERROR pattern matches {n} times"); sys.exit(9)
open(p, "w").write(re.sub(pat, rep, s, count=1))
PY
cd /verif
set +e
PYVC_REPO="$D/repo" ./check "$PROP" "$@" 2>&1 | cut -c1-300 | head -8
echo "exit=$?"
rm -rf "$D"
