#!/bin/sh
# usage: tools/confirm_seed.sh <worktree> <seed subdir> <target name under /verif/seeded>
# confirms: patch applies, baseline tests still pass with it, demo fails with and passes without; then stores it.
WT="$1"; SUB="$2"; NAME="$3"
cd "$WT" || exit 9
git checkout -q -- . 
git apply --check "$SUB/patch.diff" || { echo "patch does not apply"; exit 9; }
PYTHONPATH="$WT" timeout 600 /venv/bin/python "$SUB/demo.py" >/tmp/seed_demo_clean.log 2>&1; D0=$?
git apply "$SUB/patch.diff"
T=$(PYTHONPATH="$WT" /venv/bin/python -m pytest -q -p no:cacheprovider --continue-on-collection-errors 2>&1 | tail -1)
PYTHONPATH="$WT" timeout 600 /venv/bin/python "$SUB/demo.py" >/tmp/seed_demo_patched.log 2>&1; D1=$?
git checkout -q -- .
echo "$NAME: tests_with_patch='$T' demo_clean_exit=$D0 demo_patched_exit=$D1"
case "$T" in *"68 passed"*) ;; *) echo "REJECT: tests"; exit 1;; esac
[ "$D0" = 0 ] && [ "$D1" != 0 ] || { echo "REJECT: demo"; exit 1; }
mkdir -p /verif/seeded/$NAME
cp "$SUB/patch.diff" "$SUB/demo.py" /verif/seeded/$NAME/
python3 - "$SUB/meta.json" /verif/seeded/$NAME/meta.json "$T" "$D0" "$D1" <<'PY'
import json, sys
src, dst, t, d0, d1 = sys.argv[1:6]
try:
    m = json.load(open(src))
except Exception:
    m = {}
m["confirmed_by_main_session"] = dict(tests_with_patch=t, demo_exit_pristine=int(d0), demo_exit_patched=int(d1),
    how="tools/confirm_seed.sh in the agent's scratch worktree (PYTHONPATH=worktree): git apply --check; demo on pristine; apply; pytest; demo; revert")
json.dump(m, open(dst, "w"), indent=1)
PY
echo "stored /verif/seeded/$NAME"
