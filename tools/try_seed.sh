#!/bin/sh
# usage: tools/try_seed.sh <seed name> <prop> [<prop> ...]  -- apply seed to /repo, run quick checks, revert
S="$1"; shift
cd /verif
git -C /repo apply "/verif/seeded/$S/patch.diff" || exit 9
for P in "$@"; do
  OUT=$(./check "$P" 2>&1); RC=$?
  echo "[$S vs $P] exit=$RC $(echo "$OUT" | grep -c '^VIOLATION') violation line(s); first: $(echo "$OUT" | grep -m1 '^VIOLATION\|^CHECK-ERROR\|^UNDECIDED' | cut -c1-220)"
done
git -C /repo checkout -- .
