"""debug helper: run all shapes of a contract (fork pool) and print the names of refuted / unknown obligations.
usage: .venv/bin/python tools/dbg_refuted.py contracts.sync InsertSyncBarrier_contract [max_shapes]"""
import sys, os, json
sys.path.insert(0, os.path.dirname(os.path.dirname(os.path.abspath(__file__))))
from concurrent.futures import ProcessPoolExecutor
from pyvc import harness

def job(a):
    mod, name, i = a
    try:
        r = harness.run_job(mod, name, i)
    except IndexError:
        return None
    out = []
    for o in r.get("obligations", []):
        st = o.get("status") if isinstance(o, dict) else getattr(o, "status", None)
        nm = o.get("name") if isinstance(o, dict) else getattr(o, "name", None)
        kd = o.get("kind") if isinstance(o, dict) else getattr(o, "kind", None)
        if st != "proved" and kd != "canary":
            out.append((st, nm))
    return (i, r.get("shape"), r.get("error"), r.get("unsupported"), out)

if __name__ == "__main__":
    mod, name = sys.argv[1], sys.argv[2]
    n = int(sys.argv[3]) if len(sys.argv) > 3 else 400
    with ProcessPoolExecutor(16) as ex:
        for res in ex.map(job, [(mod, name, i) for i in range(n)]):
            if res is None:
                continue
            i, sh, err, uns, out = res
            if err or uns:
                print("shape", i, sh, "ERROR", str(err)[:300], str(uns)[:300])
            for st, nm in out:
                print("shape", i, st, nm)
