"""debug runner: python -m pyvc.run <contract module> <class> <shape idx>"""
import json
import sys

from .harness import run_job

if __name__ == "__main__":
    mod, cls, idx = sys.argv[1], sys.argv[2], int(sys.argv[3])
    r = run_job(mod, cls, idx)
    obs = r.pop("obligations")
    print(json.dumps({k: v for k, v in r.items() if k != "trace"}, indent=1, default=str))
    if r.get("trace"):
        print(r["trace"])
    from collections import Counter

    print(Counter((o["kind"], o["status"]) for o in obs))
    for o in obs:
        if o["status"] != "proved" and o["kind"] != "canary":
            print(o)
            break
    for o in obs:
        if o["status"] == "refuted" and o["kind"] == "canary":
            print("canary refuted:", o["model"])
            break
