"""Builtins, exception classes, container methods and standard-library stubs for the interpreter."""
from __future__ import annotations

import math

import z3

from . import ops
from .values import (
    SV,
    BoundMethod,
    ClassV,
    FuncV,
    GenList,
    MergeFail,
    ModuleV,
    NativeFn,
    NativeObj,
    Obj,
    Opaque,
    PathAbort,
    PropertyV,
    SymStr,
    Unsupported,
)

_MISSING = object()


def install_builtins(I):
    from .interp import Interp, PyRaise

    B = I.builtins

    def nf(name, wants_interp=True):
        def deco(fn):
            B[name] = NativeFn(fn, name, wants_interp)
            return fn

        return deco

    # ------------------------------------------------------------ exceptions
    def exc(name, *bases):
        c = ClassV(name, [I.exc_classes[b] for b in bases], {}, "builtins", name)
        I.exc_classes[name] = c
        B[name] = c
        return c

    exc("BaseException")
    exc("Exception", "BaseException")
    exc("ArithmeticError", "Exception")
    exc("ZeroDivisionError", "ArithmeticError")
    exc("OverflowError", "ArithmeticError")
    exc("LookupError", "Exception")
    exc("IndexError", "LookupError")
    exc("KeyError", "LookupError")
    exc("ValueError", "Exception")
    exc("TypeError", "Exception")
    exc("AssertionError", "Exception")
    exc("AttributeError", "Exception")
    exc("NameError", "Exception")
    exc("RuntimeError", "Exception")
    exc("NotImplementedError", "RuntimeError")
    exc("RecursionError", "RuntimeError")
    exc("StopIteration", "Exception")
    exc("FrozenInstanceError", "AttributeError")

    def exc_init(interp, self_obj, *args, **kw):
        self_obj.fields["args"] = tuple(args)

    I.exc_classes["BaseException"].ns["__init__"] = NativeFn(exc_init, "method:BaseException.__init__")

    def exc_str(interp, self_obj):
        a = self_obj.fields.get("args", ())
        if len(a) == 1:
            return interp.to_str(a[0])
        return interp.to_str(tuple(a))

    I.exc_classes["BaseException"].ns["__str__"] = NativeFn(exc_str, "method:BaseException.__str__")

    B["NotImplemented"] = __import__("pyvc.interp", fromlist=["NOT_IMPLEMENTED"]).NOT_IMPLEMENTED
    B["Ellipsis"] = Opaque("...")
    B["True"], B["False"], B["None"] = True, False, None
    B["__debug__"] = True

    # ------------------------------------------------------------ type-ish builtins
    @nf("int")
    def _int(interp, x=0, base=None):
        if isinstance(x, SV):
            if x.is_bool:
                return ops.simp(ops.zint(x))
            return x
        if isinstance(x, NativeObj) and hasattr(x, "_int"):
            return x._int(interp)
        if isinstance(x, Obj):
            f, _ = x.cls.lookup("__int__")
            if f is None:
                f, _ = x.cls.lookup("__index__")
            if f is not None:
                return interp.call(BoundMethod(f, x), [], {})
            interp.raise_py("TypeError", "int() argument must be a number")
        if isinstance(x, SymStr):
            raise Unsupported("int() of symbolic string")
        if base is not None:
            return interp.native(lambda: int(x, base))
        return interp.native(lambda: int(x))

    @nf("bool")
    def _bool(interp, x=False):
        cz = interp.cond_term(x)
        if isinstance(cz, bool):
            return cz
        return ops.simp(cz)

    @nf("float")
    def _float(interp, x=0.0):
        if isinstance(x, SV):
            raise Unsupported("float() of symbolic")
        return interp.native(lambda: float(x))

    @nf("str")
    def _str(interp, x=""):
        return interp.to_str(x)

    @nf("repr")
    def _repr(interp, x):
        if isinstance(x, str) and not isinstance(x, SymStr):
            return repr(x)
        return interp.to_str(x)

    @nf("list")
    def _list(interp, x=()):
        return interp.note_fresh(list(interp.iterate(x)))

    @nf("tuple")
    def _tuple(interp, x=()):
        return tuple(interp.iterate(x))

    @nf("dict")
    def _dict(interp, *pos, **kw):
        # (positional-only source argument: `dict(x=1)` is a keyword entry named x)
        x = pos[0] if len(pos) > 0 else None
        d = {}
        if x is not None:
            if isinstance(x, dict):
                d.update(x)
            else:
                for it in interp.iterate(x):
                    k, v = interp.iterate(it)
                    interp.check_key(k)
                    d[k] = v
        d.update(kw)
        return interp.note_fresh(d)

    @nf("set")
    def _set(interp, x=()):
        items = interp.iterate(x)
        if any(isinstance(i, Obj) for i in items) and not any(isinstance(i, SV) for i in items):
            interp.assumptions.add("set of interpreted objects: membership by identity (value-equal distinct objects are not merged)")
            out = []
            for i in items:
                if not any(i is o for o in out):
                    out.append(i)
            return interp.note_fresh(out)  # list-backed set, iteration in insertion order
        if interp._has_sym(*items):
            raise Unsupported("set of symbolic values")
        return interp.note_fresh(interp.native(lambda: set(items)))

    @nf("frozenset")
    def _frozenset(interp, x=()):
        items = interp.iterate(x)
        if interp._has_sym(*items):
            raise Unsupported("frozenset of symbolic values")
        return frozenset(items)

    @nf("object")
    def _object(interp):
        return Obj(ClassV("object", [], {}, "builtins"))

    def object_setattr(interp, o, name, val):
        if isinstance(o, Obj):
            interp.mutating(o)
            o.fields[name] = val
            return None
        raise Unsupported("object.__setattr__ on non-object")

    class _ObjectNS(NativeObj):
        pass

    # `object.__setattr__(self, "x", v)`
    B["object"].__class__  # keep linter quiet
    I._object_setattr = NativeFn(object_setattr, "object.__setattr__")

    @nf("type")
    def _type(interp, x, *rest):
        if rest:
            raise Unsupported("3-argument type()")
        if isinstance(x, Obj):
            return x.cls
        if isinstance(x, SV):
            return B["bool"] if x.is_bool else B["int"]
        if isinstance(x, bool):
            return B["bool"]
        if isinstance(x, int):
            return B["int"]
        if isinstance(x, str):
            return B["str"]
        if isinstance(x, list):
            return B["list"]
        if isinstance(x, tuple):
            return B["tuple"]
        if isinstance(x, dict):
            return B["dict"]
        if x is None:
            return Opaque("NoneType")
        if isinstance(x, NativeObj):
            return type(x)
        raise Unsupported(f"type() of {type(x).__name__}")

    @nf("isinstance")
    def _isinstance(interp, v, cls):
        return interp.isinstance(v, cls)

    @nf("issubclass")
    def _issubclass(interp, c, cls):
        if isinstance(cls, tuple):
            return any(_issubclass(interp, c, x) for x in cls)
        if isinstance(c, ClassV) and isinstance(cls, ClassV):
            return c.issubclass(cls)
        if isinstance(c, ClassV) and isinstance(cls, Opaque):
            declared = c.lookup("__opaque_bases__")[0]
            return bool(declared) and any(cls.name.endswith(d) for d in declared)
        return c is cls

    @nf("callable")
    def _callable(interp, x):
        return isinstance(x, (FuncV, BoundMethod, NativeFn, ClassV)) or (isinstance(x, Obj) and x.cls.lookup("__call__")[0] is not None)

    @nf("hasattr")
    def _hasattr(interp, o, name):
        interp._attr_probe = getattr(interp, "_attr_probe", 0) + 1  # a probe: a missing attribute is an answer, not a stub gap
        try:
            interp.getattr(o, name)
            return True
        except PyRaise as e:
            if e.exc.cls.issubclass(interp.exc_classes["AttributeError"]):
                return False
            raise
        finally:
            interp._attr_probe -= 1

    @nf("getattr")
    def _getattr(interp, o, name, default=_MISSING):
        if default is _MISSING:
            return interp.getattr(o, name)
        interp._attr_probe = getattr(interp, "_attr_probe", 0) + 1
        try:
            return interp.getattr(o, name)
        except PyRaise as e:
            if e.exc.cls.issubclass(interp.exc_classes["AttributeError"]):
                return default
            raise
        finally:
            interp._attr_probe -= 1

    @nf("setattr")
    def _setattr(interp, o, name, v):
        interp.setattr(o, name, v)

    @nf("id")
    def _id(interp, o):
        return id(o)

    @nf("hash")
    def _hash(interp, o):
        if isinstance(o, SV):
            raise Unsupported("hash of symbolic value")
        if isinstance(o, Obj):
            f, _ = o.cls.lookup("__hash__")
            if f is not None:
                return interp.call(BoundMethod(f, o), [], {})
            return id(o)  # identity hash (objects without __hash__/__eq__)
        return hash(o)

    @nf("print")
    def _print(interp, *a, **k):
        return None

    # ------------------------------------------------------------ numeric builtins
    @nf("len")
    def _len(interp, x):
        if isinstance(x, (list, tuple, dict, str, set, frozenset, range)):
            return len(x)
        if isinstance(x, GenList):
            interp.raise_py("TypeError", "object of type 'generator' has no len()")
        if isinstance(x, Obj):
            f, _ = x.cls.lookup("__len__")
            if f is not None:
                return interp.call(BoundMethod(f, x), [], {})
            interp.raise_py("TypeError", f"object of type '{x.cls.name}' has no len()")
        if isinstance(x, NativeObj):
            return x._len(interp)
        raise Unsupported(f"len of {type(x).__name__}")

    @nf("abs")
    def _abs(interp, x):
        if isinstance(x, SV):
            t = ops.zint(x)
            return ops.simp(z3.If(t >= 0, t, -t))
        if isinstance(x, NativeObj):
            return x._abs(interp)
        return abs(x)

    def _minmax(interp, is_min, args, key=None, default=_MISSING):
        items = interp.iterate(args[0]) if len(args) == 1 else list(args)
        if not items:
            if default is not _MISSING:
                return default
            interp.raise_py("ValueError", "min()/max() arg is an empty sequence")
        keys = [interp.call(key, [x], {}) for x in items] if key is not None else items
        best, bk = items[0], keys[0]
        for x, k in zip(items[1:], keys[1:]):
            c = interp.compare("Lt" if is_min else "Gt", k, bk)
            if isinstance(c, SV):
                cz = ops.zbool(c)
                try:
                    best = interp.merge_values(cz, x, best)
                    bk = interp.merge_values(cz, k, bk)
                except MergeFail:
                    if interp.ctx.decide(cz):
                        best, bk = x, k
            elif c:
                best, bk = x, k
        return best

    @nf("min")
    def _min(interp, *args, key=None, default=_MISSING):
        return _minmax(interp, True, args, key, default)

    @nf("max")
    def _max(interp, *args, key=None, default=_MISSING):
        return _minmax(interp, False, args, key, default)

    @nf("sum")
    def _sum(interp, xs, start=0):
        r = start
        for x in interp.iterate(xs):
            r = interp.binop("Add", r, x)
        return r

    def _prod(interp, xs, start=1):
        r = start
        for x in interp.iterate(xs):
            r = interp.binop("Mult", r, x)
        return r

    @nf("any")
    def _any(interp, xs):
        rs = []
        for x in interp.iterate(xs):
            cz = interp.cond_term(x)
            if cz is True:
                return True
            if cz is not False:
                rs.append(SV(cz))
        return ops.r_or(rs)

    @nf("all")
    def _all(interp, xs):
        rs = []
        for x in interp.iterate(xs):
            cz = interp.cond_term(x)
            if cz is False:
                return False
            if cz is not True:
                rs.append(SV(cz))
        return ops.r_and(rs)

    @nf("divmod")
    def _divmod(interp, a, b):
        return (interp.binop("FloorDiv", a, b), interp.binop("Mod", a, b))

    @nf("pow")
    def _pow(interp, a, b):
        return interp.binop("Pow", a, b)

    @nf("round")
    def _round(interp, x, n=None):
        if isinstance(x, SV):
            return x
        return round(x, n) if n is not None else round(x)

    # ------------------------------------------------------------ iteration builtins
    @nf("range")
    def _range(interp, *a):
        if any(isinstance(x, SV) for x in a):
            return SymRange(*a)
        return interp.native(lambda: range(*a))

    @nf("enumerate")
    def _enumerate(interp, xs, start=0):
        return GenList([(i + start, x) for i, x in enumerate(interp.iterate(xs))])

    @nf("zip")
    def _zip(interp, *xss, strict=False):
        # iterators (generators, iter(...)) are STATEFUL and may be passed more than once (`zip(it, it)` pairs consecutive
        # elements): consume them element by element in argument order, as CPython does - including the element that is
        # taken from an earlier argument in the round in which a later one turns out to be exhausted
        its = []
        for xs in xss:
            its.append(xs if isinstance(xs, GenList) else GenList(interp.iterate(xs)))
        out = []
        exhausted_at = None
        while exhausted_at is None:
            row = []
            k = 0
            for it in its:
                if it.pos < len(it.items):
                    interp.mutating(it)
                    row.append(it.items[it.pos])
                    it.pos += 1
                else:
                    exhausted_at = k
                    break
                k += 1
            if exhausted_at is None:
                if len(its) == 0:
                    break
                out.append(tuple(row))
        if strict and len(its) > 0:
            if (exhausted_at or 0) > 0 or any(it.pos < len(it.items) for it in its):
                interp.raise_py("ValueError", "zip() arguments have different lengths")
        return GenList(out)

    @nf("reversed")
    def _reversed(interp, xs):
        if isinstance(xs, Obj):
            f, _ = xs.cls.lookup("__reversed__")
            if f is not None:
                return interp.call(BoundMethod(f, xs), [], {})
        return GenList(list(reversed(interp.iterate(xs))))

    @nf("map")
    def _map(interp, f, *xss):
        lists = [interp.iterate(xs) for xs in xss]
        return GenList([interp.call(f, list(t), {}) for t in zip(*lists)])

    @nf("filter")
    def _filter(interp, f, xs):
        out = []
        for x in interp.iterate(xs):
            c = interp.call(f, [x], {}) if f is not None else x
            if interp.truth(c):
                out.append(x)
        return GenList(out)

    @nf("iter")
    def _iter(interp, xs):
        if isinstance(xs, GenList):
            return xs
        return GenList(interp.iterate(xs))

    @nf("next")
    def _next(interp, it, default=_MISSING):
        if not isinstance(it, GenList):
            if isinstance(it, Obj):
                f, _ = it.cls.lookup("__next__")
                if f is not None:
                    return interp.call(BoundMethod(f, it), [], {})
            raise Unsupported(f"next() on {type(it).__name__}")
        if it.pos < len(it.items):
            interp.mutating(it)
            v = it.items[it.pos]
            it.pos += 1
            return v
        if default is not _MISSING:
            return default
        interp.raise_py("StopIteration")

    @nf("sorted")
    def _sorted(interp, xs, key=None, reverse=False):
        items = list(interp.iterate(xs))
        keys = [interp.call(key, [x], {}) for x in items] if key is not None else list(items)
        # stable insertion sort with (possibly symbolic) comparisons
        out, outk = [], []
        for x, k in zip(items, keys):
            pos = len(out)
            # find first position from the right where k >= outk[pos-1] (stable)
            while pos > 0:
                c = interp.compare("Lt" if not reverse else "Gt", k, outk[pos - 1])
                if interp.truth(c):
                    pos -= 1
                else:
                    break
            out.insert(pos, x)
            outk.insert(pos, k)
        return interp.note_fresh(out)

    # ------------------------------------------------------------ decorators / descriptors
    @nf("staticmethod")
    def _staticmethod(interp, f):
        if isinstance(f, FuncV):
            f.kind = "staticmethod"
        return f

    @nf("classmethod")
    def _classmethod(interp, f):
        if isinstance(f, FuncV):
            f.kind = "classmethod"
        return f

    @nf("property")
    def _property(interp, f):
        return PropertyV(f)

    @nf("super")
    def _super(interp, cls=None, obj=None):
        from .interp import SuperV

        return SuperV(cls, obj)

    @nf("vars")
    def _vars(interp, o):
        if isinstance(o, Obj):
            return o.fields
        raise Unsupported("vars()")

    # ------------------------------------------------------------ container methods
    def native_method(interp, v, name):
        tbl = None
        if isinstance(v, list):
            tbl = LIST_M
        elif isinstance(v, dict):
            tbl = DICT_M
        elif isinstance(v, str):
            tbl = STR_M
        elif isinstance(v, tuple):
            tbl = TUPLE_M
        elif isinstance(v, (set, frozenset)):
            tbl = SET_M
        elif isinstance(v, (int, SV)):
            tbl = INT_M
        elif isinstance(v, GenList):
            tbl = GEN_M
        elif isinstance(v, range):
            tbl = RANGE_M
        elif isinstance(v, NativeFn) and v.name == "object" and name == "__setattr__":
            return interp._object_setattr
        elif isinstance(v, NativeFn) and v.name == "object" and name == "__new__":
            return NativeFn(lambda interp_, cls, *a, **k: interp_.note_fresh(Obj(cls)), "object.__new__")
        elif isinstance(v, NativeFn) and v.name == "object" and name == "__init__":
            return NativeFn(lambda interp_, *a, **k: None, "object.__init__")
        elif isinstance(v, NativeFn) and v.name == "dict" and name == "fromkeys":
            return NativeFn(lambda interp_, ks, val=None: {k: val for k in interp_.iterate(ks)}, "dict.fromkeys")
        elif isinstance(v, NativeFn) and v.name == "int" and name == "from_bytes":
            raise Unsupported("int.from_bytes")
        elif isinstance(v, NativeFn) and name == "__name__":
            return v.name
        if tbl is None or name not in tbl:
            return None
        fn = tbl[name]
        return NativeFn(lambda interp_, *a, **k: fn(interp_, v, *a, **k), f"{type(v).__name__}.{name}")

    Interp.native_method = native_method

    def l_append(interp, l, x):
        interp.mutating(l)
        l.append(x)

    def l_extend(interp, l, xs):
        interp.mutating(l)
        l.extend(interp.iterate(xs))

    def l_insert(interp, l, i, x):
        interp.mutating(l)
        if isinstance(i, SV):
            raise Unsupported("list.insert at symbolic index")
        l.insert(i, x)

    def l_pop(interp, l, i=-1):
        interp.mutating(l)
        if isinstance(i, SV):
            raise Unsupported("list.pop at symbolic index")
        return interp.native(lambda: l.pop(i))

    def l_index(interp, l, x, start=0):
        for i in range(start, len(l)):
            y = l[i]
            r = interp.eq(y, x)
            if interp.truth(r):
                return i
        interp.raise_py("ValueError", "value is not in list")

    def l_remove(interp, l, x):
        interp.mutating(l)
        for i, y in enumerate(l):
            if y is x or interp.truth(interp.eq(y, x)):
                del l[i]
                return None
        interp.raise_py("ValueError", "list.remove(x): x not in list")

    def l_count(interp, l, x):
        r = 0
        for y in l:
            e = interp.eq(y, x)
            if isinstance(e, SV):
                r = interp.binop("Add", r, ops.simp(z3.If(ops.zbool(e), z3.IntVal(1), z3.IntVal(0))))
            elif e:
                r = interp.binop("Add", r, 1)
        return r

    def l_copy(interp, l):
        return interp.note_fresh(list(l))

    def l_reverse(interp, l):
        interp.mutating(l)
        l.reverse()

    def l_clear(interp, l):
        interp.mutating(l)
        l.clear()

    def l_sort(interp, l, key=None, reverse=False):
        interp.mutating(l)
        l[:] = _sorted(interp, l, key=key, reverse=reverse)

    def l_popleft(interp, l):
        if not isinstance(l, Deque):
            interp.raise_py("AttributeError", "'list' object has no attribute 'popleft'")
        return l_pop(interp, l, 0)

    def l_appendleft(interp, l, x):
        if not isinstance(l, Deque):
            interp.raise_py("AttributeError", "'list' object has no attribute 'appendleft'")
        return l_insert(interp, l, 0, x)

    def l_extendleft(interp, l, xs):
        if not isinstance(l, Deque):
            interp.raise_py("AttributeError", "'list' object has no attribute 'extendleft'")
        for x in interp.iterate(xs):
            l_insert(interp, l, 0, x)

    LIST_M = dict(popleft=l_popleft, appendleft=l_appendleft, extendleft=l_extendleft,
                  append=l_append, extend=l_extend, insert=l_insert, pop=l_pop, index=l_index, remove=l_remove,
                  count=l_count, copy=l_copy, reverse=l_reverse, clear=l_clear, sort=l_sort)
    TUPLE_M = dict(index=l_index, count=l_count)
    RANGE_M = dict(index=lambda interp, r, x: interp.native(lambda: r.index(x)))

    def d_get(interp, d, k, default=None):
        interp.check_key(k)
        if isinstance(k, Obj):
            for kk in d:
                if kk is k:
                    return d[kk]
            return default
        return interp.native(lambda: d.get(k, default))

    def d_keys(interp, d):
        return list(d.keys())

    def d_values(interp, d):
        return list(d.values())

    def d_items(interp, d):
        return list(d.items())

    def d_update(interp, d, other=None, **kw):
        interp.mutating(d)
        if other is not None:
            if isinstance(other, dict):
                d.update(other)
            else:
                for it in interp.iterate(other):
                    k, v = interp.iterate(it)
                    interp.check_key(k)
                    d[k] = v
        d.update(kw)

    def d_pop(interp, d, k, default=_MISSING):
        interp.mutating(d)
        interp.check_key(k)
        if default is _MISSING:
            return interp.native(lambda: d.pop(k))
        return d.pop(k, default)

    def d_setdefault(interp, d, k, default=None):
        interp.check_key(k)
        if k not in d:
            interp.mutating(d)
            d[k] = default
        return d[k]

    def d_copy(interp, d):
        return interp.note_fresh(dict(d))

    def d_clear(interp, d):
        interp.mutating(d)
        d.clear()

    DICT_M = dict(get=d_get, keys=d_keys, values=d_values, items=d_items, update=d_update, pop=d_pop,
                  setdefault=d_setdefault, copy=d_copy, clear=d_clear)

    def s_generic(name):
        def f(interp, s, *a, **k):
            if isinstance(s, SymStr) or any(isinstance(x, (SymStr, SV)) for x in a):
                if name in ("format",):
                    return SymStr(s)
                raise Unsupported(f"str.{name} on symbolic string")
            if name == "join":
                items = [interp.to_str(x) if not isinstance(x, str) else x for x in interp.iterate(a[0])]
                if any(isinstance(x, SymStr) for x in items):
                    return SymStr(s.join(items))
                return s.join(items)
            return interp.native(lambda: getattr(s, name)(*a, **k))

        return f

    STR_M = {n: s_generic(n) for n in (
        "join", "format", "startswith", "endswith", "split", "rsplit", "strip", "lstrip", "rstrip", "upper", "lower",
        "replace", "find", "index", "count", "isdigit", "isalpha", "isidentifier", "removeprefix", "removesuffix",
        "partition", "rpartition", "splitlines", "zfill", "ljust", "rjust", "title", "capitalize", "encode")}

    def set_add(interp, s, x):
        interp.mutating(s)
        interp.check_key(x)
        s.add(x)

    def set_generic(name):
        def f(interp, s, *a):
            aa = [set(interp.iterate(x)) if not isinstance(x, (set, frozenset)) else x for x in a]
            r = getattr(s, name)(*aa)
            return r

        return f

    def set_mut(name):
        def f(interp, s, *a):
            interp.mutating(s)
            return interp.native(lambda: getattr(s, name)(*a))

        return f

    SET_M = dict(add=set_add, union=set_generic("union"), intersection=set_generic("intersection"),
                 difference=set_generic("difference"), issubset=set_generic("issubset"),
                 issuperset=set_generic("issuperset"), copy=lambda interp, s: interp.note_fresh(set(s)),
                 remove=set_mut("remove"), discard=set_mut("discard"), pop=set_mut("pop"), update=lambda interp, s, xs: (interp.mutating(s), s.update(interp.iterate(xs)))[1],
                 symmetric_difference=set_generic("symmetric_difference"), isdisjoint=set_generic("isdisjoint"))

    def int_bit_length(interp, v):
        if isinstance(v, SV):
            raise Unsupported("bit_length of symbolic int")
        return v.bit_length()

    INT_M = dict(bit_length=int_bit_length)
    GEN_M = {}

    # ------------------------------------------------------------ stdlib stub modules
    NM = I.native_modules

    def _ceil(interp, x):
        if isinstance(x, SV):
            return x
        return math.ceil(x)

    def _floor(interp, x):
        if isinstance(x, SV):
            return x
        return math.floor(x)

    def _log2(interp, x):
        if isinstance(x, SV):
            raise Unsupported("log2 of symbolic value")
        return interp.native(lambda: math.log2(x))

    def _gcd(interp, *a):
        """symbolic gcd: a fresh g constrained to be a common divisor (sound over-approximation: the real gcd
        satisfies every stated fact; 'greatest' is not encoded)"""
        if not any(isinstance(x, SV) for x in a):
            return interp.native(lambda: math.gcd(*a))
        ctx = interp.ctx
        g = ctx.fresh("gcd")
        ts = [ops.zint(x) for x in a]
        ctx.add_axiom(g.t >= 0)
        ctx.add_axiom(z3.Implies(g.t == 0, z3.And(*[t == 0 for t in ts])))
        ctx.add_axiom(z3.Implies(z3.Or(*[t != 0 for t in ts]), g.t >= 1))
        for t in ts:
            k = ctx.fresh("gcdk")
            ctx.add_axiom(t == k.t * g.t)
            ctx.add_axiom(z3.Implies(g.t >= 1, t % g.t == 0))
            ctx.add_axiom(z3.Implies(t != 0, z3.And(g.t <= z3.If(t >= 0, t, -t))))
        # if one argument divides the other, it is the gcd (needed to keep exact-multiple reasoning precise)
        if len(ts) == 2:
            x, y = ts
            ctx.add_axiom(z3.Implies(z3.And(y >= 1, x % y == 0), g.t == y))
            ctx.add_axiom(z3.Implies(z3.And(x >= 1, y % x == 0), g.t == x))
        interp.assumptions.add("math.gcd on symbolic arguments: modelled as a common divisor (not necessarily greatest)")
        return g

    NM["math"] = dict(
        prod=NativeFn(_prod, "math.prod"),
        ceil=NativeFn(_ceil, "math.ceil"),
        floor=NativeFn(_floor, "math.floor"),
        log2=NativeFn(_log2, "math.log2"),
        gcd=NativeFn(_gcd, "math.gcd"),
        sqrt=NativeFn(lambda interp, x: interp.native(lambda: math.sqrt(x)), "math.sqrt"),
        inf=math.inf,
        pi=math.pi,
    )

    def _dataclass(interp, cls=None, **kw):
        if cls is None:
            return NativeFn(lambda interp_, c: interp_.make_dataclass(c, **kw), "dataclass(...)")
        return interp.make_dataclass(cls, **kw)

    dcfield_cls = ClassV("_DCField", [], {}, "dataclasses")

    def _field(interp, default=_MISSING, default_factory=None, **kw):
        return Obj(dcfield_cls, {"default": default, "default_factory": default_factory})

    def _replace(interp, o, **changes):
        if not isinstance(o, Obj):
            raise Unsupported("dataclasses.replace")
        vals = {n: o.fields[n] for n, _ in interp.dataclass_fields(o.cls)}
        vals.update(changes)
        return interp.instantiate(o.cls, [], vals)

    def _dc_fields(interp, o):
        cls = o.cls if isinstance(o, Obj) else o
        fcls = ClassV("Field", [], {}, "dataclasses")
        return tuple(Obj(fcls, {"name": n}) for n, _ in interp.dataclass_fields(cls))

    NM["dataclasses"] = dict(dataclass=NativeFn(_dataclass, "dataclass"), field=NativeFn(_field, "field"),
                             replace=NativeFn(_replace, "replace"), fields=NativeFn(_dc_fields, "fields"),
                             KW_ONLY=Opaque("KW_ONLY"))

    ident = NativeFn(lambda interp, f=None, *a, **k: f, "identity-decorator")

    def _typevar(interp, *a, **k):
        return Opaque("TypeVar")

    def _cast(interp, t, v):
        return v

    typing_ns = dict(
        TypeVar=NativeFn(_typevar, "TypeVar"), Generic=Opaque("Generic"), cast=NativeFn(_cast, "cast"),
        overload=NativeFn(lambda interp, f: Opaque("overload"), "overload"), Self=Opaque("Self"), Any=Opaque("Any"),
        ClassVar=Opaque("ClassVar"), TYPE_CHECKING=False, Sequence=NativeFn(lambda i, *a: None, "Sequence"),
        Iterable=NativeFn(lambda i, *a: None, "Iterable"), Iterator=Opaque("Iterator"),
        Callable=NativeFn(lambda i, *a: None, "Callable"), Mapping=Opaque("Mapping"), Literal=Opaque("Literal"),
        Optional=Opaque("Optional"), Union=Opaque("Union"), Annotated=Opaque("Annotated"), Final=Opaque("Final"),
        NamedTuple=Opaque("NamedTuple"), Protocol=Opaque("Protocol"), Generator=Opaque("Generator"),
        TypeAlias=Opaque("TypeAlias"), final=ident, override=ident, TypeGuard=Opaque("TypeGuard"),
        assert_never=NativeFn(lambda interp, x: interp.raise_py("AssertionError", "assert_never"), "assert_never"),
        Collection=Opaque("Collection"), Hashable=Opaque("Hashable"), Set=Opaque("Set"), Container=Opaque("Container"),
        MutableSequence=Opaque("MutableSequence"), deprecated=NativeFn(lambda interp, *a, **k: ident, "deprecated"),
    )
    NM["typing"] = typing_ns
    NM["typing_extensions"] = typing_ns
    NM["collections.abc"] = typing_ns
    NM["numpy.typing"] = dict(NDArray=Opaque("NDArray"))
    NM["numpy._typing"] = dict(NDArray=Opaque("NDArray"))
    NM["abc"] = dict(ABC=Opaque("ABC"), abstractmethod=ident, ABCMeta=Opaque("ABCMeta"))

    enum_cls = ClassV("Enum", [], {}, "enum")
    enum_cls.is_enum = True
    strenum_cls = ClassV("StrEnum", [enum_cls], {}, "enum")
    strenum_cls.is_enum = True
    intenum_cls = ClassV("IntEnum", [enum_cls], {}, "enum")
    intenum_cls.is_enum = True
    NM["enum"] = dict(Enum=enum_cls, StrEnum=strenum_cls, IntEnum=intenum_cls, auto=NativeFn(lambda interp: Opaque("auto"), "auto"))
    NM["xdsl.utils.str_enum"] = dict(StrEnum=strenum_cls)
    import string as _string

    NM["string"] = dict(ascii_lowercase=_string.ascii_lowercase, ascii_uppercase=_string.ascii_uppercase, ascii_letters=_string.ascii_letters, digits=_string.digits)

    def _chain(interp, *xss):
        out = []
        for xs in xss:
            out.extend(interp.iterate(xs))
        return GenList(out)

    def _product(interp, *xss, repeat=1):
        import itertools

        lists = [interp.iterate(xs) for xs in xss] * repeat
        return GenList(list(itertools.product(*lists)))

    def _permutations(interp, xs, r=None):
        import itertools

        return GenList(list(itertools.permutations(interp.iterate(xs), r)))

    def _combinations(interp, xs, r):
        import itertools

        return GenList(list(itertools.combinations(interp.iterate(xs), r)))

    def _islice(interp, xs, *a):
        import itertools

        return GenList(list(itertools.islice(interp.iterate(xs), *a)))

    def _accumulate(interp, xs, func=None, initial=_MISSING):
        out = []
        items = interp.iterate(xs)
        if initial is not _MISSING:
            acc = initial
            out.append(acc)
        else:
            if not items:
                return GenList([])
            acc = items[0]
            items = items[1:]
            out.append(acc)
        for x in items:
            acc = interp.call(func, [acc, x], {}) if func is not None else interp.binop("Add", acc, x)
            out.append(acc)
        return GenList(out)

    chain_fn = NativeFn(_chain, "chain")

    class _ChainNS(NativeObj):
        def __call__(self, *a):
            raise Unsupported

    NM["itertools"] = dict(chain=chain_fn, product=NativeFn(_product, "product"), permutations=NativeFn(_permutations, "permutations"),
                           combinations=NativeFn(_combinations, "combinations"), islice=NativeFn(_islice, "islice"),
                           accumulate=NativeFn(_accumulate, "accumulate"))

    def _reduce(interp, f, xs, initial=_MISSING):
        items = interp.iterate(xs)
        if initial is _MISSING:
            acc, items = items[0], items[1:]
        else:
            acc = initial
        for x in items:
            acc = interp.call(f, [acc, x], {})
        return acc

    NM["functools"] = dict(reduce=NativeFn(_reduce, "reduce"), cache=ident, lru_cache=NativeFn(lambda interp, *a, **k: ident if not (a and isinstance(a[0], FuncV)) else a[0], "lru_cache"),
                           partial=NativeFn(lambda interp, f, *a, **k: NativeFn(lambda interp_, *b, **kk: interp_.call(f, list(a) + list(b), {**k, **kk}), "partial"), "partial"),
                           cached_property=NativeFn(lambda interp, f: PropertyV(f), "cached_property"), wraps=NativeFn(lambda interp, f: ident, "wraps"))
    class DDict(dict):
        """collections.defaultdict: the factory is an interpreted callable"""
        factory = None

    def _defaultdict(interp, factory=None, *a, **k):
        d = DDict()
        d.factory = factory
        return interp.note_fresh(d)

    I.DDict = DDict

    def _deque(interp, xs=(), maxlen=None):
        if maxlen is not None:
            raise Unsupported("collections.deque with maxlen")
        return interp.note_fresh(Deque(interp.iterate(xs)))

    NM["collections"] = dict(defaultdict=NativeFn(_defaultdict, "defaultdict"), OrderedDict=B["dict"], deque=NativeFn(_deque, "deque"))
    NM["warnings"] = dict(warn=NativeFn(lambda interp, *a, **k: None, "warn"))
    NM["sys"] = dict(stderr=Opaque("stderr"), stdout=Opaque("stdout"), argv=[])
    NM["copy"] = dict(copy=NativeFn(lambda interp, x: interp.note_fresh(list(x)) if isinstance(x, list) else interp.note_fresh(dict(x)) if isinstance(x, dict) else x, "copy"))
    import operator as _op

    NM["operator"] = dict(
        mul=NativeFn(lambda interp, a, b: interp.binop("Mult", a, b), "mul"),
        add=NativeFn(lambda interp, a, b: interp.binop("Add", a, b), "add"),
        itemgetter=NativeFn(lambda interp, k: NativeFn(lambda interp_, x: interp_.getitem(x, k), "itemgetter"), "itemgetter"),
    )

    from .pyapi import install_api

    install_api(I)


class Deque(list):
    """collections.deque (unbounded): a list with popleft / appendleft / extendleft; indexing, len, truth, iteration as a list"""


class SymRange(NativeObj):
    """range() with symbolic bounds; only usable through a loop hook (loop cut) or len()."""

    def __init__(self, *a):
        if len(a) == 1:
            self.start, self.stop, self.step = 0, a[0], 1
        elif len(a) == 2:
            self.start, self.stop, self.step = a[0], a[1], 1
        else:
            self.start, self.stop, self.step = a

    def _iterate(self, interp):
        """usable without an invariant only when the path condition fixes the trip count:
        find a candidate count from a model, then PROVE it (entailment) before unrolling"""
        ctx = interp.ctx
        start, stop, step = ops.zint(self.start), ops.zint(self.stop), ops.zint(self.step)
        if isinstance(self.step, int) and self.step == 0:
            interp.raise_py("ValueError", "range() arg 3 must not be zero")
        if not ctx.entails(step > 0):
            raise Unsupported("range with symbolic step of unknown sign")
        n = z3.Int("range!n")

        def count_is(k):
            # k = max(0, ceil((stop-start)/step)) for step > 0, stated without division
            return z3.Or(z3.And(k == 0, stop <= start),
                         z3.And(k > 0, start + (k - 1) * step < stop, start + k * step >= stop))

        ctx.solver.push()
        ctx.solver.add(count_is(n))
        r = ctx.solver.check()
        cand = None
        if r == z3.sat:
            cand = ctx.solver.model().eval(n, model_completion=True).as_long()
        ctx.solver.pop()
        if cand is None or cand > 4096:
            raise Unsupported("iteration over range with symbolic bounds (needs a loop invariant)")
        if not ctx.entails(count_is(z3.IntVal(cand))):
            raise Unsupported("iteration over range whose trip count is not fixed by the path condition (needs a loop invariant)")
        return [ops.simp(start + k * step) for k in range(cand)]

    def _len(self, interp):
        if self.step != 1:
            raise Unsupported("len of stepped symbolic range")
        d = interp.binop("Sub", self.stop, self.start)
        return ops.simp(z3.If(ops.zint(d) > 0, ops.zint(d), z3.IntVal(0)))

    def _binop(self, interp, op, other, reflected):
        return NotImplemented
