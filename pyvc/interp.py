"""AST interpreter over mixed concrete / symbolic values: the VC generator of pyvc.

It executes the *real source text* of the functions under contract (parsed from /repo on every
run).  Concrete sub-computations run with CPython's own semantics; symbolic ones are encoded in z3
(see ops.py).  Control flow on symbolic conditions forks by decision-list re-execution (ctx.py),
after trying if-conversion (state merging) for side-effect-free branches."""
from __future__ import annotations

import ast
import math
import os

import z3

from . import ops
from .ctx import Ctx
from .values import (
    SV,
    BoundMethod,
    ClassV,
    FuncV,
    GenList,
    MergeFail,
    ModuleV,
    NativeFn,
    NativeObj,
    Obj,
    Opaque,
    PathAbort,
    PropertyV,
    SymStr,
    Unsupported,
)

REPO = os.environ.get("PYVC_REPO", "/repo")
VERIF = os.path.dirname(os.path.dirname(os.path.abspath(__file__)))
XDSL_ROOT = "/venv/lib/python3.12/site-packages"
# dependency modules interpreted from their own source ("inlined dependency code")
INTERPRETED_DEPS = {
    "xdsl.ir.affine": XDSL_ROOT + "/xdsl/ir/affine/__init__.py",
    "xdsl.ir.affine.affine_expr": XDSL_ROOT + "/xdsl/ir/affine/affine_expr.py",
    "xdsl.ir.affine.affine_map": XDSL_ROOT + "/xdsl/ir/affine/affine_map.py",
    "xdsl.utils.comparisons": XDSL_ROOT + "/xdsl/utils/comparisons.py",
}


class ReturnSig(Exception):
    def __init__(self, value):
        self.value = value


class BreakSig(Exception):
    pass


class ContinueSig(Exception):
    pass


class PyRaise(Exception):
    """An exception raised by interpreted code (exc is an Obj of an exception ClassV)."""

    def __init__(self, exc):
        self.exc = exc

    def __str__(self):
        return f"{self.exc.cls.name}({', '.join(map(str, self.exc.fields.get('args', ())))})"


class Scope:
    __slots__ = ("vars", "parent", "globals", "frame", "_comp")

    def __init__(self, parent=None, globals_=None, frame=None):
        self._comp = False
        self.vars = {}
        self.parent = parent
        self.globals = globals_ if globals_ is not None else (parent.globals if parent else {})
        self.frame = frame if frame is not None else (parent.frame if parent else None)


class Frame:
    __slots__ = ("func", "yields", "self_obj", "globals_decl", "nonlocal_decl", "args", "args0", "_handling")

    def __init__(self, func):
        self.func = func
        self.yields = []
        self.self_obj = None
        self.globals_decl = set()
        self.nonlocal_decl = set()
        self.args = None
        self.args0 = None
        self._handling = None


NOT_IMPLEMENTED = Opaque("NotImplemented")
_MISSING = object()
NATIVE_ERRORS = (IndexError, KeyError, ValueError, TypeError, ZeroDivisionError, StopIteration, AttributeError, OverflowError)


def _has_yield(node):
    for n in ast.walk(node):
        if isinstance(n, (ast.Yield, ast.YieldFrom)):
            # must belong to this function, not a nested def/lambda
            return True
    return False


def _own_yield(fnode):
    stack = list(fnode.body)
    while stack:
        n = stack.pop()
        if isinstance(n, (ast.Yield, ast.YieldFrom)):
            return True
        if isinstance(n, (ast.FunctionDef, ast.AsyncFunctionDef, ast.Lambda, ast.ClassDef)):
            continue
        stack.extend(ast.iter_child_nodes(n))
    return False


class Interp:
    def __init__(self, ctx: Ctx | None = None):
        self.ctx = ctx or Ctx()
        self.modules = {}
        self.native_modules = {}  # name -> dict of attrs (stubs)
        self.stub_sources = {}  # module name -> path of an interpreted stub source
        self.attr_overrides = {}  # "module.attr" -> value (stubs take precedence over loaded defs)
        self.contracts = {}  # qualname -> handler(interp, func, args, kwargs) for modular calls
        self.observers = {}  # qualname -> callback(interp, func, args, kwargs, result): ghost recording only
        self.call_depth = 0
        self.max_call_depth = 200
        self.assumptions = set()
        self.exc_classes = {}
        self.builtins = {}
        self.loading = []
        self.steps = 0
        self.max_steps = int(os.environ.get("PYVC_MAX_STEPS", "20000000"))
        from .builtins import install_builtins

        install_builtins(self)

    # ================================================================ errors
    def raise_py(self, clsname, *args):
        # an IMPLICIT error (failed operation, bad index, wrong type ...) while executing code of a dependency STUB is a
        # gap or bug of the stub, not behaviour of the program under contract -> undecided.  (Exceptions a stub raises
        # deliberately with a `raise` statement model the dependency's behaviour and do not come through here.)
        ms = getattr(self, "_mod_stack", None)
        if ms and ms[-1] is not None and clsname not in ("StopIteration", "AssertionError") and getattr(self, "_attr_probe", 0) == 0:
            from .stubs import STUB_SOURCES

            if ms[-1] in STUB_SOURCES:
                raise Unsupported(f"implicit {clsname} inside stub {ms[-1]}: {args!r}"[:300])
        cls = self.exc_classes[clsname]
        exc = Obj(cls, {"args": tuple(args)})
        raise PyRaise(exc)

    def native(self, thunk):
        """run a concrete CPython operation, translating its exceptions to interpreted ones"""
        try:
            return thunk()
        except NATIVE_ERRORS as e:
            name = type(e).__name__
            if name not in self.exc_classes:
                name = "Exception"
            self.raise_py(name, *[str(a) for a in e.args])

    # ================================================================ modules
    def find_source(self, name):
        if name in self.stub_sources:
            return self.stub_sources[name]
        if name in INTERPRETED_DEPS:
            return INTERPRETED_DEPS[name]
        for root, top in ((REPO, "snaxc"), (VERIF, "contracts")):
            if name == top or name.startswith(top + "."):
                base = os.path.join(root, *name.split("."))
                if os.path.isfile(base + ".py"):
                    return base + ".py"
                if os.path.isfile(os.path.join(base, "__init__.py")):
                    return os.path.join(base, "__init__.py")
        return None

    def load_module(self, name):
        if name in self.modules:
            return self.modules[name]
        if name in self.native_modules:
            m = ModuleV(name)
            m.globals = dict(self.native_modules[name])
            m.loaded = True
            self.modules[name] = m
            self._apply_overrides(m)
            return m
        path = self.find_source(name)
        if path is None:
            m = ModuleV(name)
            m.loaded = True
            m.globals["__opaque__"] = True
            self.modules[name] = m
            self._apply_overrides(m)
            return m
        m = ModuleV(name, path)
        self.modules[name] = m
        m.globals["__name__"] = name
        with open(path) as f:
            src = f.read()
        tree = ast.parse(src, filename=path)
        m.tree = tree
        scope = Scope(None, m.globals, Frame(None))
        scope.vars = m.globals
        m.scope = scope
        self.loading.append(name)
        saved_spec = self.ctx.spec_depth
        try:
            for st in tree.body:
                try:
                    self.exec_stmt(st, scope)
                except Unsupported as e:
                    # a top-level statement we cannot model: the names it defines stay undefined.
                    m.globals.setdefault("__load_errors__", []).append((getattr(st, "lineno", 0), str(e)))
                except PyRaise as e:
                    m.globals.setdefault("__load_errors__", []).append((getattr(st, "lineno", 0), "raise " + str(e)))
        finally:
            self.loading.pop()
            self.ctx.spec_depth = saved_spec
        m.loaded = True
        self._apply_overrides(m)
        return m

    def _apply_overrides(self, m):
        pre = m.name + "."
        for k, v in self.attr_overrides.items():
            if k.startswith(pre) and "." not in k[len(pre):]:
                m.globals[k[len(pre):]] = v

    def module_attr(self, m, attr):
        if attr in m.globals:
            return m.globals[attr]
        # submodule?
        sub = m.name + "." + attr
        if sub in self.native_modules or self.find_source(sub) is not None:
            return self.load_module(sub)
        if m.globals.get("__opaque__"):
            return Opaque(m.name + "." + attr)
        if m.path is None or m.name in self.stub_sources:
            return Opaque(m.name + "." + attr)  # names a stub does not model are opaque placeholders
        self.raise_py("AttributeError", f"module {m.name} has no attribute {attr}")

    def resolve(self, dotted):
        """resolve 'pkg.mod.Class.method' to a value; 'pkg.mod.Class.method::inner' extracts the function `inner`
        defined inside `method` (mechanical extraction: it is bound to the MODULE scope only, so it must not use
        variables of the enclosing function - checked)"""
        if "::" in dotted:
            outer_q, inner = dotted.split("::", 1)
            outer = self.resolve(outer_q)
            f = outer.func if isinstance(outer, BoundMethod) else outer
            node = None
            for n in ast.walk(f.node):
                if isinstance(n, ast.FunctionDef) and n.name == inner and n is not f.node:
                    node = n
                    break
            if node is None:
                raise Unsupported(f"no nested function {inner} in {outer_q}")
            mod = self.modules[f.module]
            params = {a.arg for a in node.args.args + node.args.kwonlyargs + node.args.posonlyargs}
            stored = {x.id for x in ast.walk(node) if isinstance(x, ast.Name) and isinstance(x.ctx, ast.Store)}
            outer_locals = {x.id for x in ast.walk(f.node) if isinstance(x, ast.Name) and isinstance(x.ctx, ast.Store)} | {a.arg for a in f.node.args.args} | {
                x.name for x in ast.walk(f.node) if isinstance(x, ast.FunctionDef) and x is not f.node}
            used = {x.id for x in ast.walk(node) if isinstance(x, ast.Name) and isinstance(x.ctx, ast.Load)}
            free = (used - params - stored) & (outer_locals - {inner})
            if free:
                raise Unsupported(f"nested function {inner} uses variables of its enclosing function: {sorted(free)}")
            return self.make_function(node, mod.scope, qual=f.qualname + ".<locals>." + inner)
        parts = dotted.split(".")
        for i in range(len(parts), 0, -1):
            modname = ".".join(parts[:i])
            if modname in self.native_modules or self.find_source(modname) is not None:
                v = self.load_module(modname)
                for p in parts[i:]:
                    v = self.getattr(v, p)
                return v
        raise Unsupported(f"cannot resolve {dotted}")

    # ================================================================ statements
    def exec_block(self, stmts, scope):
        for st in stmts:
            self.exec_stmt(st, scope)

    def exec_stmt(self, st, scope):
        self.steps += 1
        if self.steps > self.max_steps:
            raise Unsupported("step budget exceeded")
        m = getattr(self, "st_" + type(st).__name__, None)
        if m is None:
            raise Unsupported(f"statement {type(st).__name__} (line {getattr(st, 'lineno', '?')})")
        return m(st, scope)

    def st_Expr(self, st, scope):
        if isinstance(st.value, ast.Constant):
            return
        self.eval(st.value, scope)

    def st_Pass(self, st, scope):
        pass

    def st_Global(self, st, scope):
        scope.frame.globals_decl.update(st.names)

    def st_Nonlocal(self, st, scope):
        scope.frame.nonlocal_decl.update(st.names)

    def st_Import(self, st, scope):
        for a in st.names:
            if a.asname:
                self.store_name(a.asname, self.load_module(a.name), scope)
            else:
                top = a.name.split(".")[0]
                self.load_module(a.name)
                self.store_name(top, self.load_module(top), scope)

    def st_ImportFrom(self, st, scope):
        modname = st.module or ""
        if st.level:
            cur = scope.globals.get("__name__", "")
            base = cur.split(".")
            # module files drop their own name first; packages (__init__.py) are their own level-1 base
            curmod = self.modules.get(cur)
            is_pkg = bool(curmod and curmod.path and curmod.path.endswith("__init__.py"))
            base = base[: len(base) - st.level + (1 if is_pkg else 0)]
            modname = ".".join(base + ([st.module] if st.module else []))
        if modname == "__future__":
            return
        m = self.load_module(modname)
        for a in st.names:
            if a.name == "*":
                for k, v in m.globals.items():
                    if not k.startswith("_"):
                        self.store_name(k, v, scope)
                continue
            v = self.module_attr(m, a.name)
            self.store_name(a.asname or a.name, v, scope)

    def st_FunctionDef(self, st, scope):
        f = self.make_function(st, scope)
        for dec in reversed(st.decorator_list):
            f = self.apply_decorator(dec, f, scope)
        self.store_name(st.name, f, scope)

    def make_function(self, node, scope, owner=None, qual=None):
        args = node.args
        defaults = [self.eval(d, scope) for d in args.defaults]
        kwdefaults = {a.arg: self.eval(d, scope) for a, d in zip(args.kwonlyargs, args.kw_defaults) if d is not None}
        modname = scope.globals.get("__name__", "?")
        name = getattr(node, "name", "<lambda>")
        if qual is None:
            pfx = scope.frame.func.qualname + ".<locals>." if (scope.frame and scope.frame.func) else modname + "."
            qual = pfx + name
        f = FuncV(node, scope, modname, qual, owner, defaults, kwdefaults)
        f.is_generator = (not isinstance(node, ast.Lambda)) and _own_yield(node)
        return f

    def apply_decorator(self, dec, f, scope):
        d = self.eval(dec, scope)
        if isinstance(d, NativeFn) or isinstance(d, (FuncV, BoundMethod, ClassV)):
            return self.call(d, [f], {})
        if isinstance(d, Opaque):
            self.assumptions.add(f"decorator {d.name} ignored (treated as identity)")
            return f
        raise Unsupported(f"decorator {d!r}")

    def st_ClassDef(self, st, scope):
        bases = []
        for b in st.bases:
            bv = self.eval(b, scope)
            if isinstance(bv, ClassV):
                bases.append(bv)
            # typing / abc / opaque library bases contribute nothing
        modname = scope.globals.get("__name__", "?")
        pfx = scope.frame.func.qualname + ".<locals>." if (scope.frame and scope.frame.func) else modname + "."
        ns = {}
        cls_scope = Scope(scope, scope.globals, scope.frame)
        cls_scope.vars = ns
        cls = ClassV(st.name, bases, ns, modname, pfx + st.name)
        cls.annotations = []
        cls.is_enum = any(b.is_enum for b in bases)
        ns["__classcell__"] = cls
        for s in st.body:
            if isinstance(s, ast.FunctionDef):
                f = self.make_function(s, scope, owner=cls, qual=cls.qualname + "." + s.name)
                for dec in reversed(s.decorator_list):
                    f = self.apply_decorator(dec, f, scope)
                ns[s.name] = f
            elif isinstance(s, ast.AnnAssign):
                if isinstance(s.target, ast.Name):
                    cls.annotations.append((s.target.id, s.annotation))
                    if s.value is not None:
                        try:
                            ns[s.target.id] = self.eval(s.value, cls_scope)
                        except Unsupported:
                            ns[s.target.id] = Opaque(f"{cls.qualname}.{s.target.id}")
            elif isinstance(s, ast.Expr) and isinstance(s.value, ast.Constant):
                continue
            else:
                try:
                    self.exec_stmt(s, cls_scope)
                except Unsupported:
                    if isinstance(s, ast.Assign) and all(isinstance(t, ast.Name) for t in s.targets):
                        for t in s.targets:
                            ns[t.id] = Opaque(f"{cls.qualname}.{t.id}")
                    else:
                        raise
        if cls.is_enum:
            self.finish_enum(cls)
        val = cls
        for dec in reversed(st.decorator_list):
            val = self.apply_decorator(dec, val, scope)
        self.store_name(st.name, val, scope)

    def finish_enum(self, cls):
        members = {}
        for k, v in list(cls.ns.items()):
            if k.startswith("_") or isinstance(v, (FuncV, PropertyV, NativeFn, ClassV)):
                continue
            if isinstance(v, Opaque) and v.name == "auto":
                v = len(members) + 1
            o = Obj(cls, {"name": k, "value": v, "_name_": k, "_value_": v})
            members[k] = o
            cls.ns[k] = o
        cls.members = members

    def st_Return(self, st, scope):
        raise ReturnSig(self.eval(st.value, scope) if st.value is not None else None)

    def st_Break(self, st, scope):
        raise BreakSig()

    def st_Continue(self, st, scope):
        raise ContinueSig()

    def st_Assign(self, st, scope):
        v = self.eval(st.value, scope)
        for t in st.targets:
            self.assign(t, v, scope)

    def st_AnnAssign(self, st, scope):
        if st.value is not None:
            self.assign(st.target, self.eval(st.value, scope), scope)

    def st_AugAssign(self, st, scope):
        t = st.target
        if isinstance(t, ast.Name):
            cur = self.load_name(t.id, scope)
            new = self.binop(type(st.op).__name__, cur, self.eval(st.value, scope), inplace=True)
            self.store_name(t.id, new, scope)
        elif isinstance(t, ast.Attribute):
            o = self.eval(t.value, scope)
            cur = self.getattr(o, t.attr)
            new = self.binop(type(st.op).__name__, cur, self.eval(st.value, scope), inplace=True)
            self.setattr(o, t.attr, new)
        elif isinstance(t, ast.Subscript):
            o = self.eval(t.value, scope)
            idx = self.eval_index(t.slice, scope)
            cur = self.getitem(o, idx)
            new = self.binop(type(st.op).__name__, cur, self.eval(st.value, scope), inplace=True)
            self.setitem(o, idx, new)
        else:
            raise Unsupported("augmented assignment target")

    def st_Delete(self, st, scope):
        for t in st.targets:
            if isinstance(t, ast.Subscript):
                o = self.eval(t.value, scope)
                idx = self.eval_index(t.slice, scope)
                self.mutating(o)
                if isinstance(o, (list, dict)) and not isinstance(idx, SV):
                    self.native(lambda: o.__delitem__(idx))
                    continue
            if isinstance(t, ast.Name):
                scope.vars.pop(t.id, None)
                continue
            raise Unsupported("del target")

    def assign(self, target, v, scope):
        if isinstance(target, ast.Name):
            self.store_name(target.id, v, scope)
        elif isinstance(target, (ast.Tuple, ast.List)):
            items = self.iterate(v)
            star = [i for i, e in enumerate(target.elts) if isinstance(e, ast.Starred)]
            if star:
                i = star[0]
                n_after = len(target.elts) - i - 1
                if len(items) < len(target.elts) - 1:
                    self.raise_py("ValueError", "not enough values to unpack")
                for e, x in zip(target.elts[:i], items[:i]):
                    self.assign(e, x, scope)
                self.assign(target.elts[i].value, list(items[i : len(items) - n_after]), scope)
                for e, x in zip(target.elts[i + 1 :], items[len(items) - n_after :]):
                    self.assign(e, x, scope)
            else:
                if len(items) != len(target.elts):
                    self.raise_py("ValueError", f"unpack: expected {len(target.elts)} values, got {len(items)}")
                for e, x in zip(target.elts, items):
                    self.assign(e, x, scope)
        elif isinstance(target, ast.Attribute):
            self.setattr(self.eval(target.value, scope), target.attr, v)
        elif isinstance(target, ast.Subscript):
            o = self.eval(target.value, scope)
            self.setitem(o, self.eval_index(target.slice, scope), v)
        elif isinstance(target, ast.Starred):
            self.assign(target.value, v, scope)
        else:
            raise Unsupported(f"assignment target {type(target).__name__}")

    def store_name(self, name, v, scope):
        fr = scope.frame
        if fr is not None and name in fr.globals_decl:
            scope.globals[name] = v
            return
        if fr is not None and name in fr.nonlocal_decl:
            s = scope.parent
            while s is not None:
                if name in s.vars and s.vars is not s.globals:
                    s.vars[name] = v
                    return
                s = s.parent
        scope.vars[name] = v

    def load_name(self, name, scope):
        s = scope
        while s is not None:
            if name in s.vars:
                return s.vars[name]
            s = s.parent
        if name in scope.globals:
            return scope.globals[name]
        if name in self.builtins:
            return self.builtins[name]
        self.raise_py("NameError", f"name '{name}' is not defined")

    # ---------------------------------------------------------------- control flow
    def st_If(self, st, scope):
        c = self.eval(st.test, scope)
        cz = self.cond_term(c)
        if isinstance(cz, bool):
            self.exec_block(st.body if cz else st.orelse, scope)
            return
        # symbolic condition: try if-conversion, else fork
        if self.try_merge_if(cz, st.body, st.orelse, scope):
            return
        if self.ctx.decide(cz):
            self.exec_block(st.body, scope)
        else:
            self.exec_block(st.orelse, scope)

    def cond_term(self, v):
        """python bool when concrete, z3 Bool when symbolic scalar; objects -> truth() (may call __bool__/__len__)"""
        if isinstance(v, SV):
            return ops.zbool(v)
        if isinstance(v, (bool, int, str, type(None), float, tuple, list, dict, set, frozenset, range)):
            return bool(v)
        return self.truth_value(v)

    def truth_value(self, v):
        """truthiness as python bool or z3 Bool, without forking"""
        if isinstance(v, SV):
            return ops.zbool(v)
        if isinstance(v, Obj):
            f, _ = v.cls.lookup("__bool__")
            if f is not None:
                return self.cond_term(self.call(BoundMethod(f, v), [], {}))
            f, _ = v.cls.lookup("__len__")
            if f is not None:
                n = self.call(BoundMethod(f, v), [], {})
                return self.cond_term(ops.sym_compare("NotEq", n, 0) if isinstance(n, SV) else n != 0)
            return True
        if isinstance(v, Opaque):
            raise Unsupported(f"truth value of opaque {v.name}")
        if isinstance(v, NativeObj):
            if hasattr(v, "_truth"):
                return v._truth(self)
            return True
        if isinstance(v, GenList):
            return True
        return bool(v)

    def truth(self, v):
        """python bool, forking on symbolic conditions"""
        cz = self.cond_term(v)
        if isinstance(cz, bool):
            return cz
        return self.ctx.decide(cz)

    # speculation ------------------------------------------------------
    def speculate(self, cond, thunk):
        """run thunk under PC+cond without forking or visible mutation. Returns its result or raises MergeFail."""
        ctx = self.ctx
        n_pc = len(ctx.pc)
        n_pending = len(ctx.pending)
        ctx.solver.push()
        ctx.pc.append(cond)
        ctx.solver.add(cond)
        ctx.spec_depth += 1
        ctx.spec_fresh.append([])
        ok = False
        try:
            r = thunk()
            ok = True
            return r
        except MergeFail:
            raise
        except (ReturnSig, BreakSig, ContinueSig, PyRaise, PathAbort, Unsupported):
            raise MergeFail("control transfer in speculation")
        finally:
            ctx.spec_depth -= 1
            fresh = ctx.spec_fresh.pop()
            if ok and ctx.spec_fresh:
                ctx.spec_fresh[-1].extend(fresh)
            del ctx.pc[n_pc:]
            ctx.solver.pop()
            if not ok:
                del ctx.pending[n_pending:]
            else:
                # obligations recorded inside carry their own PC snapshot (incl. cond): keep
                pass

    def mutating(self, obj):
        ctx = self.ctx
        if ctx.spec_depth > 0:
            for lst in ctx.spec_fresh:
                for o in lst:
                    if o is obj:
                        return
            raise MergeFail("mutation of a pre-existing object in speculation")

    def note_fresh(self, obj):
        if self.ctx.spec_depth > 0:
            self.ctx.spec_fresh[-1].append(obj)
        return obj

    def merge_values(self, cz, a, b):
        if a is b:
            return a
        if isinstance(a, (bool, int, SV)) and isinstance(b, (bool, int, SV)):
            abool = isinstance(a, bool) or (isinstance(a, SV) and a.is_bool)
            bbool = isinstance(b, bool) or (isinstance(b, SV) and b.is_bool)
            if abool and bbool:
                return ops.simp(z3.If(cz, ops.zbool(a), ops.zbool(b)))
            bv = ops._bv_pair(a, b) if (isinstance(a, SV) or isinstance(b, SV)) else None
            if bv is not None:
                return ops.simp(z3.If(cz, bv[0], bv[1]))
            if not isinstance(a, SV) and not isinstance(b, SV) and a == b and type(a) is type(b):
                return a
            return ops.simp(z3.If(cz, ops.zint(a), ops.zint(b)))
        if isinstance(a, tuple) and isinstance(b, tuple) and len(a) == len(b):
            return tuple(self.merge_values(cz, x, y) for x, y in zip(a, b))
        if isinstance(a, str) and isinstance(b, str) and a == b:
            return a
        if a is None and b is None:
            return None
        if isinstance(a, NativeObj) and hasattr(a, "_merge"):
            r = a._merge(self, cz, b)
            if r is not None:
                return r
        raise MergeFail(f"cannot merge {type(a).__name__} / {type(b).__name__}")

    def try_merge_if(self, cz, body, orelse, scope):
        if os.environ.get("PYVC_NO_MERGE"):
            return False
        base = dict(scope.vars)

        def run(stmts):
            scope.vars = dict(base)
            try:
                self.exec_block(stmts, scope)
                return scope.vars
            finally:
                pass

        saved_vars = scope.vars
        try:
            try:
                v_then = self.speculate(cz, lambda: run(body))
                v_else = self.speculate(z3.Not(cz), lambda: run(orelse))
            finally:
                scope.vars = saved_vars
            merged = {}
            for k in set(v_then) | set(v_else):
                if k in v_then and k in v_else:
                    a, b = v_then[k], v_else[k]
                    if a is b:
                        if k not in base or base[k] is not a:
                            merged[k] = a
                        continue
                    merged[k] = self.merge_values(cz, a, b)
                else:
                    raise MergeFail("variable defined on one side only")
        except MergeFail:
            return False
        # module-level dicts alias scope.vars; update in place
        saved_vars.update(merged)
        return True

    def st_While(self, st, scope):
        n = 0
        while True:
            n += 1
            if n > 100000:
                raise Unsupported("while loop bound")
            if not self.truth(self.eval(st.test, scope)):
                self.exec_block(st.orelse, scope)
                return
            try:
                self.exec_block(st.body, scope)
            except BreakSig:
                return
            except ContinueSig:
                continue

    def st_For(self, st, scope):
        it = self.eval(st.iter, scope)
        hook = getattr(self, "loop_hook", None)
        if hook is not None:
            if hook(self, st, it, scope):
                return
        items = self.iterate(it, lazy=True)
        broke = False
        for x in items:
            self.assign(st.target, x, scope)
            try:
                self.exec_block(st.body, scope)
            except BreakSig:
                broke = True
                break
            except ContinueSig:
                continue
        if not broke:
            self.exec_block(st.orelse, scope)

    def st_Assert(self, st, scope):
        c = self.eval(st.test, scope)
        if not self.truth(c):
            msg = self.eval(st.msg, scope) if st.msg is not None else ""
            self.raise_py("AssertionError", msg)

    def st_Raise(self, st, scope):
        if st.exc is None:
            cur = getattr(scope.frame, "_handling", None)
            if cur is not None:
                raise PyRaise(cur)
            raise Unsupported("bare raise outside handler")
        e = self.eval(st.exc, scope)
        if isinstance(e, ClassV):
            e = self.call(e, [], {})
        if isinstance(e, Obj) and e.cls.issubclass(self.exc_classes["BaseException"]):
            raise PyRaise(e)
        if isinstance(e, Opaque):
            # unknown (library) exception type
            raise PyRaise(Obj(self.exc_classes["Exception"], {"args": (e.name,)}))
        raise Unsupported(f"raise of {e!r}")

    def st_Try(self, st, scope):
        try:
            try:
                self.exec_block(st.body, scope)
            except PyRaise as pr:
                for h in st.handlers:
                    if h.type is None:
                        match = True
                    else:
                        t = self.eval(h.type, scope)
                        ts = t if isinstance(t, tuple) else (t,)
                        match = any(isinstance(c, ClassV) and pr.exc.cls.issubclass(c) for c in ts)
                    if match:
                        if h.name:
                            self.store_name(h.name, pr.exc, scope)
                        self.exec_block(h.body, scope)
                        break
                else:
                    raise
            else:
                self.exec_block(st.orelse, scope)
        finally:
            if st.finalbody:
                self.exec_block(st.finalbody, scope)

    def st_With(self, st, scope):
        exits = []
        for item in st.items:
            cm = self.eval(item.context_expr, scope)
            val = cm
            if isinstance(cm, Obj):
                f, _ = cm.cls.lookup("__enter__")
                if f is not None:
                    val = self.call(BoundMethod(f, cm), [], {})
                    exits.append(cm)
            elif isinstance(cm, NativeObj) and hasattr(cm, "__enter__"):
                val = cm.__enter__()
                exits.append(cm)
            if item.optional_vars is not None:
                self.assign(item.optional_vars, val, scope)
        try:
            self.exec_block(st.body, scope)
        finally:
            for cm in reversed(exits):
                if isinstance(cm, Obj):
                    f, _ = cm.cls.lookup("__exit__")
                    if f is not None:
                        self.call(BoundMethod(f, cm), [None, None, None], {})
                else:
                    cm.__exit__(None, None, None)

    # ---------------------------------------------------------------- match
    def st_Match(self, st, scope):
        subj = self.eval(st.subject, scope)
        for case in st.cases:
            binds = {}
            if self.match_pattern(case.pattern, subj, binds, scope):
                for k, v in binds.items():
                    self.store_name(k, v, scope)
                if case.guard is not None and not self.truth(self.eval(case.guard, scope)):
                    continue
                self.exec_block(case.body, scope)
                return

    def match_pattern(self, p, v, binds, scope):
        if isinstance(p, ast.MatchAs):
            if p.pattern is not None and not self.match_pattern(p.pattern, v, binds, scope):
                return False
            if p.name:
                binds[p.name] = v
            return True
        if isinstance(p, ast.MatchValue):
            return self.truth(self.eq(v, self.eval(p.value, scope)))
        if isinstance(p, ast.MatchSingleton):
            return v is p.value
        if isinstance(p, ast.MatchOr):
            for alt in p.patterns:
                b2 = {}
                if self.match_pattern(alt, v, b2, scope):
                    binds.update(b2)
                    return True
            return False
        if isinstance(p, ast.MatchClass):
            cls = self.eval(p.cls, scope)
            if not self.truth(self.isinstance(v, cls)):
                return False
            if p.patterns:
                ma = None
                if isinstance(cls, ClassV):
                    ma, _ = cls.lookup("__match_args__")
                    if ma is None and cls.is_dataclass:
                        ma = tuple(n for n, _ in self.dataclass_fields(cls))
                if ma is None:
                    if len(p.patterns) == 1 and cls in (self.builtins.get("int"), self.builtins.get("str")):
                        if not self.match_pattern(p.patterns[0], v, binds, scope):
                            return False
                    else:
                        raise Unsupported("positional class pattern without __match_args__")
                else:
                    for name, sp in zip(ma, p.patterns):
                        if not self.match_pattern(sp, self.getattr(v, name), binds, scope):
                            return False
            for name, sp in zip(p.kwd_attrs, p.kwd_patterns):
                if not self.match_pattern(sp, self.getattr(v, name), binds, scope):
                    return False
            return True
        if isinstance(p, ast.MatchSequence):
            if not isinstance(v, (list, tuple)):
                return False
            star = [i for i, e in enumerate(p.patterns) if isinstance(e, ast.MatchStar)]
            if star:
                i = star[0]
                n_after = len(p.patterns) - i - 1
                if len(v) < len(p.patterns) - 1:
                    return False
                for sp, x in zip(p.patterns[:i], v[:i]):
                    if not self.match_pattern(sp, x, binds, scope):
                        return False
                if p.patterns[i].name:
                    binds[p.patterns[i].name] = list(v[i : len(v) - n_after])
                for sp, x in zip(p.patterns[i + 1 :], v[len(v) - n_after :]):
                    if not self.match_pattern(sp, x, binds, scope):
                        return False
                return True
            if len(v) != len(p.patterns):
                return False
            return all(self.match_pattern(sp, x, binds, scope) for sp, x in zip(p.patterns, v))
        raise Unsupported(f"match pattern {type(p).__name__}")

    # ================================================================ expressions
    def eval(self, e, scope):
        m = getattr(self, "ex_" + type(e).__name__, None)
        if m is None:
            raise Unsupported(f"expression {type(e).__name__}")
        return m(e, scope)

    def ex_Constant(self, e, scope):
        if e.value is Ellipsis:
            return Opaque("...")
        return e.value

    def ex_Name(self, e, scope):
        return self.load_name(e.id, scope)

    def ex_Tuple(self, e, scope):
        return tuple(self.eval_elts(e.elts, scope))

    def ex_List(self, e, scope):
        return self.note_fresh(self.eval_elts(e.elts, scope))

    def ex_Set(self, e, scope):
        xs = self.eval_elts(e.elts, scope)
        return self.note_fresh(self.native(lambda: set(xs)))

    def eval_elts(self, elts, scope):
        out = []
        for x in elts:
            if isinstance(x, ast.Starred):
                out.extend(self.iterate(self.eval(x.value, scope)))
            else:
                out.append(self.eval(x, scope))
        return out

    def ex_Dict(self, e, scope):
        d = {}
        for k, v in zip(e.keys, e.values):
            if k is None:
                src = self.eval(v, scope)
                if isinstance(src, dict):
                    d.update(src)
                else:
                    for kk in self.iterate(src):
                        d[kk] = self.getitem(src, kk)
            else:
                kk = self.eval(k, scope)
                self.check_key(kk)
                d[kk] = self.eval(v, scope)
        return self.note_fresh(d)

    def check_key(self, k):
        if isinstance(k, (SV, SymStr)):
            raise Unsupported("symbolic dictionary key")
        if isinstance(k, tuple):
            for x in k:
                self.check_key(x)

    def ex_JoinedStr(self, e, scope):
        parts = []
        symbolic = False
        for v in e.values:
            if isinstance(v, ast.Constant):
                parts.append(str(v.value))
            else:
                x = self.eval(v.value, scope)
                s = self.to_str(x)
                if isinstance(s, SymStr):
                    symbolic = True
                if v.format_spec is not None and not isinstance(s, SymStr):
                    spec = self.eval(v.format_spec, scope)
                    if isinstance(x, (int, float, str)):
                        s = format(x, spec)
                parts.append(s)
        r = "".join(parts)
        return SymStr(r) if symbolic else r

    def ex_FormattedValue(self, e, scope):
        return self.to_str(self.eval(e.value, scope))

    def to_str(self, x):
        if isinstance(x, SymStr):
            return x
        if isinstance(x, SV):
            return SymStr(f"<{x.t}>")
        if isinstance(x, Obj):
            f, _ = x.cls.lookup("__str__")
            if f is None:
                f, _ = x.cls.lookup("__repr__")
            if f is not None and x.cls.lookup("__str__")[1] not in (None,):
                try:
                    r = self.call(BoundMethod(f, x), [], {})
                    if isinstance(r, str):
                        return r
                except Unsupported:
                    pass
            if x.cls.is_enum:
                v = x.fields.get("value")
                for c in x.cls.mro:
                    if c.name == "StrEnum":
                        return str(v)
                return f"{x.cls.name}.{x.fields.get('name')}"
            return SymStr(f"<{x.cls.name} object>")
        if isinstance(x, (list, tuple, dict)):
            def has_sym(y):
                if isinstance(y, (SV, Obj, SymStr)):
                    return True
                if isinstance(y, (list, tuple)):
                    return any(has_sym(z) for z in y)
                if isinstance(y, dict):
                    return any(has_sym(z) for z in y.values())
                return False
            if has_sym(x):
                return SymStr("<container with symbolic parts>")
            return str(x)
        if isinstance(x, (Opaque, NativeObj, ClassV, FuncV, BoundMethod, NativeFn, GenList, ModuleV)):
            return SymStr(repr(x))
        return str(x)

    def ex_UnaryOp(self, e, scope):
        v = self.eval(e.operand, scope)
        op = type(e.op).__name__
        if op == "Not":
            cz = self.cond_term(v)
            if isinstance(cz, bool):
                return not cz
            return ops.simp(z3.Not(cz))
        if isinstance(v, SV):
            if op == "USub":
                if v.is_bv:
                    return ops.simp(-v.t)
                return ops.simp(-ops.zint(v))
            if op == "UAdd":
                return ops.simp(ops.zint(v))
            if op == "Invert":
                if v.is_bv:
                    return ops.simp(~v.t)
                return ops.simp(-ops.zint(v) - 1)
        if isinstance(v, Obj):
            name = {"USub": "__neg__", "UAdd": "__pos__", "Invert": "__invert__"}[op]
            f, _ = v.cls.lookup(name)
            if f is not None:
                return self.call(BoundMethod(f, v), [], {})
        if isinstance(v, NativeObj):
            return v._unop(self, op)
        if isinstance(v, (int, float, bool)):
            return {"USub": lambda x: -x, "UAdd": lambda x: +x, "Invert": lambda x: ~x}[op](v)
        raise Unsupported(f"unary {op} on {type(v).__name__}")

    def ex_BinOp(self, e, scope):
        a = self.eval(e.left, scope)
        b = self.eval(e.right, scope)
        return self.binop(type(e.op).__name__, a, b)

    DUNDER = {
        "Add": "add", "Sub": "sub", "Mult": "mul", "FloorDiv": "floordiv", "Mod": "mod", "Pow": "pow",
        "MatMult": "matmul", "BitOr": "or", "BitAnd": "and", "BitXor": "xor", "LShift": "lshift",
        "RShift": "rshift", "Div": "truediv",
    }

    def binop(self, op, a, b, inplace=False):
        if isinstance(a, NativeObj):
            r = a._binop(self, op, b, False)
            if r is not NotImplemented:
                if inplace and hasattr(a, "_assign_inplace"):
                    self.mutating(a)
                    return a._assign_inplace(self, r)
                return r
        if isinstance(b, NativeObj):
            r = b._binop(self, op, a, True)
            if r is not NotImplemented:
                return r
        if isinstance(a, Obj) or isinstance(b, Obj):
            d = self.DUNDER[op]
            if isinstance(a, Obj):
                f = None
                if inplace:
                    f, _ = a.cls.lookup(f"__i{d}__")
                if f is None:
                    f, _ = a.cls.lookup(f"__{d}__")
                if f is not None:
                    r = self.call(BoundMethod(f, a), [b], {})
                    if r is not NOT_IMPLEMENTED:
                        return r
            if isinstance(b, Obj):
                f, _ = b.cls.lookup(f"__r{d}__")
                if f is not None:
                    r = self.call(BoundMethod(f, b), [a], {})
                    if r is not NOT_IMPLEMENTED:
                        return r
            self.raise_py("TypeError", f"unsupported operand type(s) for {op}")
        if op == "BitOr" and (isinstance(a, (ClassV, Opaque, NativeFn)) or isinstance(b, (ClassV, Opaque, NativeFn)) or a is None or b is None):
            # type union `X | Y` (annotations, isinstance)
            la = a if isinstance(a, tuple) else (a,)
            lb = b if isinstance(b, tuple) else (b,)
            return tuple(la) + tuple(lb)
        if isinstance(a, SV) or isinstance(b, SV):
            if op == "Mult" and isinstance(a, (list, tuple, str)) or isinstance(b, (list, tuple, str)):
                raise Unsupported("sequence repetition by symbolic count")
            return ops.sym_binop(self, op, a, b)
        if isinstance(a, Opaque) or isinstance(b, Opaque):
            if self.loading:
                return Opaque(f"({a!r} {op} {b!r})")
            raise Unsupported(f"binary {op} on opaque value {a!r} / {b!r}")
        if op == "Mod" and isinstance(a, str):
            raise Unsupported("%-formatting")
        if op == "Add" and isinstance(a, str) and isinstance(b, str) and (isinstance(a, SymStr) or isinstance(b, SymStr)):
            return SymStr(str.__add__(a, b))  # a string with symbolic parts stays marked (never a dictionary key)
        if isinstance(a, list) and isinstance(b, list) and op == "Add":
            if inplace:
                self.mutating(a)
                a.extend(b)
                return a
            return self.note_fresh(a + b)
        if isinstance(a, (list,)) and op == "Mult":
            return self.note_fresh(self.native(lambda: a * b))
        if isinstance(b, (list,)) and op == "Mult":
            return self.note_fresh(self.native(lambda: a * b))
        if isinstance(a, (dict, set)) and inplace:
            self.mutating(a)
        f = ops.ARITH[op]
        return self.native(lambda: f(a, b))

    def ex_BoolOp(self, e, scope):
        is_and = isinstance(e.op, ast.And)
        vals = e.values
        cur = self.eval(vals[0], scope)
        for i in range(1, len(vals)):
            cz = self.cond_term(cur)
            if isinstance(cz, bool):
                if cz != is_and:  # short-circuit: and with False / or with True
                    return cur
                cur = self.eval(vals[i], scope)
                continue
            # symbolic left operand
            guard = cz if is_and else z3.Not(cz)
            nxt = _MISSING
            if not os.environ.get("PYVC_NO_MERGE"):
                try:
                    rest = vals[i]
                    nxt = self.speculate(guard, lambda: self.eval(rest, scope))
                    if not self._boolish(nxt) or not self._boolish(cur):
                        # value-returning and/or: merge values
                        if is_and:
                            nxt2 = self.merge_values(cz, nxt, cur)
                        else:
                            nxt2 = self.merge_values(cz, cur, nxt)
                        cur = nxt2
                        continue
                except MergeFail:
                    nxt = _MISSING
            if nxt is _MISSING:
                if self.ctx.decide(guard):
                    cur = self.eval(vals[i], scope)
                    continue
                return cur
            nz = self.cond_term(nxt) if not isinstance(nxt, (bool, SV)) else (nxt if isinstance(nxt, bool) else ops.zbool(nxt))
            if is_and:
                cur = ops.r_and([SV(cz), nxt if isinstance(nxt, (bool, SV)) else nz])
            else:
                cur = ops.r_or([SV(cz), nxt if isinstance(nxt, (bool, SV)) else nz])
        return cur

    @staticmethod
    def _boolish(v):
        return isinstance(v, bool) or (isinstance(v, SV) and v.is_bool)

    def ex_IfExp(self, e, scope):
        c = self.eval(e.test, scope)
        cz = self.cond_term(c)
        if isinstance(cz, bool):
            return self.eval(e.body if cz else e.orelse, scope)
        if not os.environ.get("PYVC_NO_MERGE"):
            try:
                a = self.speculate(cz, lambda: self.eval(e.body, scope))
                b = self.speculate(z3.Not(cz), lambda: self.eval(e.orelse, scope))
                return self.merge_values(cz, a, b)
            except MergeFail:
                pass
        if self.ctx.decide(cz):
            return self.eval(e.body, scope)
        return self.eval(e.orelse, scope)

    def ex_NamedExpr(self, e, scope):
        v = self.eval(e.value, scope)
        # walrus binds in the enclosing function scope (not the comprehension scope)
        s = scope
        while getattr(s, "_comp", False) and s.parent is not None:
            s = s.parent
        self.store_name(e.target.id, v, s)
        return v

    def ex_Lambda(self, e, scope):
        return self.make_function(e, scope)

    def ex_Compare(self, e, scope):
        left = self.eval(e.left, scope)
        results = []
        for op, rn in zip(e.ops, e.comparators):
            right = self.eval(rn, scope)
            r = self.compare(type(op).__name__, left, right)
            if isinstance(r, bool):
                if not r:
                    return ops.r_and(results + [False]) if False else False
            results.append(r)
            left = right
        if len(results) == 1:
            return results[0]
        return ops.r_and(results)

    def compare(self, op, a, b):
        if op == "Is":
            return self.identical(a, b)
        if op == "IsNot":
            return ops.r_not(self.identical(a, b))
        if op == "In":
            return self.contains(b, a)
        if op == "NotIn":
            return ops.r_not(self.contains(b, a))
        if op == "Eq":
            return self.eq(a, b)
        if op == "NotEq":
            if isinstance(a, NativeObj):
                return a._compare(self, "NotEq", b, False)
            if isinstance(b, NativeObj):
                return b._compare(self, "NotEq", a, True)
            if isinstance(a, Obj):
                f, _ = a.cls.lookup("__ne__")
                if f is not None:
                    return self.call(BoundMethod(f, a), [b], {})
            return ops.r_not(self.eq(a, b))
        # ordering
        if isinstance(a, NativeObj):
            return a._compare(self, op, b, False)
        if isinstance(b, NativeObj):
            return b._compare(self, op, a, True)
        if isinstance(a, SV) or isinstance(b, SV):
            return ops.sym_compare(op, a, b)
        if isinstance(a, Obj):
            name = {"Lt": "__lt__", "LtE": "__le__", "Gt": "__gt__", "GtE": "__ge__"}[op]
            f, _ = a.cls.lookup(name)
            if f is not None:
                return self.call(BoundMethod(f, a), [b], {})
            raise Unsupported(f"ordering on {a.cls.name}")
        if isinstance(a, (tuple, list)) and isinstance(b, (tuple, list)) and self._has_sym(a, b):
            raise Unsupported("ordering of sequences with symbolic elements")
        if isinstance(a, Opaque) or isinstance(b, Opaque):
            raise Unsupported("ordering on opaque value")
        import operator as _o

        f = {"Lt": _o.lt, "LtE": _o.le, "Gt": _o.gt, "GtE": _o.ge}[op]
        return self.native(lambda: f(a, b))

    def _has_sym(self, *vs):
        for v in vs:
            if isinstance(v, (SV, Obj, NativeObj)):
                return True
            if isinstance(v, (list, tuple)) and self._has_sym(*v):
                return True
        return False

    def identical(self, a, b):
        if isinstance(a, Obj) and isinstance(b, Obj) and (a.tag is not None or b.tag is not None):
            # objects with symbolic identity tags (views)
            if a.tag is not None and b.tag is not None:
                return ops.sym_eq(a.tag, b.tag) if (isinstance(a.tag, SV) or isinstance(b.tag, SV)) else a.tag == b.tag
            return False
        if isinstance(a, SV) or isinstance(b, SV):
            if a is None or b is None:
                return False
            if isinstance(a, SV) and isinstance(b, SV):
                return a is b or ops.sym_eq(a, b)
            # `x is True` on symbolic bool
            s, o = (a, b) if isinstance(a, SV) else (b, a)
            if isinstance(o, bool) and s.is_bool:
                return ops.sym_eq(s, o)
            if isinstance(o, int) and not isinstance(o, bool) and s.is_int:
                return ops.sym_eq(s, o)
            return False
        if isinstance(a, (int, str)) and isinstance(b, (int, str)) and type(a) is type(b):
            return a == b  # small-int / interned-string identity is an implementation detail
        return a is b

    def eq(self, a, b):
        """== as python bool or SV bool"""
        if isinstance(a, NativeObj):
            return a._compare(self, "Eq", b, False)
        if isinstance(b, NativeObj):
            return b._compare(self, "Eq", a, True)
        if isinstance(a, Obj) or isinstance(b, Obj):
            if isinstance(a, Obj):
                r = self.obj_eq(a, b)
                if r is not NOT_IMPLEMENTED:
                    return r
            if isinstance(b, Obj):
                r = self.obj_eq(b, a)
                if r is not NOT_IMPLEMENTED:
                    return r
            return self.identical(a, b)
        if isinstance(a, SV) or isinstance(b, SV):
            return ops.sym_eq(a, b)
        if isinstance(a, (list, tuple)) and isinstance(b, (list, tuple)):
            if type(a) is not type(b) or len(a) != len(b):
                return False
            return ops.r_and([self.eq(x, y) for x, y in zip(a, b)])
        if isinstance(a, dict) and isinstance(b, dict):
            if set(a.keys()) != set(b.keys()):
                return False
            return ops.r_and([self.eq(a[k], b[k]) for k in a])
        if isinstance(a, GenList) or isinstance(b, GenList):
            return a is b
        if isinstance(a, (Opaque, ClassV, FuncV)) or isinstance(b, (Opaque, ClassV, FuncV)):
            return a is b
        try:
            return bool(a == b)
        except Unsupported:
            raise
        except Exception:
            return a is b

    def obj_eq(self, a, b):
        f, owner = a.cls.lookup("__eq__")
        if f is not None:
            r = self.call(BoundMethod(f, a), [b], {})
            return r
        if a.cls.is_dataclass:
            if not isinstance(b, Obj) or b.cls is not a.cls:
                return NOT_IMPLEMENTED
            names = [n for n, _ in self.dataclass_fields(a.cls)]
            return ops.r_and([self.eq(a.fields.get(n), b.fields.get(n)) for n in names])
        if a.cls.is_enum:
            return a is b
        return NOT_IMPLEMENTED

    def contains(self, container, x):
        if isinstance(container, NativeObj):
            return container._contains(self, x)
        if isinstance(container, Obj):
            f, _ = container.cls.lookup("__contains__")
            if f is not None:
                return self.call(BoundMethod(f, container), [x], {})
            items = self.iterate(container)
            return ops.r_or([ops.r_or([self.identical(x, y), self.eq(x, y)]) for y in items])
        if isinstance(container, dict):
            if self._has_sym(x) and not isinstance(x, Obj):
                return ops.r_or([self.eq(x, k) for k in container])
            self.check_key(x)
            if isinstance(x, Obj):
                return any(k is x for k in container)
            return self.native(lambda: x in container)
        if isinstance(container, (set, frozenset)):
            if self._has_sym(x):
                return ops.r_or([self.eq(x, y) for y in container])
            return self.native(lambda: x in container)
        if isinstance(container, str):
            if isinstance(x, SymStr) or isinstance(container, SymStr):
                raise Unsupported("substring test on symbolic string")
            return self.native(lambda: x in container)
        if isinstance(container, (list, tuple, GenList, range)):
            if isinstance(container, range) and not isinstance(x, SV):
                return x in container
            if isinstance(container, range):
                if container.step == 1:
                    return ops.r_and([ops.sym_compare("GtE", x, container.start), ops.sym_compare("Lt", x, container.stop)])
                raise Unsupported("symbolic in stepped range")
            items = self.iterate(container)
            rs = []
            for y in items:
                r = self.identical(x, y) if isinstance(x, Obj) and isinstance(y, Obj) and x is y else self.eq(x, y)
                if r is True:
                    return True
                rs.append(r)
            return ops.r_or(rs)
        if isinstance(container, Opaque):
            raise Unsupported(f"membership in opaque {container.name}")
        raise Unsupported(f"membership in {type(container).__name__}")

    # ---------------------------------------------------------------- attribute / subscript
    def ex_Attribute(self, e, scope):
        return self.getattr(self.eval(e.value, scope), e.attr)

    def _stub_gap(self, cls, name):
        """a missing attribute on an object whose class comes (also) from a STUB of a dependency says nothing about the
        code under contract: the stub simply does not model it -> undecided, never an AttributeError of the program"""
        from .stubs import STUB_SOURCES

        if getattr(self, "_attr_probe", 0) > 0:
            return
        for c in cls.mro:
            if getattr(c, "module", None) in STUB_SOURCES:
                raise Unsupported(f"stub {c.module}.{c.name} does not model attribute '{name}' (needed on a {cls.name})")

    def getattr(self, v, name, default=_MISSING):
        if isinstance(v, Obj):
            if name in v.fields:
                return v.fields[name]
            a, owner = v.cls.lookup(name)
            if a is not None or owner is not None:
                return self.bind(a, v, v.cls)
            if name == "__class__":
                return v.cls
            if name == "__dict__":
                return v.fields
            ga, _ = v.cls.lookup("__getattr__")
            if ga is not None:
                return self.call(BoundMethod(ga, v), [name], {})
            if v.cls.issubclass(self.exc_classes["BaseException"]) and name == "args":
                return ()
            if default is not _MISSING:
                return default
            self._stub_gap(v.cls, name)
            self.raise_py("AttributeError", f"'{v.cls.name}' object has no attribute '{name}'")
        if isinstance(v, ClassV):
            a, owner = v.lookup(name)
            if a is not None or owner is not None:
                if isinstance(a, FuncV):
                    if a.kind == "classmethod":
                        return BoundMethod(a, v)
                    return a
                return a
            if name == "__name__":
                return v.name
            if name == "__qualname__":
                return v.qualname
            if name == "__members__" and v.is_enum:
                return v.members
            if default is not _MISSING:
                return default
            self._stub_gap(v, name)
            self.raise_py("AttributeError", f"type object '{v.name}' has no attribute '{name}'")
        if isinstance(v, list) and name in ("first", "last"):
            # xdsl's BlockOps view (`block.ops.first` / `.last`); the IR stubs keep the ops of a block in a plain list
            return (v[0] if name == "first" else v[-1]) if len(v) > 0 else None
        if isinstance(v, ModuleV):
            return self.module_attr(self.load_module(v.name) if not v.loaded and v.name not in self.loading else v, name)
        if isinstance(v, NativeObj):
            try:
                r = getattr(v, name)
            except AttributeError:
                if default is not _MISSING:
                    return default
                self.raise_py("AttributeError", f"{type(v).__name__} has no attribute {name}")
            if callable(r) and not isinstance(r, (NativeFn, NativeObj, Obj, ClassV, FuncV, BoundMethod)):
                return NativeFn(r, f"{type(v).__name__}.{name}", wants_interp=False)
            return r
        if isinstance(v, Opaque):
            if self.loading or getattr(self, "permissive_opaque", False):
                return Opaque(f"{v.name}.{name}")
            raise Unsupported(f"attribute {name} of opaque {v.name}")
        if isinstance(v, BoundMethod):
            if name == "__self__":
                return v.self
            if name == "__func__":
                return v.func
        if isinstance(v, FuncV):
            if name == "__name__":
                return v.name
            if name == "__qualname__":
                return v.qualname
        m = self.native_method(v, name)
        if m is not None:
            return m
        if default is not _MISSING:
            return default
        raise Unsupported(f"attribute {name} on {type(v).__name__}")

    def bind(self, a, obj, cls):
        if type(a).__name__ == "Def" and getattr(a, "kind", None) == "operand" and isinstance(obj, Obj) and "_opsegs" in obj.fields:
            from .stubs.irdl import named_operand

            # find the declared name this Def is bound to (class namespaces along the MRO)
            for c in obj.cls.mro:
                for n, v in c.ns.items():
                    if v is a:
                        return named_operand(self, obj, n)
        if isinstance(a, FuncV):
            if a.kind == "staticmethod":
                return a
            if a.kind == "classmethod":
                return BoundMethod(a, cls)
            return BoundMethod(a, obj)
        if isinstance(a, PropertyV):
            return self.call(a.fget, [obj], {})
        if isinstance(a, NativeFn) and getattr(a, "name", "").startswith("method:"):
            return BoundMethod(a, obj)
        return a

    def setattr(self, v, name, val):
        if isinstance(v, Obj):
            self.mutating(v)
            a, _ = v.cls.lookup(name)
            if isinstance(a, PropertyV) and getattr(a, "fset", None) is not None:
                self.call(a.fset, [v, val], {})
                return
            if v.cls.frozen and not getattr(self, "_in_dc_init", False):
                self.raise_py("FrozenInstanceError", f"cannot assign to field '{name}'")
            v.fields[name] = val
            return
        if isinstance(v, ClassV):
            self.mutating(v)
            v.ns[name] = val
            return
        if isinstance(v, NativeObj):
            self.mutating(v)
            setattr(v, name, val)
            return
        if isinstance(v, Opaque) and self.loading:
            return
        raise Unsupported(f"attribute assignment on {type(v).__name__}")

    def ex_Subscript(self, e, scope):
        v = self.eval(e.value, scope)
        if isinstance(v, (ClassV, Opaque)) and not isinstance(v, Obj):
            # generic alias `Base[T]`
            if isinstance(v, ClassV):
                f, _ = v.lookup("__class_getitem__")
                if f is None:
                    return v
            else:
                if self.loading or getattr(self, "permissive_opaque", False):
                    return v
        if isinstance(v, NativeFn):
            return v  # generic alias: list[int], Sequence[P], Callable[..., T]
        idx = self.eval_index(e.slice, scope)
        return self.getitem(v, idx)

    def eval_index(self, s, scope):
        if isinstance(s, ast.Slice):
            return slice(
                self.eval(s.lower, scope) if s.lower is not None else None,
                self.eval(s.upper, scope) if s.upper is not None else None,
                self.eval(s.step, scope) if s.step is not None else None,
            )
        if isinstance(s, ast.Tuple):
            return tuple(self.eval_index(x, scope) for x in s.elts)
        return self.eval(s, scope)

    def ex_Slice(self, e, scope):
        return self.eval_index(e, scope)

    def getitem(self, v, idx):
        if isinstance(v, NativeObj):
            return v._getitem(self, idx)
        if isinstance(v, Obj):
            f, _ = v.cls.lookup("__getitem__")
            if f is None:
                self.raise_py("TypeError", f"'{v.cls.name}' object is not subscriptable")
            return self.call(BoundMethod(f, v), [idx], {})
        if isinstance(v, GenList):
            v = v.items
        if isinstance(v, (list, tuple, str, range)):
            if isinstance(idx, slice):
                if any(isinstance(x, SV) for x in (idx.start, idx.stop, idx.step)):
                    return self.sym_slice(v, idx)
                r = self.native(lambda: v[idx])
                return self.note_fresh(r) if isinstance(r, list) else r
            if isinstance(idx, SV):
                return self.sym_index(v, idx)
            if isinstance(idx, Obj):
                f, _ = idx.cls.lookup("__index__")
                if f is not None:
                    idx = self.call(BoundMethod(f, idx), [], {})
            if isinstance(idx, bool):
                idx = int(idx)
            return self.native(lambda: v[idx])
        if isinstance(v, dict):
            if self._has_sym(idx) and not isinstance(idx, Obj):
                # symbolic key (e.g. a merged tuple): fork over the concrete keys it can equal
                for k in v:
                    r = self.eq(idx, k)
                    if r is True or (r is not False and self.truth(r)):
                        return v[k]
                self.raise_py("KeyError", SymStr("<symbolic key>"))
            self.check_key(idx)
            if isinstance(idx, Obj):
                for k in v:
                    if k is idx:
                        return v[k]
                if isinstance(v, getattr(self, "DDict", ())) and v.factory is not None:
                    self.mutating(v)
                    v[idx] = self.call(v.factory, [], {})
                    return v[idx]
                # enum / hashable objects compare by identity here
                self.raise_py("KeyError", SymStr(repr(idx)))
            if isinstance(v, getattr(self, "DDict", ())) and v.factory is not None and idx not in v:
                self.mutating(v)
                v[idx] = self.call(v.factory, [], {})
            return self.native(lambda: v[idx])
        if isinstance(v, Opaque):
            if self.loading or getattr(self, "permissive_opaque", False):
                return Opaque(f"{v.name}[...]")
            raise Unsupported(f"subscript of opaque {v.name}")
        raise Unsupported(f"subscript of {type(v).__name__}")

    def sym_index(self, seq, idx):
        """seq[idx] with symbolic idx over a concrete-length sequence: IndexError fork + ite chain"""
        n = len(seq)
        zi = ops.zint(idx)
        inr = z3.And(zi >= -n, zi < n)
        if not self.ctx.decide(inr):
            self.raise_py("IndexError", "index out of range")
        if n == 0:
            raise PathAbort()
        # prefer merge (ite chain) when values are scalars; else fork over positions
        vals = list(seq)
        scalar = all(isinstance(x, (int, bool, SV)) for x in vals)
        if scalar:
            r = ops.zint(vals[n - 1]) if not all(self._boolish(x) for x in vals) else ops.zbool(vals[n - 1])
            allb = all(self._boolish(x) for x in vals)
            for k in range(n - 2, -1, -1):
                c = z3.Or(zi == k, zi == k - n)
                r = z3.If(c, ops.zbool(vals[k]) if allb else ops.zint(vals[k]), r)
            return ops.simp(r)
        for k in range(n):
            if self.ctx.decide(z3.Or(zi == k, zi == k - n)):
                return vals[k]
        raise PathAbort()

    def sym_slice(self, seq, sl):
        """slices with symbolic ends: fork over the concrete values the end can take"""
        n = len(seq)

        def conc(x, default):
            if x is None:
                return default
            if not isinstance(x, SV):
                return x
            zi = ops.zint(x)
            # clamp semantic of slices: enumerate -n-1..n+1 region
            for k in range(-n, n + 1):
                if self.ctx.decide(zi == k):
                    return k
            if self.ctx.decide(zi > n):
                return n + 1
            return -n - 1

        step = sl.step
        if isinstance(step, SV):
            raise Unsupported("symbolic slice step")
        start = conc(sl.start, None)
        stop = conc(sl.stop, None)
        r = seq[slice(start, stop, step)]
        return self.note_fresh(r) if isinstance(r, list) else r

    def setitem(self, v, idx, val):
        if isinstance(v, NativeObj):
            self.mutating(v)
            return v._setitem(self, idx, val)
        if isinstance(v, Obj):
            f, _ = v.cls.lookup("__setitem__")
            if f is None:
                self.raise_py("TypeError", "object does not support item assignment")
            return self.call(BoundMethod(f, v), [idx, val], {})
        self.mutating(v)
        if isinstance(v, list):
            if isinstance(idx, SV):
                raise Unsupported("list store at symbolic index")
            self.native(lambda: v.__setitem__(idx, val))
            return
        if isinstance(v, dict):
            self.check_key(idx)
            if isinstance(idx, Obj):
                for k in v:
                    if k is idx:
                        v[k] = val
                        return
            v[idx] = val
            return
        raise Unsupported(f"item assignment on {type(v).__name__}")

    # ---------------------------------------------------------------- comprehensions / generators
    def comp_iter(self, gens, scope, body):
        def rec(i, sc):
            if i == len(gens):
                body(sc)
                return
            g = gens[i]
            for x in self.iterate(self.eval(g.iter, sc), lazy=True):
                self.assign(g.target, x, sc)
                ok = True
                for cond in g.ifs:
                    if not self.truth(self.eval(cond, sc)):
                        ok = False
                        break
                if ok:
                    rec(i + 1, sc)

        sc = Scope(scope, scope.globals, scope.frame)
        sc._comp = True
        rec(0, sc)

    def ex_ListComp(self, e, scope):
        out = []
        self.note_fresh(out)
        self.comp_iter(e.generators, scope, lambda sc: out.append(self.eval(e.elt, sc)))
        return out

    def ex_GeneratorExp(self, e, scope):
        out = []
        self.comp_iter(e.generators, scope, lambda sc: out.append(self.eval(e.elt, sc)))
        return GenList(out)

    def ex_SetComp(self, e, scope):
        out = []
        self.comp_iter(e.generators, scope, lambda sc: out.append(self.eval(e.elt, sc)))
        if self._has_sym(*out):
            raise Unsupported("set of symbolic values")
        return self.note_fresh(set(out))

    def ex_DictComp(self, e, scope):
        out = {}
        self.note_fresh(out)

        def body(sc):
            k = self.eval(e.key, sc)
            self.check_key(k)
            out[k] = self.eval(e.value, sc)

        self.comp_iter(e.generators, scope, body)
        return out

    def ex_Yield(self, e, scope):
        v = self.eval(e.value, scope) if e.value is not None else None
        self.mutating(scope.frame.yields)
        hook = getattr(self, "yield_hook", None)
        if hook is not None:
            hook(self, scope.frame, v)
        scope.frame.yields.append(v)
        return None

    def ex_YieldFrom(self, e, scope):
        v = self.eval(e.value, scope)
        self.mutating(scope.frame.yields)
        hook = getattr(self, "yield_from_hook", None)
        if hook is not None and hook(self, scope.frame, v):
            return None
        scope.frame.yields.extend(self.iterate(v))
        return None

    def lazy_any_all(self, is_any, gen, scope):
        """any()/all() over a generator expression with CPython's laziness: evaluation of later elements stops once
        the result is decided.  A symbolic accumulated result forks only when the next element cannot be evaluated
        speculatively (it has side effects or may raise); otherwise it is folded into one Or / And."""

        class _Stop(Exception):
            pass

        state = {"acc": (False if is_any else True)}  # python bool or z3 Bool: "result already decided"

        def decided():
            a = state["acc"]
            return a if isinstance(a, bool) else None

        def body_for(sc):
            a = state["acc"]
            if isinstance(a, bool):
                if a == is_any:
                    raise _Stop()
                x = self.cond_term(self.eval(gen.elt, sc))
            else:
                guard = z3.Not(a) if is_any else a  # evaluation reaches this element only if undecided so far
                try:
                    if os.environ.get("PYVC_NO_MERGE"):
                        raise MergeFail("merge disabled")
                    x = self.speculate(guard, lambda: self.cond_term(self.eval(gen.elt, sc)))
                except MergeFail:
                    if not self.ctx.decide(guard):
                        state["acc"] = is_any
                        raise _Stop()
                    state["acc"] = (not is_any)
                    x = self.cond_term(self.eval(gen.elt, sc))
                    a = state["acc"]
            a = state["acc"]
            if is_any:
                state["acc"] = ops.r_or([a if isinstance(a, bool) else SV(a), x if isinstance(x, bool) else SV(x)])
            else:
                state["acc"] = ops.r_and([a if isinstance(a, bool) else SV(a), x if isinstance(x, bool) else SV(x)])
            if isinstance(state["acc"], SV):
                state["acc"] = state["acc"].t

        try:
            self.comp_iter(gen.generators, scope, body_for)
        except _Stop:
            pass
        r = state["acc"]
        return r if isinstance(r, bool) else ops.simp(r)

    def ex_Starred(self, e, scope):
        raise Unsupported("starred expression outside call/display")

    def ex_Await(self, e, scope):
        raise Unsupported("await")

    # ---------------------------------------------------------------- iteration
    def iterate(self, v, lazy=False):
        if isinstance(v, (list, tuple)):
            return list(v) if not lazy else v if isinstance(v, tuple) else list(v)
        if isinstance(v, GenList):
            items = v.items[v.pos:]
            v.pos = len(v.items)
            return items
        if isinstance(v, range):
            return v if lazy else list(v)
        if isinstance(v, dict):
            return list(v.keys())
        if isinstance(v, (set, frozenset)):
            items = list(v)
            if len(items) > 1:
                try:
                    items = sorted(items)
                except TypeError:
                    pass
                self.assumptions.add("set iteration order: sorted order used (code under contract must be order-independent)")
            return items
        if isinstance(v, str):
            return list(v)
        if isinstance(v, Obj):
            f, _ = v.cls.lookup("__iter__")
            if f is not None:
                return self.iterate(self.call(BoundMethod(f, v), [], {}))
            g, _ = v.cls.lookup("__getitem__")
            ln, _ = v.cls.lookup("__len__")
            if g is not None and ln is not None:
                n = self.call(BoundMethod(ln, v), [], {})
                if isinstance(n, SV):
                    raise Unsupported("iteration over symbolic-length object")
                return [self.call(BoundMethod(g, v), [i], {}) for i in range(n)]
            self.raise_py("TypeError", f"'{v.cls.name}' object is not iterable")
        if isinstance(v, ClassV) and v.is_enum:
            return list(v.members.values())
        if isinstance(v, NativeObj):
            return v._iterate(self)
        if type(v).__name__ in ("dict_keys", "dict_values", "dict_items", "zip", "enumerate", "map", "filter", "reversed", "list_iterator", "tuple_iterator"):
            return list(v)
        if isinstance(v, SV):
            self.raise_py("TypeError", "int object is not iterable")
        if v is None:
            self.raise_py("TypeError", "'NoneType' object is not iterable")
        raise Unsupported(f"iteration over {type(v).__name__} {v!r}")

    # ================================================================ calls
    def ex_Call(self, e, scope):
        # zero-arg super()
        if isinstance(e.func, ast.Name) and e.func.id == "super" and not e.args:
            fr = scope.frame
            if fr is None or fr.func is None or fr.func.owner is None:
                raise Unsupported("super() outside method")
            return SuperV(fr.func.owner, fr.self_obj)
        if (isinstance(e.func, ast.Name) and e.func.id in ("any", "all") and len(e.args) == 1 and not e.keywords
                and isinstance(e.args[0], ast.GeneratorExp) and self.load_name(e.func.id, scope) is self.builtins[e.func.id]):
            return self.lazy_any_all(e.func.id == "any", e.args[0], scope)
        f = self.eval(e.func, scope)
        args = []
        for a in e.args:
            if isinstance(a, ast.Starred):
                args.extend(self.iterate(self.eval(a.value, scope)))
            else:
                args.append(self.eval(a, scope))
        kwargs = {}
        for k in e.keywords:
            if k.arg is None:
                d = self.eval(k.value, scope)
                if not isinstance(d, dict):
                    raise Unsupported("** of non-dict")
                kwargs.update(d)
            else:
                kwargs[k.arg] = self.eval(k.value, scope)
        return self.call(f, args, kwargs)

    def call(self, f, args, kwargs=None):
        kwargs = kwargs or {}
        if isinstance(f, BoundMethod):
            return self.call(f.func, [f.self] + list(args), kwargs)
        if isinstance(f, FuncV):
            h = self.contracts.get(f.qualname)
            if h is not None:
                r = h(self, f, args, kwargs)
                if r is not _MISSING:
                    return r
            ob = self.observers.get(f.qualname) if self.observers else None
            if ob is not None:
                r = self.call_function(f, args, kwargs)
                ob(self, f, args, kwargs, r)  # ghost observation of a call's arguments and result (no effect on it)
                return r
            return self.call_function(f, args, kwargs)
        if isinstance(f, NativeFn):
            if f.wants_interp:
                return f.fn(self, *args, **kwargs)
            return f.fn(*args, **kwargs)
        if isinstance(f, ClassV):
            return self.instantiate(f, args, kwargs)
        if isinstance(f, Obj):
            c, _ = f.cls.lookup("__call__")
            if c is not None:
                return self.call(BoundMethod(c, f), args, kwargs)
            self.raise_py("TypeError", f"'{f.cls.name}' object is not callable")
        if isinstance(f, Opaque):
            if self.loading or getattr(self, "permissive_opaque", False):
                return Opaque(f"{f.name}(...)")
            raise Unsupported(f"call of opaque {f.name}")
        if isinstance(f, tuple) and all(isinstance(x, (ClassV, Opaque, type(None))) for x in f):
            raise Unsupported("call of a type union")
        raise Unsupported(f"call of {type(f).__name__} {f!r}")

    def _stub_sig(self, f, what):
        """a call that does not fit the signature of a function defined in a dependency STUB says the stub is incomplete,
        not that the program is wrong -> undecided"""
        from .stubs import STUB_SOURCES

        mod = f.module if isinstance(f.module, str) else getattr(f.module, "name", None)
        if mod in STUB_SOURCES:
            raise Unsupported(f"stub {mod}.{f.qualname} does not model this call ({what})")

    def bind_args(self, f, args, kwargs):
        node = f.node
        a = node.args
        params = [p.arg for p in a.posonlyargs + a.args]
        local = {}
        args = list(args)
        if len(args) > len(params) and a.vararg is None:
            self._stub_sig(f, f"{len(args)} positional arguments")
            self.raise_py("TypeError", f"{f.qualname}() takes {len(params)} positional arguments but {len(args)} were given")
        for p, v in zip(params, args):
            local[p] = v
        if a.vararg is not None:
            local[a.vararg.arg] = tuple(args[len(params):])
        kw = dict(kwargs)
        for p in params[len(args):]:
            if p in kw:
                local[p] = kw.pop(p)
        # defaults
        nd = len(f.defaults)
        for i, p in enumerate(params):
            if p not in local:
                j = i - (len(params) - nd)
                if j >= 0:
                    local[p] = f.defaults[j]
                else:
                    self._stub_sig(f, f"missing argument {p}")
                    self.raise_py("TypeError", f"{f.qualname}() missing required argument '{p}'")
        for p in a.kwonlyargs:
            if p.arg in kw:
                local[p.arg] = kw.pop(p.arg)
            elif p.arg in f.kwdefaults:
                local[p.arg] = f.kwdefaults[p.arg]
            else:
                self.raise_py("TypeError", f"{f.qualname}() missing keyword-only argument '{p.arg}'")
        if a.kwarg is not None:
            local[a.kwarg.arg] = kw
        elif kw:
            for k in kw:
                if k in local:
                    self.raise_py("TypeError", f"{f.qualname}() got multiple values for argument '{k}'")
            self._stub_sig(f, f"keyword {next(iter(kw))}")
            self.raise_py("TypeError", f"{f.qualname}() got an unexpected keyword argument '{next(iter(kw))}'")
        return local

    def call_function(self, f, args, kwargs):
        self.call_depth += 1
        if self.call_depth > self.max_call_depth:
            self.call_depth -= 1
            raise Unsupported("call depth exceeded (unbounded recursion?)")
        self._mod_stack = getattr(self, "_mod_stack", [])
        self._mod_stack.append(f.module if isinstance(f.module, str) else None)
        try:
            local = self.bind_args(f, args, kwargs)
            fr = Frame(f)
            fr.args = local
            fr.args0 = dict(local)
            sc = Scope(f.env, f.env.globals if f.env is not None else {}, fr)
            sc.vars = local
            if f.owner is not None and f.kind != "staticmethod" and args:
                fr.self_obj = args[0]
            node = f.node
            if isinstance(node, ast.Lambda):
                return self.eval(node.body, sc)
            ret = None
            try:
                self.exec_block(node.body, sc)
            except ReturnSig as r:
                ret = r.value
            if f.is_generator:
                return GenList(fr.yields)
            return ret
        finally:
            self.call_depth -= 1
            self._mod_stack.pop()

    # ---------------------------------------------------------------- classes
    def dataclass_fields(self, cls):
        """[(name, default or _MISSING)] through the MRO (base first)"""
        fields = {}
        for c in reversed(cls.mro):
            if not c.is_dataclass:
                continue
            for name, ann in getattr(c, "annotations", []):
                if isinstance(ann, ast.Subscript) and isinstance(ann.value, ast.Name) and ann.value.id == "ClassVar":
                    continue
                d = c.ns.get(name, _MISSING)
                if isinstance(d, (FuncV, PropertyV)):
                    d = _MISSING
                fields[name] = d
        return list(fields.items())

    def instantiate(self, cls, args, kwargs):
        if cls.is_enum:
            # Enum(value) lookup
            if len(args) == 1:
                for mobj in cls.members.values():
                    if self.truth(self.eq(mobj.fields["value"], args[0])):
                        return mobj
                self.raise_py("ValueError", f"{args[0]!r} is not a valid {cls.name}")
        new, _ = cls.lookup("__new__")
        if new is not None and isinstance(new, FuncV):
            o = self.call(new, [cls] + list(args), kwargs)
            if not (isinstance(o, Obj) and o.cls.issubclass(cls)):
                return o
        else:
            o = Obj(cls)
        self.note_fresh(o)
        init, owner = cls.lookup("__init__")
        if init is not None:
            self.call(init, [o] + list(args), kwargs)
        elif cls.issubclass(self.exc_classes["BaseException"]):
            o.fields["args"] = tuple(args)
        elif args or kwargs:
            self.raise_py("TypeError", f"{cls.name}() takes no arguments")
        return o

    def make_dataclass(self, cls, frozen=False, eq=True, **_):
        cls.is_dataclass = True
        cls.frozen = frozen or any(b.frozen for b in cls.bases)
        if "__init__" not in cls.ns:
            interp = self

            def dc_init(interp_, self_obj, *args, **kwargs):
                fields = interp.dataclass_fields(cls)
                names = [n for n, _ in fields]
                if len(args) > len(names):
                    interp.raise_py("TypeError", f"{cls.name}.__init__ takes {len(names)} arguments")
                vals = dict(zip(names, args))
                for k, v in kwargs.items():
                    if k not in names or k in vals:
                        interp.raise_py("TypeError", f"{cls.name}.__init__ unexpected argument {k}")
                    vals[k] = v
                for n, d in fields:
                    if n not in vals:
                        if d is _MISSING:
                            interp.raise_py("TypeError", f"{cls.name}.__init__ missing argument {n}")
                        if isinstance(d, Obj) and d.cls.name == "_DCField":
                            if d.fields.get("default_factory") is not None:
                                d = interp.call(d.fields["default_factory"], [], {})
                            elif "default" in d.fields and d.fields["default"] is not _MISSING:
                                d = d.fields["default"]
                            else:
                                interp.raise_py("TypeError", f"{cls.name}.__init__ missing argument {n}")
                        vals[n] = d
                interp.mutating(self_obj)
                for n in names:
                    self_obj.fields[n] = vals[n]
                pi, _ = self_obj.cls.lookup("__post_init__")
                if pi is not None:
                    interp.call(BoundMethod(pi, self_obj), [], {})
                return None

            cls.ns["__init__"] = NativeFn(dc_init, f"method:{cls.name}.__init__")
        return cls

    # ---------------------------------------------------------------- isinstance
    def isinstance(self, v, cls):
        """python bool or SV bool"""
        if isinstance(cls, tuple):
            return ops.r_or([self.isinstance(v, c) for c in cls])
        hook = getattr(self, "isinstance_hook", None)
        if hook is not None:
            r = hook(self, v, cls)
            if r is not None:
                return r
        if isinstance(cls, ClassV):
            if isinstance(v, Obj):
                return v.cls.issubclass(cls)
            return False
        if isinstance(cls, NativeFn):
            n = cls.name
            if n == "int":
                return isinstance(v, int) or (isinstance(v, SV) and not False)
            if n == "bool":
                return isinstance(v, bool) or (isinstance(v, SV) and v.is_bool)
            if n == "str":
                return isinstance(v, str)
            if n == "list":
                return isinstance(v, list)
            if n == "tuple":
                return isinstance(v, tuple)
            if n == "dict":
                return isinstance(v, dict)
            if n == "set":
                return isinstance(v, set)
            if n == "float":
                return isinstance(v, float)
            if n == "object":
                return True
            if n == "type":
                return isinstance(v, ClassV)
            if n in ("Sequence", "Iterable"):
                return isinstance(v, (list, tuple, str, range, GenList)) or (isinstance(v, Obj) and v.cls.lookup("__iter__")[0] is not None)
            if n == "Callable":
                return isinstance(v, (FuncV, BoundMethod, NativeFn, ClassV))
        if cls is None:
            return v is None
        if isinstance(cls, Opaque):
            if isinstance(v, (int, str, list, tuple, dict, SV, type(None))) :
                return False
            if isinstance(v, Obj):
                # an interpreted object is an instance of an opaque library class only if declared so
                declared = v.cls.lookup("__opaque_bases__")[0]
                if declared is not None:
                    return any(cls.name.endswith(d) for d in declared)
                return False
            raise Unsupported(f"isinstance against opaque class {cls.name}")
        if isinstance(cls, type) and issubclass(cls, NativeObj):
            return isinstance(v, cls)
        raise Unsupported(f"isinstance against {cls!r}")


class SuperV(NativeObj):
    def __init__(self, owner, obj):
        self.owner = owner
        self.obj = obj

    def __getattr__(self, name):
        raise AttributeError(name)


def _super_getattr(interp, sv, name):
    obj = sv.obj
    cls = obj.cls if isinstance(obj, Obj) else obj
    mro = cls.mro
    i = mro.index(sv.owner)
    for c in mro[i + 1:]:
        if name in c.ns:
            a = c.ns[name]
            if isinstance(a, FuncV):
                if a.kind == "staticmethod":
                    return a
                if a.kind == "classmethod":
                    return BoundMethod(a, cls)
                return BoundMethod(a, obj)
            if isinstance(a, NativeFn):
                return BoundMethod(a, obj)
            if isinstance(a, PropertyV):
                return interp.call(a.fget, [obj], {})
            return a
    if name == "__init__":
        return NativeFn(lambda interp_, *a, **k: None, "object.__init__")
    if name == "__post_init__":
        return NativeFn(lambda interp_, *a, **k: None, "object.__post_init__")
    interp.raise_py("AttributeError", f"super object has no attribute {name}")


_orig_getattr = Interp.getattr


def _getattr_with_super(self, v, name, default=_MISSING):
    if isinstance(v, SuperV):
        return _super_getattr(self, v, name)
    return _orig_getattr(self, v, name, default)


Interp.getattr = _getattr_with_super
