"""Native part of the xdsl.irdl stub: operand/result/prop/attr/region definitions and the generic
IRDLOperation.__init__ that distributes constructor arguments over the declared names (what irdl's
generated accessors do).  Only construction and named access are modelled - no verification."""
from ..values import SV, BoundMethod, ClassV, NativeFn, NativeObj, Obj, Opaque, Unsupported


class Def(NativeObj):
    def __init__(self, kind, variadic=False, optional=False, ext_name=None):
        self.kind = kind
        self.variadic = variadic
        self.optional = optional
        self.ext_name = ext_name  # prop_name= / attr_name= : the key in the properties / attributes dict

    def __repr__(self):
        return f"<{self.kind}_def>"


def _mk(kind, variadic=False, optional=False):
    def f(interp, *a, **k):
        return Def(kind, variadic, optional, k.get("prop_name") or k.get("attr_name"))

    return NativeFn(f, f"{kind}_def")


def collect_defs(cls):
    out = {}
    for c in reversed(cls.mro):
        for n, v in c.ns.items():
            if isinstance(v, Def):
                out[n] = v
    return list(out.items())


def irdl_init(interp, self_obj, operands=(), result_types=(), properties=None, attributes=None, successors=(), regions=()):
    xir = interp.load_module("xdsl.ir").globals
    ssa_get = xir["SSAValue"].ns["get"]
    OpResult = xir["OpResult"]
    defs = collect_defs(self_obj.cls)
    F = self_obj.fields

    def seq(x):
        if x is None:
            return []
        if isinstance(x, (list, tuple)):
            return list(x)
        try:
            return list(interp.iterate(x))
        except Exception:
            return [x]

    def is_seq(x):
        from ..values import GenList

        return isinstance(x, (list, tuple, GenList)) or (isinstance(x, Obj) and x.cls.lookup("__iter__")[0] is not None and x.cls.name in ("ArrayAttr",))

    # operands: kept ONLY in the flat list; the declared names are views of it (as in xdsl), computed on access from the
    # segment table, so that `op.operands[i] = v` is seen through `op.<name>` as well
    odefs = [(n, d) for n, d in defs if d.kind == "operand"]
    entries = seq(operands)
    flat = []
    segs = {}
    if len(odefs) == len(entries):
        for (n, d), e in zip(odefs, entries):
            start = len(flat)
            if d.variadic or (d.optional and (e is None or is_seq(e))):
                vals = [interp.call(ssa_get, [x], {}) for x in seq(e)]
                flat.extend(vals)
            else:
                v = interp.call(ssa_get, [e], {})
                flat.append(v)
            segs[n] = (start, len(flat) - start, d.variadic, d.optional)
    else:
        # un-named construction (e.g. op without declared operands): keep the flat list only
        for e in entries:
            for x in (seq(e) if is_seq(e) else [e]):
                flat.append(interp.call(ssa_get, [x], {}))
    F["_opsegs"] = segs
    F["operands"] = flat
    F["_operands"] = flat
    # results
    rdefs = [(n, d) for n, d in defs if d.kind == "result"]
    rentries = seq(result_types)
    rflat = []
    if len(rdefs) == len(rentries):
        for (n, d), e in zip(rdefs, rentries):
            if d.variadic or (d.optional and (e is None or is_seq(e))):
                vals = [interp.call(OpResult, [None, t, self_obj], {}) for t in seq(e)]
                F[n] = (vals[0] if vals else None) if d.optional else tuple(vals)
                rflat.extend(vals)
            else:
                v = interp.call(OpResult, [None, e, self_obj], {})
                F[n] = v
                rflat.append(v)
    else:
        for e in rentries:
            for t in (seq(e) if is_seq(e) else [e]):
                rflat.append(interp.call(OpResult, [None, t, self_obj], {}))
    F["results"] = rflat
    props = dict(properties) if properties else {}
    attrs = dict(attributes) if attributes else {}
    for n, d in defs:
        if d.kind == "prop":
            F[n] = props.get(d.ext_name or n)
        elif d.kind == "attr":
            F[n] = attrs.get(d.ext_name or n)
    F["properties"] = props
    F["attributes"] = attrs
    gdefs = [(n, d) for n, d in defs if d.kind == "region"]
    rentries_ = seq(regions)
    regs = []
    if len(gdefs) == len(rentries_):
        for (n, d), r in zip(gdefs, rentries_):
            if d.variadic or (d.optional and (r is None or is_seq(r))):
                rs = seq(r)
                F[n] = (rs[0] if rs else None) if d.optional else tuple(rs)
                regs.extend(rs)
            else:
                F[n] = r
                regs.append(r)
    else:
        for r in rentries_:
            regs.extend(seq(r) if is_seq(r) else [r])
    for r in regs:
        if isinstance(r, Obj):
            r.fields["parent"] = self_obj
    F["regions"] = regs
    F["parent"] = None
    F["successors"] = seq(successors)
    all_ops = xir.get("ALL_OPS")
    if all_ops is not None:
        all_ops.append(self_obj)
    implicit = xir.get("IMPLICIT")
    if implicit:
        interp.call(interp.getattr(implicit[-1], "add_op"), [self_obj], {})
    return None


def named_operand(interp, obj, name):
    """value of a declared operand name: a view of the flat operand list"""
    segs = obj.fields.get("_opsegs") or {}
    if name not in segs:
        return None
    start, n, variadic, optional = segs[name]
    ops_ = obj.fields["operands"]
    if variadic:
        return tuple(ops_[start:start + n])
    if optional:
        return ops_[start] if n > 0 else None
    return ops_[start]


def irdl_defs(interp, self_obj):
    """[(name, kind, variadic, optional)] of the declared operands / results of an IRDL op, in declaration order"""
    return [(n, d.kind, d.variadic, d.optional) for n, d in collect_defs(self_obj.cls) if d.kind in ("operand", "result")]


def install_irdl(I):
    ns = dict(
        irdl_defs=NativeFn(irdl_defs, "irdl_defs"),
        operand_def=_mk("operand"), opt_operand_def=_mk("operand", optional=True), var_operand_def=_mk("operand", variadic=True),
        result_def=_mk("result"), opt_result_def=_mk("result", optional=True), var_result_def=_mk("result", variadic=True),
        prop_def=_mk("prop"), opt_prop_def=_mk("prop", optional=True), attr_def=_mk("attr"), opt_attr_def=_mk("attr", optional=True),
        region_def=_mk("region"), opt_region_def=_mk("region", optional=True), var_region_def=_mk("region", variadic=True),
        irdl_init=NativeFn(irdl_init, "method:IRDLOperation.__init__"),
    )
    I.native_modules["pyvc.irdlhelpers"] = ns
