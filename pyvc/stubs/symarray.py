"""`SymArray`: the numpy stub. An N-d array (flat row-major list + concrete shape) of mixed
concrete/symbolic integers or booleans.  Only the operations the code under contract uses are
modelled; everything else raises Unsupported.  int64 overflow is NOT modelled (assumption:
numpy integer arithmetic is mathematical).  Differential-tested against real numpy on every run."""
from __future__ import annotations

import itertools
import math

import z3

from .. import ops
from ..values import SV, GenList, NativeFn, NativeObj, Obj, Opaque, Unsupported


def _prod(xs):
    r = 1
    for x in xs:
        r *= x
    return r


class SymArray(NativeObj):
    """storage model: `_base` (a flat list) + `_idx` (positions in `_base`, None = owns `_base` in row-major order).
    Basic indexing (ints / slices), .T / transpose and reshape / ravel of a contiguous array return VIEWS that share
    `_base` with their origin, as in numpy: a write through the view is a write to the origin.  Everything else
    (fancy / boolean indexing, arithmetic, copy, astype, flatten) returns an array that owns its storage."""

    def __init__(self, flat, shape):
        self._base = list(flat)
        self._idx = None
        self._uncertain_view = False
        self.shape = tuple(shape)
        assert len(self._base) == _prod(self.shape), (len(self._base), self.shape)

    @property
    def flat(self):
        """the elements in row-major order (read-only snapshot when this is a view)"""
        if self._idx is None:
            return self._base
        return [self._base[i] for i in self._idx]

    def _pos(self, o):
        return o if self._idx is None else self._idx[o]

    def _view(self, offs, shape, uncertain=False):
        v = SymArray.__new__(SymArray)
        v._base = self._base
        v._idx = [self._pos(o) for o in offs]
        v._uncertain_view = uncertain or self._uncertain_view
        v.shape = tuple(shape)
        assert len(v._idx) == _prod(v.shape)
        return v

    def _contiguous(self):
        return self._idx is None or all(b == a + 1 for a, b in zip(self._idx, self._idx[1:]))

    def _assign_inplace(self, interp, r):
        """`a op= b`: numpy writes the result into a's storage (aliases see it)"""
        if not isinstance(r, SymArray) or r.shape != self.shape:
            raise Unsupported("in-place array operation changing the shape")
        if self._uncertain_view:
            raise Unsupported("write through a reshape of a non-contiguous view (numpy: view or copy)")
        vals = list(r.flat)
        for o, x in enumerate(vals):
            self._base[self._pos(o)] = x
        return self

    # ------------------------------------------------------------ construction
    @staticmethod
    def from_nested(interp, x):
        if isinstance(x, SymArray):
            return SymArray(x.flat, x.shape)
        if isinstance(x, (int, bool, SV)):
            return SymArray([x], ())
        if isinstance(x, (list, tuple, GenList, range)):
            items = [SymArray.from_nested(interp, e) for e in interp.iterate(x)]
            if not items:
                return SymArray([], (0,))
            sh = items[0].shape
            if any(i.shape != sh for i in items):
                raise Unsupported("ragged array")
            return SymArray([v for i in items for v in i.flat], (len(items),) + sh)
        if isinstance(x, float):
            raise Unsupported("float array")
        raise Unsupported(f"np.array of {type(x).__name__}")

    def nested(self):
        def rec(off, shape):
            if not shape:
                return self.flat[off]
            step = _prod(shape[1:])
            return [rec(off + i * step, shape[1:]) for i in range(shape[0])]

        return rec(0, self.shape)

    # ------------------------------------------------------------ properties
    @property
    def ndim(self):
        return len(self.shape)

    @property
    def size(self):
        return len(self.flat)

    @property
    def T(self):
        return self.transpose()

    @property
    def dtype(self):
        return Opaque("dtype")

    def transpose(self, *axes):
        if len(axes) == 1 and isinstance(axes[0], (list, tuple)):
            axes = tuple(axes[0])
        n = self.ndim
        if not axes:
            axes = tuple(reversed(range(n)))
        new_shape = tuple(self.shape[a] for a in axes)
        strides = self._strides()
        offs = []
        for idx in itertools.product(*[range(s) for s in new_shape]):
            offs.append(sum(i * strides[a] for i, a in zip(idx, axes)))
        return self._view(offs, new_shape)

    def _strides(self):
        st = []
        acc = 1
        for s in reversed(self.shape):
            st.append(acc)
            acc *= s
        return list(reversed(st))

    def tolist(self):
        return self.nested()

    def flatten(self):
        return SymArray(self.flat, (len(self.flat),))

    def ravel(self):
        return self._view(range(len(self.flat)), (len(self.flat),), uncertain=not self._contiguous())

    def copy(self):
        return SymArray(self.flat, self.shape)

    def astype(self, *a, **k):
        return SymArray(self.flat, self.shape)

    def reshape(self, *shape):
        if len(shape) == 1 and isinstance(shape[0], (tuple, list)):
            shape = tuple(shape[0])
        shape = list(shape)
        if -1 in shape:
            i = shape.index(-1)
            rest = _prod([s for s in shape if s != -1])
            shape[i] = len(self.flat) // rest if rest else 0
        if _prod(shape) != len(self.flat):
            raise ValueError("cannot reshape")
        # numpy: a view whenever the strides allow it - certain for contiguous data; otherwise view-or-copy, so a later
        # WRITE through the result is refused (reads are the same either way)
        return self._view(range(len(self.flat)), tuple(shape), uncertain=not self._contiguous())

    def item(self):
        if len(self.flat) != 1:
            raise ValueError("can only convert an array of size 1 to a Python scalar")
        return self.flat[0]

    # ------------------------------------------------------------ protocol hooks for the interpreter
    def _len(self, interp):
        if not self.shape:
            interp.raise_py("TypeError", "len() of unsized object")
        return self.shape[0]

    def _iterate(self, interp):
        if not self.shape:
            interp.raise_py("TypeError", "iteration over a 0-d array")
        return [self._getitem(interp, i) for i in range(self.shape[0])]

    def _truth(self, interp):
        if len(self.flat) != 1:
            interp.raise_py("ValueError", "The truth value of an array with more than one element is ambiguous")
        return interp.cond_term(self.flat[0])

    def _int(self, interp):
        if len(self.flat) != 1:
            interp.raise_py("TypeError", "only size-1 arrays can be converted to Python scalars")
        v = self.flat[0]
        if isinstance(v, SV) and v.is_bool:
            return ops.simp(ops.zint(v))
        return v if isinstance(v, SV) else int(v)

    def _selectors(self, interp, idx):
        if not isinstance(idx, tuple):
            idx = (idx,)
        if any(x is None for x in idx):
            raise Unsupported("np.newaxis indexing")
        if len(idx) > self.ndim:
            interp.raise_py("IndexError", "too many indices for array")
        idx = list(idx) + [slice(None)] * (self.ndim - len(idx))
        sels = []
        for ax, s in enumerate(idx):
            n = self.shape[ax]
            if isinstance(s, SymArray):
                s = s.nested()
            if isinstance(s, GenList):
                s = list(s.items)
            if isinstance(s, bool):
                raise Unsupported("boolean scalar index")
            if isinstance(s, int):
                if not -n <= s < n:
                    interp.raise_py("IndexError", f"index {s} is out of bounds for axis {ax} with size {n}")
                sels.append(("int", s % n if n else 0))
            elif isinstance(s, slice):
                if any(isinstance(x, SV) for x in (s.start, s.stop, s.step)):
                    raise Unsupported("symbolic slice on array")
                sels.append(("slice", list(range(n))[s]))
            elif isinstance(s, (list, tuple)):
                if s and all(isinstance(x, bool) or (isinstance(x, SV) and x.is_bool) for x in s):
                    s = [x if isinstance(x, bool) else interp.truth(x) for x in s]  # forks: data-dependent shape
                if s and all(isinstance(x, bool) for x in s):
                    if len(s) != n:
                        interp.raise_py("IndexError", "boolean index did not match indexed array")
                    sels.append(("list", [i for i, b in enumerate(s) if b]))
                elif any(isinstance(x, SV) for x in s):
                    raise Unsupported("symbolic index list (data-dependent shape)")
                else:
                    for x in s:
                        if not -n <= x < n:
                            interp.raise_py("IndexError", "index out of bounds")
                    sels.append(("list", [x % n for x in s]))
            elif isinstance(s, SV):
                raise Unsupported("symbolic array index")
            else:
                raise Unsupported(f"array index {type(s).__name__}")
        return sels

    def _getitem(self, interp, idx):
        sels = self._selectors(interp, idx)
        strides = self._strides()
        axes = [(k, v) for k, v in sels]
        new_shape = tuple(len(v) for k, v in axes if k != "int")
        ranges = [[v] if k == "int" else v for k, v in axes]
        offs = [sum(i * st for i, st in zip(combo, strides)) for combo in itertools.product(*ranges)]
        if not new_shape and all(k == "int" for k, _ in axes):
            return self._base[self._pos(offs[0])]
        if all(k in ("int", "slice") for k, _ in axes):
            return self._view(offs, new_shape)  # basic indexing: a view
        flat = self.flat
        return SymArray([flat[o] for o in offs], new_shape)

    def _setitem(self, interp, idx, val):
        sels = self._selectors(interp, idx)
        strides = self._strides()
        new_shape = tuple(len(v) for k, v in sels if k != "int")
        ranges = [[v] if k == "int" else v for k, v in sels]
        offs = [sum(i * st for i, st in zip(combo, strides)) for combo in itertools.product(*ranges)]
        if self._uncertain_view:
            raise Unsupported("write through a reshape of a non-contiguous view (numpy: view or copy)")
        if isinstance(val, (list, tuple)):
            val = SymArray.from_nested(interp, val)
        if isinstance(val, SymArray):
            v = val._broadcast_to(interp, new_shape)
            for o, x in zip(offs, list(v.flat)):  # snapshot first: the source may alias the destination
                self._base[self._pos(o)] = x
        else:
            for o in offs:
                self._base[self._pos(o)] = val

    def _broadcast_to(self, interp, shape):
        if self.shape == tuple(shape):
            return self
        n = len(shape)
        if self.ndim > n:
            # allow dropping leading unit dims
            raise Unsupported("broadcast to fewer dims")
        sh = (1,) * (n - self.ndim) + self.shape
        for a, b in zip(sh, shape):
            if a != b and a != 1:
                interp.raise_py("ValueError", f"operands could not be broadcast together with shapes {self.shape} {tuple(shape)}")
        src = SymArray(self.flat, sh)
        st = src._strides()
        out = []
        for idx in itertools.product(*[range(s) for s in shape]):
            off = sum((0 if sh[k] == 1 else i) * st[k] for k, i in enumerate(idx))
            out.append(src.flat[off])
        return SymArray(out, shape)

    @staticmethod
    def _bshape(interp, s1, s2):
        n = max(len(s1), len(s2))
        a = (1,) * (n - len(s1)) + tuple(s1)
        b = (1,) * (n - len(s2)) + tuple(s2)
        out = []
        for x, y in zip(a, b):
            if x == y or y == 1:
                out.append(x)
            elif x == 1:
                out.append(y)
            else:
                interp.raise_py("ValueError", f"operands could not be broadcast together with shapes {s1} {s2}")
        return tuple(out)

    def _elementwise(self, interp, other, f):
        if isinstance(other, (list, tuple)):
            other = SymArray.from_nested(interp, other)
        if isinstance(other, SymArray):
            sh = self._bshape(interp, self.shape, other.shape)
            a = self._broadcast_to(interp, sh)
            b = other._broadcast_to(interp, sh)
            return SymArray([f(x, y) for x, y in zip(a.flat, b.flat)], sh)
        if isinstance(other, (int, bool, SV)):
            return SymArray([f(x, other) for x in self.flat], self.shape)
        if other is None:
            return NotImplemented
        raise Unsupported(f"array op with {type(other).__name__}")

    def _binop(self, interp, op, other, reflected):
        if op == "MatMult":
            if not isinstance(other, SymArray):
                other = SymArray.from_nested(interp, other)
            return other._matmul(interp, self) if reflected else self._matmul(interp, other)
        if isinstance(other, Obj):
            return NotImplemented
        if reflected:
            return self._elementwise(interp, other, lambda x, y: interp.binop(op, y, x))
        return self._elementwise(interp, other, lambda x, y: interp.binop(op, x, y))

    def _unop(self, interp, op):
        if op == "USub":
            return SymArray([interp.binop("Sub", 0, x) for x in self.flat], self.shape)
        if op == "Invert":
            return SymArray([ops.r_not(x) if isinstance(x, (bool, SV)) else ~x for x in self.flat], self.shape)
        raise Unsupported(f"array unary {op}")

    def _compare(self, interp, op, other, reflected):
        if other is None or isinstance(other, (str, Obj, Opaque)):
            if op == "Eq":
                return False
            raise Unsupported("array comparison with non-numeric")
        if op == "Eq":
            f = lambda x, y: interp.eq(x, y)
        elif op == "NotEq":
            f = lambda x, y: ops.r_not(interp.eq(x, y))
        else:
            if reflected:
                op = {"Lt": "Gt", "Gt": "Lt", "LtE": "GtE", "GtE": "LtE"}[op]
            f = lambda x, y: interp.compare(op, x, y)
        return self._elementwise(interp, other, f)

    def _contains(self, interp, x):
        return ops.r_or([interp.eq(y, x) for y in self.flat])

    def _matmul(self, interp, other):
        a, b = self, other
        if a.ndim == 0 or b.ndim == 0:
            interp.raise_py("ValueError", "matmul: scalar operand")
        a2 = a if a.ndim == 2 else SymArray(a.flat, (1, a.shape[0]))
        b2 = b if b.ndim == 2 else SymArray(b.flat, (b.shape[0], 1))
        if a.ndim > 2 or b.ndim > 2:
            raise Unsupported("matmul of >2-d arrays")
        m, k = a2.shape
        k2, n = b2.shape
        if k != k2:
            interp.raise_py("ValueError", f"matmul: mismatch in core dimension ({k} vs {k2})")
        out = []
        for i in range(m):
            for j in range(n):
                acc = 0
                for t in range(k):
                    acc = interp.binop("Add", acc, interp.binop("Mult", a2.flat[i * k + t], b2.flat[t * n + j]))
                out.append(acc)
        if a.ndim == 1 and b.ndim == 1:
            return out[0]
        if a.ndim == 1:
            return SymArray(out, (n,))
        if b.ndim == 1:
            return SymArray(out, (m,))
        return SymArray(out, (m, n))

    # ------------------------------------------------------------ reductions
    def _reduce(self, interp, f, axis, unit):
        if axis is None:
            return f(self.flat)
        if axis < 0:
            axis += self.ndim
        new_shape = self.shape[:axis] + self.shape[axis + 1:]
        st = self._strides()
        out = []
        for idx in itertools.product(*[range(s) for s in new_shape]):
            full = list(idx[:axis]) + [0] + list(idx[axis:])
            vals = []
            for k in range(self.shape[axis]):
                full[axis] = k
                vals.append(self.flat[sum(i * s for i, s in zip(full, st))])
            out.append(f(vals))
        return SymArray(out, new_shape)

    def any(self, axis=None):
        I = self._interp()
        return self._reduce(I, lambda vs: ops.r_or([_b(I, v) for v in vs]), axis, False)

    def all(self, axis=None):
        I = self._interp()
        return self._reduce(I, lambda vs: ops.r_and([_b(I, v) for v in vs]), axis, True)

    def sum(self, axis=None):
        I = self._interp()

        def s(vs):
            r = 0
            for v in vs:
                r = I.binop("Add", r, v)
            return r

        return self._reduce(I, s, axis, 0)

    def max(self, axis=None):
        I = self._interp()
        return self._reduce(I, lambda vs: I.call(I.builtins["max"], [list(vs)], {}), axis, None)

    def min(self, axis=None):
        I = self._interp()
        return self._reduce(I, lambda vs: I.call(I.builtins["min"], [list(vs)], {}), axis, None)

    def prod(self, axis=None):
        I = self._interp()

        def p(vs):
            r = 1
            for v in vs:
                r = I.binop("Mult", r, v)
            return r

        return self._reduce(I, p, axis, 1)

    def nonzero(self):
        if any(isinstance(x, SV) for x in self.flat):
            # data-dependent shape: fork on every symbolic element
            I = self._interp()
            return SymArray([x if not isinstance(x, SV) else (1 if I.truth(x) else 0) for x in self.flat], self.shape).nonzero()
        res = [[] for _ in self.shape]
        for idx in itertools.product(*[range(s) for s in self.shape]):
            off = sum(i * s for i, s in zip(idx, self._strides()))
            if self.flat[off]:
                for k, i in enumerate(idx):
                    res[k].append(i)
        return tuple(SymArray(r, (len(r),)) for r in res)

    _INTERP = None

    def _interp(self):
        return SymArray._INTERP

    def _merge(self, interp, cz, other):
        if isinstance(other, SymArray) and other.shape == self.shape:
            m = SymArray([interp.merge_values(cz, a, b) for a, b in zip(self.flat, other.flat)], self.shape)
            m._uncertain_view = True  # stands for one of two existing arrays: a write through it would have to reach that one
            return m
        return None

    def __repr__(self):
        return f"SymArray({self.nested()!r})"


def _b(interp, v):
    cz = interp.cond_term(v)
    return cz if isinstance(cz, bool) else SV(cz)


def numpy_namespace(I):
    SymArray._INTERP = I

    def array(interp, x, dtype=None, **k):
        return SymArray.from_nested(interp, x)

    def zeros(interp, shape, dtype=None):
        if isinstance(shape, int):
            shape = (shape,)
        shape = tuple(shape)
        if any(isinstance(s, SV) for s in shape):
            raise Unsupported("zeros of symbolic shape")
        return SymArray([0] * _prod(shape), shape)

    def ones(interp, shape, dtype=None):
        if isinstance(shape, int):
            shape = (shape,)
        return SymArray([1] * _prod(shape), tuple(shape))

    def eye(interp, n, dtype=None):
        return SymArray([1 if i == j else 0 for i in range(n) for j in range(n)], (n, n))

    def arr(interp, x):
        return x if isinstance(x, SymArray) else SymArray.from_nested(interp, x)

    def np_any(interp, x, axis=None):
        return arr(interp, x).any(axis)

    def np_all(interp, x, axis=None):
        return arr(interp, x).all(axis)

    def np_sum(interp, x, axis=None):
        return arr(interp, x).sum(axis)

    def np_max(interp, x, axis=None):
        return arr(interp, x).max(axis)

    def np_min(interp, x, axis=None):
        return arr(interp, x).min(axis)

    def np_prod(interp, x, axis=None):
        return arr(interp, x).prod(axis)

    def nonzero(interp, x):
        return arr(interp, x).nonzero()

    def _arg_extreme(interp, x, op, axis=None):
        """np.argmax / np.argmin over the flattened array: index of the FIRST extreme element (forks on symbolic data:
        the result is used as an index)"""
        if axis is not None:
            raise Unsupported("np.argmax/argmin with axis")
        vals = list(arr(interp, x).flat)
        if not vals:
            interp.raise_py("ValueError", "attempt to get argmax of an empty sequence")
        vals = [ops.simp(ops.zint(v)) if isinstance(v, SV) and v.is_bool else (int(v) if isinstance(v, bool) else v) for v in vals]
        best, bi = vals[0], 0
        for i in range(1, len(vals)):
            if interp.truth(interp.compare(op, vals[i], best)):
                best, bi = vals[i], i
        return bi

    def argmax(interp, x, axis=None):
        return _arg_extreme(interp, x, "Gt", axis)

    def argmin(interp, x, axis=None):
        return _arg_extreme(interp, x, "Lt", axis)

    def unique(interp, x, return_counts=False, return_index=False, return_inverse=False, axis=None):
        """np.unique of the flattened array: sorted distinct values (forks on symbolic comparisons: data-dependent shape)"""
        if return_index or return_inverse or axis is not None:
            raise Unsupported("np.unique with return_index / return_inverse / axis")
        vals = interp.call(interp.builtins["sorted"], [list(arr(interp, x).flat)], {})
        vals = list(interp.iterate(vals))
        out, counts = [], []
        for v in vals:
            if out and interp.truth(interp.eq(out[-1], v)):
                counts[-1] += 1
            else:
                out.append(v)
                counts.append(1)
        u = SymArray(out, (len(out),))
        if return_counts:
            return (u, SymArray(counts, (len(counts),)))
        return u

    class _Ufunc(NativeObj):
        """np.add / np.multiply / np.subtract: callable element-wise, with .outer"""

        def __init__(self, op):
            self.op = op

        def _call(self, interp, args, kwargs):
            a, b = args
            return arr(interp, a)._binop(interp, self.op, b if not isinstance(b, (list, tuple)) else arr(interp, b), False)

        def outer(self, a, b):
            interp = SymArray._INTERP
            a, b = arr(interp, a), arr(interp, b)
            fa, fb = list(a.flat), list(b.flat)
            return SymArray([interp.binop(self.op, x, y) for x in fa for y in fb], tuple(a.shape) + tuple(b.shape))

    def _ro(a):
        """numpy returns a VIEW here, this model a copy: reads agree, a write through the result is refused"""
        a._uncertain_view = True
        return a

    def count_nonzero(interp, x):
        a = arr(interp, x)
        r = 0
        for v in a.flat:
            cz = interp.cond_term(v)
            r = interp.binop("Add", r, ops.simp(z3.If(cz, z3.IntVal(1), z3.IntVal(0))) if not isinstance(cz, bool) else int(cz))
        return r

    def flip(interp, x, axis=None):
        a = arr(interp, x)
        if a.ndim == 1:
            return SymArray(list(reversed(a.flat)), a.shape)
        if axis is None:
            return SymArray(list(reversed(a.flat)), a.shape)
        nested = a.nested()

        def rec(v, d):
            if d == axis:
                return list(reversed(v))
            return [rec(e, d + 1) for e in v]

        return SymArray.from_nested(interp, rec(nested, 0))

    def roll(interp, x, shift, axis=None):
        a = arr(interp, x)
        if isinstance(shift, SV):
            raise Unsupported("roll by symbolic shift")
        if a.ndim == 1 or axis is None:
            n = len(a.flat)
            if n == 0:
                return a.copy()
            s = shift % n
            return SymArray(a.flat[-s:] + a.flat[:-s] if s else a.flat, a.shape)
        raise Unsupported("roll along axis")

    def hstack(interp, xs):
        items = [arr(interp, x) for x in interp.iterate(xs)]
        if all(i.ndim == 1 for i in items):
            return SymArray([v for i in items for v in i.flat], (sum(i.shape[0] for i in items),))
        rows = items[0].shape[0]
        out = []
        nested = [i.nested() for i in items]
        for r in range(rows):
            for n_ in nested:
                out.extend(n_[r])
        return SymArray(out, (rows, sum(i.shape[1] for i in items)))

    def vstack(interp, xs):
        items = [arr(interp, x) for x in interp.iterate(xs)]
        items = [i if i.ndim == 2 else SymArray(i.flat, (1, i.shape[0])) for i in items]
        return SymArray([v for i in items for v in i.flat], (sum(i.shape[0] for i in items), items[0].shape[1]))

    def concatenate(interp, xs, axis=0):
        items = [arr(interp, x) for x in interp.iterate(xs)]
        if axis == 0:
            if all(i.ndim == 1 for i in items):
                return hstack(interp, items)
            return vstack(interp, items)
        if axis in (1, -1) and all(i.ndim == 2 for i in items):
            return hstack(interp, items)
        raise Unsupported("concatenate axis")

    def expand_dims(interp, x, axis):
        a = arr(interp, x)
        n = a.ndim + 1
        if axis < 0:
            axis += n
        sh = list(a.shape)
        sh.insert(axis, 1)
        return SymArray(a.flat, tuple(sh))

    def squeeze(interp, x, axis=None):
        a = arr(interp, x)
        return SymArray(a.flat, tuple(s for s in a.shape if s != 1))

    def array_equal(interp, a, b):
        a, b = arr(interp, a), arr(interp, b)
        if a.shape != b.shape:
            return False
        return ops.r_and([interp.eq(x, y) for x, y in zip(a.flat, b.flat)])

    def where(interp, c, a=None, b=None):
        if a is None:
            return nonzero(interp, c)
        c = arr(interp, c)
        return c._elementwise(interp, arr(interp, a), lambda x, y: x)  # placeholder; refined below

    def unsupported(name):
        def f(interp, *a, **k):
            raise Unsupported(f"numpy.{name} is not modelled")

        return NativeFn(f, "np." + name)

    ns = dict(
        array=NativeFn(array, "np.array"), asarray=NativeFn(arr, "np.asarray"), argmax=NativeFn(argmax, "np.argmax"), argmin=NativeFn(argmin, "np.argmin"), zeros=NativeFn(zeros, "np.zeros"),
        ones=NativeFn(ones, "np.ones"), eye=NativeFn(eye, "np.eye"), any=NativeFn(np_any, "np.any"),
        all=NativeFn(np_all, "np.all"), sum=NativeFn(np_sum, "np.sum"), max=NativeFn(np_max, "np.max"),
        min=NativeFn(np_min, "np.min"), prod=NativeFn(np_prod, "np.prod"), nonzero=NativeFn(nonzero, "np.nonzero"),
        count_nonzero=NativeFn(count_nonzero, "np.count_nonzero"), flip=NativeFn(lambda i, *a, **k: _ro(flip(i, *a, **k)), "np.flip"),
        roll=NativeFn(roll, "np.roll"), hstack=NativeFn(hstack, "np.hstack"), vstack=NativeFn(vstack, "np.vstack"),
        concatenate=NativeFn(concatenate, "np.concatenate"), expand_dims=NativeFn(lambda i, *a, **k: _ro(expand_dims(i, *a, **k)), "np.expand_dims"),
        squeeze=NativeFn(lambda i, *a, **k: _ro(squeeze(i, *a, **k)), "np.squeeze"), array_equal=NativeFn(array_equal, "np.array_equal"),
        int_=Opaque("np.int_"), int64=Opaque("np.int64"), int32=Opaque("np.int32"), int8=Opaque("np.int8"),
        ndarray=SymArray, unique=NativeFn(unique, "np.unique"), add=_Ufunc("Add"), multiply=_Ufunc("Mult"), subtract=_Ufunc("Sub"), frombuffer=unsupported("frombuffer"),
        argsort=unsupported("argsort"), allclose=unsupported("allclose"),
        linalg=_Linalg(), typing=Opaque("np.typing"), dtype=Opaque("np.dtype"),
    )
    return ns


class _Linalg(NativeObj):
    def svd(self, *a, **k):
        raise Unsupported("numpy.linalg.svd (floating point) is not modelled")

    def matrix_rank(self, *a, **k):
        raise Unsupported("numpy.linalg.matrix_rank is not modelled")
