from .symarray import SymArray, numpy_namespace


def install_stubs(I):
    I.native_modules["numpy"] = numpy_namespace(I)
