import os

from .symarray import SymArray, numpy_namespace

SRC = os.path.join(os.path.dirname(os.path.dirname(os.path.abspath(__file__))), "stubs_src")

STUB_SOURCES = {
    "xdsl.ir": "xdsl_ir.py",
    "xdsl.ir.core": "xdsl_ir.py",
    "xdsl.irdl": "xdsl_irdl.py",
    "xdsl.dialects.builtin": "xdsl_dialects_builtin.py",
    "xdsl.dialects.arith": "xdsl_dialects_arith.py",
    "xdsl.dialects.memref": "xdsl_dialects_memref.py",
    "xdsl.dialects.llvm": "xdsl_dialects_llvm.py",
    "xdsl.dialects.scf": "xdsl_dialects_scf.py",
    "xdsl.traits": "xdsl_traits.py",
    "xdsl.dialects.utils": "xdsl_dialects_utils.py",
    "xdsl.dialects.func": "xdsl_dialects_func.py",
    "xdsl.dialects.linalg": "xdsl_dialects_linalg.py",
    "xdsl.builder": "xdsl_builder.py",
    "minimalloc": "minimalloc.py",
    "xdsl.dialects.tosa": "xdsl_dialects_tosa.py",
    "xdsl.dialects.tensor": "xdsl_dialects_tensor.py",
    "xdsl.utils.hints": "xdsl_utils_hints.py",
    "xdsl.pattern_rewriter": "xdsl_pattern_rewriter.py",
    "xdsl.rewriter": "xdsl_pattern_rewriter.py",
    "xdsl.passes": "xdsl_passes.py",
    "xdsl.context": "xdsl_passes.py",
    "xdsl.utils.exceptions": "xdsl_utils_exceptions.py",
    "xdsl.parser": "xdsl_parser.py",
    "xdsl.dialects.affine": "xdsl_dialects_affine.py",
}


def _param_names(interp, obj):
    """declared parameter names of a ParametrizedAttribute subclass: the annotated names of the
    non-stub classes of its MRO, base first (what irdl's param_def collection does)"""
    from ..values import NativeFn, Obj

    names = []
    for c in reversed(obj.cls.mro):
        if c.module.startswith("xdsl."):
            continue
        for n, _ in getattr(c, "annotations", []):
            if n not in names and n not in ("name",):
                names.append(n)
    return names


def install_stubs(I):
    from ..values import NativeFn

    I.native_modules["numpy"] = numpy_namespace(I)
    I.native_modules["pyvc.stubhelpers"] = dict(param_names=NativeFn(_param_names, "param_names"))
    from .irdl import install_irdl

    install_irdl(I)
    for mod, fn in STUB_SOURCES.items():
        p = os.path.join(SRC, fn)
        if os.path.exists(p):
            I.stub_sources[mod] = p
