import os

from .symarray import SymArray, numpy_namespace

SRC = os.path.join(os.path.dirname(os.path.dirname(os.path.abspath(__file__))), "stubs_src")

STUB_SOURCES = {
    "xdsl.ir": "xdsl_ir.py",
    "xdsl.ir.core": "xdsl_ir.py",
    "xdsl.irdl": "xdsl_irdl.py",
    "xdsl.dialects.builtin": "xdsl_dialects_builtin.py",
    "xdsl.dialects.arith": "xdsl_dialects_arith.py",
    "xdsl.dialects.memref": "xdsl_dialects_memref.py",
}


def install_stubs(I):
    I.native_modules["numpy"] = numpy_namespace(I)
    for mod, fn in STUB_SOURCES.items():
        p = os.path.join(SRC, fn)
        if os.path.exists(p):
            I.stub_sources[mod] = p
