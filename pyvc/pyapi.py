"""Interpreted-side implementation of the contract API (`pyvc.api` as seen by contract modules
when they are executed symbolically)."""
from __future__ import annotations

import z3

from . import ops
from .values import SV, ClassV, NativeFn, NativeObj, Obj, Opaque, PathAbort, Unsupported


class SymFactory(NativeObj):
    """`sym` argument of a contract's args(): creates named symbolic inputs."""

    def __init__(self, interp, concrete=None):
        self._interp = interp
        self._concrete = concrete  # callable(name, kind, lo, hi) -> python value, for all-concrete runs

    def int(self, name, lo=None, hi=None):
        if self._concrete is not None:
            return self._concrete(name, "int", lo, hi)
        v = self._interp.ctx.sym_int(name)
        if lo is not None:
            self._interp.ctx.assume(v.t >= lo)
        if hi is not None:
            self._interp.ctx.assume(v.t <= hi)
        return v

    def bool(self, name):
        if self._concrete is not None:
            return self._concrete(name, "bool", None, None)
        return self._interp.ctx.sym_bool(name)

    def bv(self, name, width):
        if self._concrete is not None:
            return self._concrete(name, "bv", 0, (1 << width) - 1)
        return self._interp.ctx.sym_bv(name, width)

    def sbv(self, name, width, lo=None, hi=None):
        """a width-bit word read as a SIGNED number in [lo, hi]: a bit-vector term symbolically (the range is assumed
        with signed comparisons), a signed python int natively"""
        if self._concrete is not None:
            return self._concrete(name, "sbv:%d" % width, lo, hi)
        v = self._interp.ctx.sym_bv(name, width)
        if lo is not None:
            self._interp.ctx.assume(z3.BitVecVal(lo, width) <= v.t)
        if hi is not None:
            self._interp.ctx.assume(v.t <= z3.BitVecVal(hi, width))
        return v

    @property
    def symbolic(self):
        return self._concrete is None


def install_api(I):
    def check(interp, name, cond, generalize=None):
        cz = interp.cond_term(cond)
        interp.ctx.oblige(str(name), cz, generalize=[g for g in generalize if isinstance(g, SV)] if generalize else None)
        return None

    def assume(interp, cond):
        cz = interp.cond_term(cond)
        interp.ctx.assume(cz)
        return None

    def implies(interp, a, b):
        return ops.r_or([ops.r_not(_b(interp, a)), _b(interp, b)])

    def _b(interp, x):
        cz = interp.cond_term(x)
        return cz if isinstance(cz, bool) else SV(cz)

    def ite(interp, c, a, b):
        cz = interp.cond_term(c)
        if isinstance(cz, bool):
            return a if cz else b
        return interp.merge_values(cz, a, b)

    def conj(interp, xs):
        return ops.r_and([_b(interp, x) for x in interp.iterate(xs)])

    def disj(interp, xs):
        return ops.r_or([_b(interp, x) for x in interp.iterate(xs)])

    def note(interp, *a):
        interp.ctx.events.append(tuple(a))

    def contract(interp, x=None, **kw):
        if isinstance(x, ClassV):
            return x
        return NativeFn(lambda interp_, cls: cls, "contract-decorator")

    def is_symbolic(interp, v):
        return isinstance(v, SV)

    def fresh_int(interp, prefix="g"):
        """an unconstrained ghost integer (e.g. a quantified index in witness form)"""
        return interp.ctx.sym_int(f"{prefix}#{len(interp.ctx.symbols)}")

    def uf(interp, name, *args):
        """application of an uninterpreted Int-valued function"""
        f = z3.Function(str(name), *([z3.IntSort()] * len(args)), z3.IntSort())
        return SV(f(*[ops.zint(a) for a in args]))

    def ufb(interp, name, *args):
        """application of an uninterpreted Bool-valued function (an abstract predicate)"""
        f = z3.Function(str(name), *([z3.IntSort()] * len(args)), z3.BoolSort())
        return SV(f(*[ops.zint(a) for a in args]))

    def den(interp, x):
        """run-time integer denoted by an SSA value / single-result op (IR-term stubs)"""
        if isinstance(x, (int, SV)):
            return x
        return interp.call(interp.load_module("xdsl.ir").globals["den"], [x], {})

    def mk_memref_value(interp, type, rt_shape, rt_strides=None, rt_offset=0, rt_ptr=None):
        cls = interp.load_module("xdsl.dialects.memref").globals["MemRefValue"]
        return interp.call(cls, [type, rt_shape, rt_strides, rt_offset, rt_ptr], {})

    def _tobv(x, w):
        if isinstance(x, SV):
            if x.is_bv:
                if x.t.size() == w:
                    return x.t
                return z3.ZeroExt(w - x.t.size(), x.t) if x.t.size() < w else z3.Extract(w - 1, 0, x.t)
            return z3.Int2BV(ops.zint(x), w)
        return z3.BitVecVal(int(x), w)

    def bv_const(interp, v, w):
        return SV(_tobv(v, w))

    def bv_shl(interp, a, b, w):
        return SV(z3.simplify(_tobv(a, w) << _tobv(b, w)))

    def bv_lshr(interp, a, b, w):
        return SV(z3.simplify(z3.LShR(_tobv(a, w), _tobv(b, w))))

    def bv_or(interp, a, b, w):
        return SV(z3.simplify(_tobv(a, w) | _tobv(b, w)))

    def bv_and(interp, a, b, w):
        return SV(z3.simplify(_tobv(a, w) & _tobv(b, w)))

    def bv_sext(interp, a, from_w, to_w):
        t = _tobv(a, from_w)
        return SV(z3.simplify(z3.SignExt(to_w - from_w, t))) if to_w > from_w else SV(z3.simplify(z3.Extract(to_w - 1, 0, t)))

    def bv_zext(interp, a, from_w, to_w):
        t = _tobv(a, from_w)
        return SV(z3.simplify(z3.ZeroExt(to_w - from_w, t))) if to_w > from_w else SV(z3.simplify(z3.Extract(to_w - 1, 0, t)))

    def bv_add(interp, a, b, w):
        return SV(z3.simplify(_tobv(a, w) + _tobv(b, w)))

    def bv_sub(interp, a, b, w):
        return SV(z3.simplify(_tobv(a, w) - _tobv(b, w)))

    def bv_mul(interp, a, b, w):
        return SV(z3.simplify(_tobv(a, w) * _tobv(b, w)))

    def bv_ashr(interp, a, b, w):
        return SV(z3.simplify(_tobv(a, w) >> _tobv(b, w)))

    def bv_sle(interp, a, b, w):
        return ops.simp(_tobv(a, w) <= _tobv(b, w))

    def bv_smin(interp, a, b, w):
        x, y = _tobv(a, w), _tobv(b, w)
        return SV(z3.simplify(z3.If(x <= y, x, y)))

    def bv_smax(interp, a, b, w):
        x, y = _tobv(a, w), _tobv(b, w)
        return SV(z3.simplify(z3.If(x >= y, x, y)))

    def bv_eq(interp, a, b, w):
        return ops.simp(_tobv(a, w) == _tobv(b, w))

    def bv_ult(interp, a, b, w):
        return ops.simp(z3.ULT(_tobv(a, w), _tobv(b, w)))

    def unsupported(interp, msg):
        """for stubs: this use of the dependency is not modelled -> the job is undecided (never an exception of the program)"""
        raise Unsupported("stub: " + str(msg))

    def subst(interp, term, pairs):
        """term[var := value ...]: simultaneous substitution of symbolic CONSTANTS (sym.int / sym.bool symbols) by values"""
        if not isinstance(term, SV):
            return term
        ps = []
        for (var, val) in interp.iterate(pairs):
            if not isinstance(var, SV):
                raise Unsupported("subst: the variable must be a symbolic constant")
            v = val.t if isinstance(val, SV) else (z3.BoolVal(val) if isinstance(val, bool) else z3.IntVal(int(val)))
            ps.append((var.t, v))
        return SV(z3.simplify(z3.substitute(term.t, *ps)))

    def mk_ssa(interp, den_, type=None):
        cls = interp.load_module("xdsl.ir").globals["SSAValue"]
        return interp.call(cls, [den_, type], {})

    def mk_opresult(interp, den_, type=None):
        """an OpResult (of an anonymous op) holding a given run-time value"""
        xir = interp.load_module("xdsl.ir").globals
        op = interp.call(xir["Operation"], [], {})
        interp.call(interp.getattr(op, "_init_op"), [[], [den_], [type]], {})
        return interp.getitem(interp.getattr(op, "results"), 0)

    def mk_ident_value(interp, tag, type=None):
        """an SSA value whose IDENTITY is the (symbolic) integer `tag`: `==`, `is` and `in` on two such values mean
        tag equality - models 'these two operands may or may not be the same SSA value'"""
        cls = interp.load_module("xdsl.ir").globals["SSAValue"]
        v = interp.call(cls, [None, type], {})
        v.tag = tag
        return v

    def set_identity(interp, obj, tag):
        obj.tag = tag
        return obj

    def rt_shape(interp, m, d):
        return interp.getitem(interp.getattr(m, "rt_shape"), d)

    def rt_stride(interp, m, d):
        return interp.getitem(interp.getattr(m, "rt_strides"), d)

    def unreachable(interp, why=""):
        interp.ctx.oblige(f"unreachable: {why}", False)

    def performing_rewriter(interp, op):
        """a PatternRewriter whose insertions (and the detaches of the ops it moves) are PERFORMED on the view"""
        cls = interp.load_module("xdsl.pattern_rewriter").globals["PerformingPatternRewriter"]
        return interp.call(cls, [op], {})

    I.native_modules["pyvc.api"] = dict(
        performing_rewriter=NativeFn(performing_rewriter, "performing_rewriter"),
        check=NativeFn(check, "check"),
        assume=NativeFn(assume, "assume"),
        implies=NativeFn(implies, "implies"),
        ite=NativeFn(ite, "ite"),
        conj=NativeFn(conj, "conj"),
        disj=NativeFn(disj, "disj"),
        note=NativeFn(note, "note"),
        contract=NativeFn(contract, "contract"),
        is_symbolic=NativeFn(is_symbolic, "is_symbolic"),
        fresh_int=NativeFn(fresh_int, "fresh_int"),
        unreachable=NativeFn(unreachable, "unreachable"),
        uf=NativeFn(uf, "uf"),
        mk_ident_value=NativeFn(mk_ident_value, "mk_ident_value"), set_identity=NativeFn(set_identity, "set_identity"),
        mk_opresult=NativeFn(mk_opresult, "mk_opresult"),
        bv_const=NativeFn(bv_const, "bv_const"), bv_shl=NativeFn(bv_shl, "bv_shl"), bv_lshr=NativeFn(bv_lshr, "bv_lshr"),
        bv_or=NativeFn(bv_or, "bv_or"), bv_and=NativeFn(bv_and, "bv_and"), bv_eq=NativeFn(bv_eq, "bv_eq"),
        bv_ult=NativeFn(bv_ult, "bv_ult"), bv_ashr=NativeFn(bv_ashr, "bv_ashr"), bv_sle=NativeFn(bv_sle, "bv_sle"),
        bv_smin=NativeFn(bv_smin, "bv_smin"), bv_smax=NativeFn(bv_smax, "bv_smax"), mk_ssa=NativeFn(mk_ssa, "mk_ssa"), subst=NativeFn(subst, "subst"), unsupported=NativeFn(unsupported, "unsupported"), bv_sext=NativeFn(bv_sext, "bv_sext"), bv_zext=NativeFn(bv_zext, "bv_zext"),
        bv_add=NativeFn(bv_add, "bv_add"), bv_sub=NativeFn(bv_sub, "bv_sub"), bv_mul=NativeFn(bv_mul, "bv_mul"),
        rt_shape=NativeFn(rt_shape, "rt_shape"),
        rt_stride=NativeFn(rt_stride, "rt_stride"),
        den=NativeFn(den, "den"),
        mk_memref_value=NativeFn(mk_memref_value, "mk_memref_value"),
        ufb=NativeFn(ufb, "ufb"),
        SYMBOLIC=True,
    )
