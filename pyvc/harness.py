"""Run one contract on one shape: enumerate all paths of the real function symbolically, emit and
discharge obligations, return a JSON-able result."""
from __future__ import annotations

import hashlib
import ast
import os
import time
import traceback

import z3

from . import ops
from .ctx import Ctx
from .interp import Interp, PyRaise
from .pyapi import SymFactory
from .values import SV, BoundMethod, ClassV, FuncV, MergeFail, NativeFn, Obj, PathAbort, Unsupported


def setup_interp(ctx, contract_module):
    I = Interp(ctx)
    from .stubs import install_stubs

    install_stubs(I)
    mod = I.load_module(contract_module)
    errs = mod.globals.get("__load_errors__")
    if errs:
        raise RuntimeError(f"contract module {contract_module} failed to load: {errs}")
    return I, mod


def func_source_hash(I, target):
    f = target.func if isinstance(target, BoundMethod) else target
    if isinstance(f, FuncV):
        m = I.modules.get(f.module)
        try:
            seg = ast.dump(f.node)
            return dict(file=getattr(m, "path", None), line=f.node.lineno, sha256=hashlib.sha256(seg.encode()).hexdigest()[:16])
        except Exception:
            return dict(file=getattr(m, "path", None))
    return dict(file=None)


def run_job(contract_module, cls_name, shape_idx, tier="quick", max_paths=None, concrete=None, only_canary=False):
    """Symbolic run. Returns dict(result)."""
    t0 = time.time()
    ctx = Ctx(max_paths=max_paths or int(os.environ.get("PYVC_MAX_PATHS", "30000")))
    res = dict(contract=cls_name, module=contract_module, shape_idx=shape_idx, obligations=[], paths=0,
               outcomes={}, unsupported=None, error=None, assumptions=[], raises=[])
    try:
        I, mod = setup_interp(ctx, contract_module)
        C = mod.globals[cls_name]
        shapes = I.getattr(C, "shapes")
        sh = shapes[shape_idx]
        res["shape"] = _plain(sh)
        qual = _target_of(I, C)
        res["target"] = qual
        target = I.resolve(qual) if qual else None
        res["source"] = func_source_hash(I, target) if target is not None else {}
        f_args = I.getattr(C, "args")
        f_req = I.getattr(C, "requires", None)
        f_ens = I.getattr(C, "ensures", None)
        f_can = I.getattr(C, "canary", None)
        f_run = I.getattr(C, "run", None)
        f_rai = I.getattr(C, "raises", None)
        f_setup = I.getattr(C, "setup", None)
        total = I.getattr(C, "total", False)
        allowed = tuple(I.getattr(C, "allowed_raises", ()))
        if f_setup is not None:
            I.call(f_setup, [I, sh], {})
        install_modular(I, C, qual)
        I.permissive_opaque = bool(I.getattr(C, "permissive", False))
        n_returning = 0
        while True:
            ctx.begin_path()
            I.call_depth = 0
            I.steps = 0
            outcome = None
            try:
                sym = SymFactory(I, concrete)
                a = I.call(f_args, [sh, sym], {})
                a = list(I.iterate(a))
                if f_req is not None:
                    r = I.call(f_req, [sh, a], {})
                    if r is not None:
                        ctx.assume(I.cond_term(r))
                I.outer_call_pending = True
                try:
                    if f_run is not None:
                        ret = I.call(f_run, [sh, a], {})
                    else:
                        ret = I.call(target, a[:_arity(target, len(a))], {})  # extra entries of `a` are ghost/witness values
                    raised = None
                except PyRaise as pr:
                    raised = pr
                    ret = None
                if raised is not None:
                    en = raised.exc.cls.name
                    outcome = "raise:" + en
                    if f_rai is not None:
                        I.call(f_rai, [sh, a, en], {})
                    elif en == "AssertionError" and not total:
                        pass  # the function's own assert: input outside its domain
                    elif en in allowed:
                        pass
                    elif total:
                        ctx.oblige(f"total: no {en}", False, kind="total")
                    res["raises"].append((ctx.path_no, en, str(raised)[:200]))
                else:
                    outcome = "return"
                    n_returning += 1
                    if f_ens is not None and not only_canary:
                        I.call(f_ens, [sh, a, ret], {})
                    if f_can is not None:
                        n0 = len(ctx.pending)
                        I.call(f_can, [sh, a, ret], {})
                        for ob in ctx.pending[n0:]:
                            ob.kind = "canary"
                ctx.commit_path(outcome)
            except LoopCut:
                ctx.commit_path("loop-cut")
                n_returning += 1
            except PathAbort:
                ctx.path_outcomes.append((ctx.path_no, "infeasible"))
            except PyRaise as pr:
                # exception in args/requires/ensures: contract error
                raise RuntimeError(f"contract code raised {pr}")
            res["paths"] += 1
            if res["paths"] >= ctx.max_paths:
                res["unsupported"] = f"path budget {ctx.max_paths} exceeded"
                break
            if not ctx.next_path():
                break
        res["returning_paths"] = n_returning
        for _, o in ctx.path_outcomes:
            res["outcomes"][o] = res["outcomes"].get(o, 0) + 1
        res["assumptions"] = sorted(I.assumptions)
        res["explore_secs"] = time.time() - t0
        # discharge
        for ob in ctx.obligations:
            ctx.discharge(ob)
            res["obligations"].append(dict(name=ob.name, kind=ob.kind, status=ob.status, backend=ob.backend,
                                           secs=round(ob.secs, 4), path=ob.path, model=ob.model, note=ob.note,
                                           formula=_fmt(ob) if (ob.status != "proved" or ob.path <= 1) else None))
        res["feas"] = ctx.stats
    except Unsupported as e:
        res["unsupported"] = str(e)
        res["trace"] = traceback.format_exc()[-1500:]
    except Exception as e:  # engine / contract error
        res["error"] = f"{type(e).__name__}: {e}"
        res["trace"] = traceback.format_exc()[-3000:]
    res["secs"] = time.time() - t0
    return res


def _arity(target, n):
    f = target.func if isinstance(target, BoundMethod) else target
    if isinstance(f, FuncV) and f.node.args.vararg is None:
        k = len(f.node.args.posonlyargs) + len(f.node.args.args)
        if isinstance(target, BoundMethod):
            k -= 1
        return min(k, n)
    return n


class LoopCut(Exception):
    """end of an arbitrary loop iteration after re-establishing the invariant"""


def _for_ordinals(fnode):
    out = {}
    n = 0
    for node in ast.walk(fnode):
        if isinstance(node, (ast.For, ast.While)):
            pass
    # deterministic pre-order numbering
    def rec(stmts):
        nonlocal n
        for st in stmts:
            if isinstance(st, (ast.For, ast.While)):
                out[id(st)] = n
                n += 1
            for fld in ("body", "orelse", "finalbody", "handlers"):
                sub = getattr(st, fld, None)
                if isinstance(sub, list):
                    rec([x for x in sub if isinstance(x, ast.stmt)] + [y for x in sub if isinstance(x, ast.ExceptHandler) for y in x.body])
            if isinstance(st, ast.Match):
                for c in st.cases:
                    rec(c.body)
    rec(fnode.body)
    return out


def _assigned_names(stmts):
    names = set()
    for st in stmts:
        for node in ast.walk(st):
            if isinstance(node, ast.Name) and isinstance(node.ctx, ast.Store):
                names.add(node.id)
    return names


def install_modular(I, C, target_qual):
    """modular call contracts, yield hooks and loop cuts declared by a contract class"""
    from .builtins import SymRange
    from .interp import BreakSig, ContinueSig, _MISSING

    modular = I.getattr(C, "modular", None) or {}
    for q, handler in modular.items():
        def make(q, handler):
            def h(interp, f, args, kwargs):
                if q == target_qual and getattr(interp, "outer_call_pending", False):
                    interp.outer_call_pending = False
                    return _MISSING
                local = interp.bind_args(f, args, kwargs)
                return interp.call(handler, [local], {})
            return h
        I.contracts[q] = make(q, handler)
    observe = I.getattr(C, "observe", None) or {}
    for q, cb in observe.items():
        def mk(q, cb):
            def ob(interp, f, args, kwargs, r):
                local = interp.bind_args(f, args, kwargs)
                interp.call(cb, [local, r], {})
            return ob
        I.observers[q] = mk(q, cb)
    on_yield = I.getattr(C, "on_yield", None)
    on_yield_from = I.getattr(C, "on_yield_from", None)
    if on_yield is not None:
        def yh(interp, frame, v):
            if frame.func is not None and frame.func.qualname == target_qual:
                interp.call(on_yield, [frame.args0, v], {})
        I.yield_hook = yh
    if on_yield_from is not None:
        def yfh(interp, frame, v):
            if frame.func is not None and frame.func.qualname == target_qual:
                interp.call(on_yield_from, [frame.args0, v], {})
                return True
            return False
        I.yield_from_hook = yfh
    loops = I.getattr(C, "loops", None)
    if loops:
        def lh(interp, st, it, scope):
            if not isinstance(it, SymRange):
                return False
            fr = scope.frame
            if fr is None or fr.func is None or fr.func.qualname != target_qual:
                raise Unsupported("symbolic-range loop outside the function under contract")
            ords = getattr(fr.func, "_loop_ords", None)
            if ords is None:
                ords = fr.func._loop_ords = _for_ordinals(fr.func.node)
            k = ords.get(id(st))
            spec = loops.get(k)
            if spec is None:
                raise Unsupported(f"loop #{k} over a symbolic range has no invariant")
            ctx = interp.ctx
            env0 = dict(fr.args0)
            # 1. establish
            interp.call(spec["inv"], [env0, dict(scope.vars), "established on entry"], {})
            # 2. havoc the names assigned in the body, 3. assume the invariant
            assigned = sorted(_assigned_names(st.body) & set(scope.vars))
            new = interp.call(spec["havoc"], [env0, dict(scope.vars), assigned], {})
            from .values import Opaque
            for nm in assigned:
                if nm not in new:
                    scope.vars[nm] = Opaque("havoced:" + nm)
            scope.vars.update(new)
            interp.call(spec["assume"], [env0, dict(scope.vars)], {})
            n = it._len(interp)
            # 4. either one more (arbitrary) iteration, then cut; or the loop is done
            if ctx.decide(ops.zbool(interp.compare("Gt", n, 0))) and ctx.decide(z3.Bool(f"loop{k}!iterate")):
                interp.assign(st.target, ctx.fresh("iter"), scope)
                try:
                    interp.exec_block(st.body, scope)
                except ContinueSig:
                    pass
                except BreakSig:
                    return True
                interp.call(spec["inv"], [env0, dict(scope.vars), "preserved by an iteration"], {})
                raise LoopCut()
            return True
        I.loop_hook = lh


def _fmt(ob):
    try:
        pc = z3.simplify(z3.And(*ob.pc)) if ob.pc else z3.BoolVal(True)
        s = f"{pc}  ==>  {z3.simplify(ob.clause)}"
        return s if len(s) < 1200 else s[:1200] + " ..."
    except Exception:
        return None


def _plain(v):
    if isinstance(v, dict):
        return {str(k): _plain(x) for k, x in v.items()}
    if isinstance(v, (list, tuple)):
        return [_plain(x) for x in v]
    if isinstance(v, (int, str, bool, float)) or v is None:
        return v
    return repr(v)


def _target_of(I, C):
    t = I.getattr(C, "target", None)
    return t
