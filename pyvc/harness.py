"""Run one contract on one shape: enumerate all paths of the real function symbolically, emit and
discharge obligations, return a JSON-able result."""
from __future__ import annotations

import hashlib
import ast
import os
import time
import traceback

import z3

from . import ops
from .ctx import Ctx
from .interp import Interp, PyRaise
from .pyapi import SymFactory
from .values import SV, BoundMethod, ClassV, FuncV, MergeFail, NativeFn, Obj, PathAbort, Unsupported


def setup_interp(ctx, contract_module):
    I = Interp(ctx)
    from .stubs import install_stubs

    install_stubs(I)
    mod = I.load_module(contract_module)
    errs = mod.globals.get("__load_errors__")
    if errs:
        raise RuntimeError(f"contract module {contract_module} failed to load: {errs}")
    return I, mod


def func_source_hash(I, target):
    f = target.func if isinstance(target, BoundMethod) else target
    if isinstance(f, FuncV):
        m = I.modules.get(f.module)
        try:
            seg = ast.dump(f.node)
            return dict(file=getattr(m, "path", None), line=f.node.lineno, sha256=hashlib.sha256(seg.encode()).hexdigest()[:16])
        except Exception:
            return dict(file=getattr(m, "path", None))
    return dict(file=None)


def run_job(contract_module, cls_name, shape_idx, tier="quick", max_paths=None, concrete=None, only_canary=False):
    """Symbolic run. Returns dict(result)."""
    t0 = time.time()
    ctx = Ctx(max_paths=max_paths or int(os.environ.get("PYVC_MAX_PATHS", "30000")))
    res = dict(contract=cls_name, module=contract_module, shape_idx=shape_idx, obligations=[], paths=0,
               outcomes={}, unsupported=None, error=None, assumptions=[], raises=[])
    try:
        I, mod = setup_interp(ctx, contract_module)
        C = mod.globals[cls_name]
        shapes = I.getattr(C, "shapes")
        sh = shapes[shape_idx]
        res["shape"] = _plain(sh)
        qual = _target_of(I, C)
        res["target"] = qual
        target = I.resolve(qual) if qual else None
        res["source"] = func_source_hash(I, target) if target is not None else {}
        f_args = I.getattr(C, "args")
        f_req = I.getattr(C, "requires", None)
        f_ens = I.getattr(C, "ensures", None)
        f_can = I.getattr(C, "canary", None)
        f_run = I.getattr(C, "run", None)
        f_rai = I.getattr(C, "raises", None)
        f_setup = I.getattr(C, "setup", None)
        total = I.getattr(C, "total", False)
        allowed = tuple(I.getattr(C, "allowed_raises", ()))
        if f_setup is not None:
            I.call(f_setup, [I, sh], {})
        hooks = I.getattr(C, "__pyvc_hooks__", None)
        n_returning = 0
        while True:
            ctx.begin_path()
            I.call_depth = 0
            I.steps = 0
            outcome = None
            try:
                sym = SymFactory(I, concrete)
                a = I.call(f_args, [sh, sym], {})
                a = list(I.iterate(a))
                if f_req is not None:
                    r = I.call(f_req, [sh, a], {})
                    if r is not None:
                        ctx.assume(I.cond_term(r))
                ghost = {}
                try:
                    if f_run is not None:
                        ret = I.call(f_run, [sh, a], {})
                    else:
                        ret = I.call(target, a, {})
                    raised = None
                except PyRaise as pr:
                    raised = pr
                    ret = None
                if raised is not None:
                    en = raised.exc.cls.name
                    outcome = "raise:" + en
                    if f_rai is not None:
                        I.call(f_rai, [sh, a, en], {})
                    elif en == "AssertionError" and not total:
                        pass  # the function's own assert: input outside its domain
                    elif en in allowed:
                        pass
                    elif total:
                        ctx.oblige(f"total: no {en}", False, kind="total")
                    res["raises"].append((ctx.path_no, en, str(raised)[:200]))
                else:
                    outcome = "return"
                    n_returning += 1
                    if f_ens is not None and not only_canary:
                        I.call(f_ens, [sh, a, ret], {})
                    if f_can is not None:
                        n0 = len(ctx.pending)
                        I.call(f_can, [sh, a, ret], {})
                        for ob in ctx.pending[n0:]:
                            ob.kind = "canary"
                ctx.commit_path(outcome)
            except PathAbort:
                ctx.path_outcomes.append((ctx.path_no, "infeasible"))
            except PyRaise as pr:
                # exception in args/requires/ensures: contract error
                raise RuntimeError(f"contract code raised {pr}")
            res["paths"] += 1
            if res["paths"] >= ctx.max_paths:
                res["unsupported"] = f"path budget {ctx.max_paths} exceeded"
                break
            if not ctx.next_path():
                break
        res["returning_paths"] = n_returning
        for _, o in ctx.path_outcomes:
            res["outcomes"][o] = res["outcomes"].get(o, 0) + 1
        res["assumptions"] = sorted(I.assumptions)
        res["explore_secs"] = time.time() - t0
        # discharge
        for ob in ctx.obligations:
            ctx.discharge(ob)
            res["obligations"].append(dict(name=ob.name, kind=ob.kind, status=ob.status, backend=ob.backend,
                                           secs=round(ob.secs, 4), path=ob.path, model=ob.model, note=ob.note,
                                           formula=_fmt(ob) if (ob.status != "proved" or ob.path <= 1) else None))
        res["feas"] = ctx.stats
    except Unsupported as e:
        res["unsupported"] = str(e)
        res["trace"] = traceback.format_exc()[-1500:]
    except Exception as e:  # engine / contract error
        res["error"] = f"{type(e).__name__}: {e}"
        res["trace"] = traceback.format_exc()[-3000:]
    res["secs"] = time.time() - t0
    return res


def _fmt(ob):
    try:
        pc = z3.simplify(z3.And(*ob.pc)) if ob.pc else z3.BoolVal(True)
        s = f"{pc}  ==>  {z3.simplify(ob.clause)}"
        return s if len(s) < 1200 else s[:1200] + " ..."
    except Exception:
        return None


def _plain(v):
    if isinstance(v, dict):
        return {str(k): _plain(x) for k, x in v.items()}
    if isinstance(v, (list, tuple)):
        return [_plain(x) for x in v]
    if isinstance(v, (int, str, bool, float)) or v is None:
        return v
    return repr(v)


def _target_of(I, C):
    t = I.getattr(C, "target", None)
    return t
