"""Import shim for NATIVE runs of snaxc (replay, differential).  The installed xdsl rejects
`irdl_options = [...]` (a list) in five dialect classes; coerce to a tuple before xdsl sees it.
Nothing in /repo is changed.  Import this module before any `snaxc` module."""
import os
import sys
_REPO = os.environ.get("PYVC_REPO", "/repo")
if not sys.path or sys.path[0] != _REPO:
    sys.path.insert(0, _REPO)
import xdsl.irdl.operations as _ops

_orig = _ops.OpDef.from_pyrdl


def _patched(pyrdl_def):
    for c in pyrdl_def.__mro__:
        v = c.__dict__.get("irdl_options")
        if isinstance(v, list):
            setattr(c, "irdl_options", tuple(v))
    return _orig(pyrdl_def)


if getattr(_ops.OpDef.from_pyrdl, "__name__", "") != "_patched":
    _ops.OpDef.from_pyrdl = staticmethod(_patched)


# `minimalloc` (the external allocator solver) is not installed: snaxc/transforms/snax_allocate.py imports it at
# module level, so provide an import-only placeholder (the MiniMallocate pattern itself is NOT exercised through it)
try:
    import minimalloc  # noqa: F401
except ImportError:
    import types as _types

    _m = _types.ModuleType("minimalloc")

    class _Unavailable:
        def __init__(self, *a, **k):
            raise RuntimeError("minimalloc is not installed in this sandbox")

    _m.Buffer = _Unavailable
    _m.Problem = _Unavailable
    sys.modules["minimalloc"] = _m
