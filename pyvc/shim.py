"""Import shim for NATIVE runs of snaxc (replay, differential).  The installed xdsl rejects
`irdl_options = [...]` (a list) in five dialect classes; coerce to a tuple before xdsl sees it.
Nothing in /repo is changed.  Import this module before any `snaxc` module."""
import os
import sys
_REPO = os.environ.get("PYVC_REPO", "/repo")
if not sys.path or sys.path[0] != _REPO:
    sys.path.insert(0, _REPO)
import xdsl.irdl.operations as _ops

_orig = _ops.OpDef.from_pyrdl


def _patched(pyrdl_def):
    for c in pyrdl_def.__mro__:
        v = c.__dict__.get("irdl_options")
        if isinstance(v, list):
            setattr(c, "irdl_options", tuple(v))
    return _orig(pyrdl_def)


if getattr(_ops.OpDef.from_pyrdl, "__name__", "") != "_patched":
    _ops.OpDef.from_pyrdl = staticmethod(_patched)
