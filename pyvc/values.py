"""Value model of the pyvc symbolic executor.

Concrete values are ordinary Python objects (int, bool, str, None, tuple, list, dict, set, range).
Symbolic values are `SV` wrappers around z3 terms (Int, Bool, BitVec).  `SV` deliberately refuses
native `bool()`, `==` and `hash()`: any accidental use of a symbolic value by CPython semantics
(instead of the interpreter's encoding) raises instead of silently deciding something."""
from __future__ import annotations

import z3


class Unsupported(Exception):
    """The executor met a construct outside the supported subset: the function is UNDECIDED."""


class PathAbort(Exception):
    """Current path is infeasible or filtered (assume false)."""


class MergeFail(Exception):
    """Speculative (if-conversion) execution cannot be merged; fall back to forking."""


class SV:
    __slots__ = ("t",)

    def __init__(self, t):
        self.t = t

    def __bool__(self):
        raise Unsupported(f"native truth value of symbolic term {self.t}")

    def __eq__(self, other):  # pragma: no cover
        raise Unsupported("native == on symbolic value")

    def __ne__(self, other):  # pragma: no cover
        raise Unsupported("native != on symbolic value")

    def __hash__(self):
        raise Unsupported("hash of symbolic value")

    def __index__(self):
        raise Unsupported(f"symbolic value used as a native index: {self.t}")

    def __repr__(self):
        return f"SV({self.t})"

    @property
    def is_bool(self):
        return z3.is_bool(self.t)

    @property
    def is_int(self):
        return z3.is_int(self.t)

    @property
    def is_bv(self):
        return z3.is_bv(self.t)


class SymStr(str):
    """A string that was formatted from symbolic parts: fine in messages, never as a key."""


class Opaque:
    """Permissive placeholder for things the executor does not model (decorator results,
    irdl definitions, imported library objects).  It may be passed around, called and have
    attributes read at module-load time; it must never reach a decision or arithmetic."""

    __slots__ = ("name",)

    def __init__(self, name):
        self.name = name

    def __repr__(self):
        return f"<opaque {self.name}>"


class ClassV:
    def __init__(self, name, bases, ns, module, qualname=None):
        self.name = name
        self.bases = bases  # list of ClassV (opaque / typing bases dropped)
        self.ns = ns
        self.module = module
        self.qualname = qualname or name
        self.is_dataclass = False
        self.frozen = False
        self.is_enum = False
        self.members = None  # enum members (name -> Obj)
        self.mro = self._c3()

    def _c3(self):
        def merge(seqs):
            res = []
            seqs = [list(s) for s in seqs if s]
            while seqs:
                for s in seqs:
                    h = s[0]
                    if not any(h in t[1:] for t in seqs):
                        break
                else:
                    raise Unsupported(f"inconsistent MRO for {self.name}")
                res.append(h)
                seqs = [[x for x in t if x is not h] for t in seqs]
                seqs = [t for t in seqs if t]
            return res

        return [self] + merge([b.mro for b in self.bases] + [list(self.bases)])

    def lookup(self, name):
        for c in self.mro:
            if name in c.ns:
                return c.ns[name], c
        return None, None

    def issubclass(self, other):
        return other in self.mro

    def __repr__(self):
        return f"<class {self.qualname}>"


class Obj:
    __slots__ = ("cls", "fields", "tag")

    def __init__(self, cls, fields=None):
        self.cls = cls
        self.fields = fields if fields is not None else {}
        self.tag = None

    def __repr__(self):
        return f"<{self.cls.name} {self.fields}>"


class FuncV:
    def __init__(self, node, env, module, qualname, owner=None, defaults=None, kwdefaults=None):
        self.node = node
        self.env = env  # defining scope
        self.module = module
        self.qualname = qualname
        self.owner = owner  # ClassV for methods (needed by zero-arg super())
        self.defaults = defaults or []
        self.kwdefaults = kwdefaults or {}
        self.kind = "function"  # function | staticmethod | classmethod | property
        self.is_generator = None
        self.name = getattr(node, "name", "<lambda>")

    def __repr__(self):
        return f"<func {self.qualname}>"


class BoundMethod:
    __slots__ = ("func", "self")

    def __init__(self, func, self_):
        self.func = func
        self.self = self_

    def __repr__(self):
        return f"<bound {self.func!r} of {self.self!r}>"


class NativeFn:
    """A builtin / stub implemented in Python.  Called as fn(interp, *args, **kwargs)."""

    __slots__ = ("fn", "name", "wants_interp")

    def __init__(self, fn, name=None, wants_interp=True):
        self.fn = fn
        self.name = name or getattr(fn, "__name__", "native")
        self.wants_interp = wants_interp

    def __repr__(self):
        return f"<native {self.name}>"


class NativeObj:
    """Base class of stub objects implemented natively (e.g. SymArray).  The interpreter uses
    Python getattr on them and calls the resulting bound methods with evaluated arguments;
    binary operators are routed to `_binop(interp, op, other, reflected)`."""


class PropertyV:
    __slots__ = ("fget",)

    def __init__(self, fget):
        self.fget = fget


class GenList:
    """A generator modelled as the list of its yields with a stateful cursor."""

    def __init__(self, items):
        self.items = list(items)
        self.pos = 0


class ModuleV:
    def __init__(self, name, path=None):
        self.name = name
        self.path = path
        self.globals = {}
        self.loaded = False

    def __repr__(self):
        return f"<module {self.name}>"


def is_sym(v):
    return isinstance(v, SV)
