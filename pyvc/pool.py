"""A small fork-per-job process pool with hard per-job timeouts."""
from __future__ import annotations

import multiprocessing as mp
import os
import time
import traceback


def _child(conn, fn, args):
    try:
        import resource

        lim = int(os.environ.get("PYVC_MEM_GB", "6")) << 30
        resource.setrlimit(resource.RLIMIT_AS, (lim, lim))
    except Exception:
        pass
    try:
        r = fn(*args)
    except BaseException as e:  # noqa
        r = dict(error=f"{type(e).__name__}: {e}", trace=traceback.format_exc()[-3000:])
    try:
        conn.send(r)
    except Exception as e:
        conn.send(dict(error=f"result not sendable: {e}"))
    conn.close()


def run_jobs(jobs, workers=None, timeout_s=600, progress=None):
    """jobs: list of (key, fn, args). Returns {key: result}. A job over `timeout_s` is killed and
    reported as dict(timeout=True)."""
    ctx = mp.get_context("fork")
    workers = workers or int(os.environ.get("PYVC_WORKERS", str(min(16, os.cpu_count() or 4))))
    pending = list(jobs)
    pending.reverse()
    running = {}  # key -> (proc, conn, t0)
    results = {}
    while pending or running:
        while pending and len(running) < workers:
            key, fn, args = pending.pop()
            parent, child = ctx.Pipe(duplex=False)
            p = ctx.Process(target=_child, args=(child, fn, args), daemon=True)
            p.start()
            child.close()
            running[key] = (p, parent, time.time())
        done = []
        for key, (p, conn, t0) in running.items():
            if conn.poll(0):
                try:
                    results[key] = conn.recv()
                except EOFError:
                    results[key] = dict(error="worker died without result")
                p.join(5)
                done.append(key)
            elif not p.is_alive():
                if conn.poll(0.1):
                    try:
                        results[key] = conn.recv()
                    except EOFError:
                        results[key] = dict(error="worker died without result")
                else:
                    results[key] = dict(error=f"worker exited with code {p.exitcode}")
                done.append(key)
            elif time.time() - t0 > timeout_s:
                p.terminate()
                p.join(2)
                if p.is_alive():
                    p.kill()
                results[key] = dict(timeout=True, secs=time.time() - t0)
                done.append(key)
        for key in done:
            p, conn, _ = running.pop(key)
            conn.close()
            if progress:
                progress(key, results[key])
        if not done:
            time.sleep(0.01)
    return results
