"""Native implementation of the contract API: the same contract text is executed by CPython on real
objects (replay of counter-models, CPython differential, bounded stand-ins)."""
from __future__ import annotations

import random

REGISTRY = {}  # contract class name -> (qualname, cls)
SYMBOLIC = False


class SkipCase(Exception):
    """`assume` failed natively: the concrete case is outside the contract's precondition."""


class Recorder:
    def __init__(self):
        self.checks = []  # (name, bool)
        self.notes = []


_rec = Recorder()


def reset():
    global _rec
    _rec = Recorder()
    return _rec


def recorder():
    return _rec


def contract(cls):
    REGISTRY[cls.__name__] = cls
    return cls


def check(name, cond, generalize=None):
    _rec.checks.append((str(name), bool(cond)))


def assume(cond):
    if not cond:
        raise SkipCase()


def implies(a, b):
    return (not a) or bool(b)


def ite(c, a, b):
    return a if c else b


def conj(xs):
    return all(bool(x) for x in xs)


def disj(xs):
    return any(bool(x) for x in xs)


def note(*a):
    _rec.notes.append(a)


def is_symbolic(v):
    return False


def fresh_int(prefix="g"):
    raise SkipCase()  # ghost witnesses exist only in the symbolic run


def unreachable(why=""):
    _rec.checks.append((f"unreachable: {why}", False))


class ModelSym:
    """`sym` backed by a solver model (replay) or by a seeded RNG (differential)."""

    symbolic = False

    def __init__(self, model=None, seed=None, lo=-6, hi=9):
        self.model = model
        self.seed = seed
        self.lo, self.hi = lo, hi
        self.used = {}

    def _rand(self, name, lo, hi):
        r = random.Random(f"{self.seed}:{name}")
        return r.randint(lo, hi)

    def int(self, name, lo=None, hi=None):
        if self.model is not None:
            v = int(self.model.get(name, 0 if lo is None else lo))
        else:
            v = self._rand(name, self.lo if lo is None else lo, self.hi if hi is None else min(hi, (lo if lo is not None else self.lo) + 12))
        self.used[name] = v
        return v

    def bool(self, name):
        if self.model is not None:
            v = bool(self.model.get(name, False))
        else:
            v = bool(self._rand(name, 0, 1))
        self.used[name] = v
        return v

    def bv(self, name, width):
        if self.model is not None:
            v = int(self.model.get(name, 0))
        else:
            v = self._rand(name, 0, (1 << width) - 1)
        self.used[name] = v
        return v

    def sbv(self, name, width, lo=None, hi=None):
        if self.model is not None:
            v = int(self.model.get(name, 0)) & ((1 << width) - 1)
            v = v - (1 << width) if v >> (width - 1) else v
        else:
            lo = -(1 << (width - 1)) if lo is None else lo
            hi = (1 << (width - 1)) - 1 if hi is None else hi
            # mostly small magnitudes, sometimes anywhere in the range
            r = random.Random(f"{self.seed}:{name}:k").randint(0, 2)
            v = self._rand(name, lo, hi) if r == 0 else self._rand(name, max(lo, -200), min(hi, 200))
        self.used[name] = v
        return v


def uf(name, *args):
    raise SkipCase()


def subst(term, pairs):
    raise SkipCase()


def unsupported(msg):
    raise SkipCase()


def ufb(name, *args):
    raise SkipCase()


# ---------------------------------------------------------------- native IR helpers (real xDSL objects)
_RT = {}  # id(SSAValue) -> dict(shape, strides, offset, ptr): run-time descriptor of a test memref value


def mk_memref_value(type, rt_shape, rt_strides=None, rt_offset=0, rt_ptr=None):
    from xdsl.utils.test_value import create_ssa_value

    v = create_ssa_value(type)
    _RT[id(v)] = dict(shape=list(rt_shape), strides=list(rt_strides) if rt_strides is not None else None,
                      offset=rt_offset, ptr=rt_ptr, keep=v)
    return v


def den(x, env=None):
    """evaluate the integer an SSA value holds, by interpreting the real arith/memref ops that define it"""
    from xdsl.dialects import arith, memref
    from xdsl.dialects.builtin import IntegerAttr
    from xdsl.ir import Operation, OpResult, SSAValue

    if isinstance(x, int):
        return x
    if isinstance(x, Operation):
        x = x.results[0]
    if env is not None and id(x) in env:
        return env[id(x)]
    if id(x) in _RT and "val" in _RT[id(x)]:
        return _RT[id(x)]["val"]
    if not isinstance(x, OpResult):
        raise SkipCase()
    op = x.owner
    from xdsl.dialects.builtin import IntegerType as _IT

    if isinstance(x.type, _IT) and not isinstance(op, arith.ConstantOp):
        w = x.type.width.data
        _mask = (1 << w) - 1
        ev = lambda v: den(v, env) & _mask
        r = _den_op(op, x, ev)
        return r & _mask
    ev = lambda v: den(v, env)
    return _den_op(op, x, ev)


def _den_op(op, x, ev):
    from xdsl.dialects import arith, memref
    from xdsl.dialects.builtin import IntegerAttr

    if isinstance(op, arith.ConstantOp):
        assert isinstance(op.value, IntegerAttr)
        return op.value.value.data
    if isinstance(op, arith.AddiOp):
        return ev(op.lhs) + ev(op.rhs)
    if isinstance(op, arith.SubiOp):
        return ev(op.lhs) - ev(op.rhs)
    if isinstance(op, arith.MuliOp):
        return ev(op.lhs) * ev(op.rhs)
    if isinstance(op, (arith.DivUIOp, arith.FloorDivSIOp)):
        return ev(op.lhs) // ev(op.rhs)
    if isinstance(op, arith.RemUIOp):
        return ev(op.lhs) % ev(op.rhs)
    if isinstance(op, arith.ShLIOp):
        return ev(op.lhs) << ev(op.rhs)
    if isinstance(op, arith.OrIOp):
        return ev(op.lhs) | ev(op.rhs)
    if isinstance(op, arith.AndIOp):
        return ev(op.lhs) & ev(op.rhs)
    if isinstance(op, arith.ExtSIOp):
        return _sgn(ev(op.input), op.input.type.width.data)
    if isinstance(op, (arith.IndexCastOp, arith.ExtUIOp, arith.TruncIOp)):
        return ev(op.input)
    if isinstance(op, arith.ShRUIOp):
        w = op.lhs.type.width.data
        return bv_lshr(ev(op.lhs), ev(op.rhs), w)
    if isinstance(op, arith.ShRSIOp):
        w = op.lhs.type.width.data
        return bv_ashr(ev(op.lhs), ev(op.rhs), w)
    if isinstance(op, arith.MinSIOp):
        w = op.lhs.type.width.data
        return min(_sgn(ev(op.lhs), w), _sgn(ev(op.rhs), w))
    if isinstance(op, arith.MaxSIOp):
        w = op.lhs.type.width.data
        return max(_sgn(ev(op.lhs), w), _sgn(ev(op.rhs), w))
    if isinstance(op, memref.DimOp):
        return _RT[id(op.source)]["shape"][ev(op.index)]
    if isinstance(op, memref.ExtractAlignedPointerAsIndexOp):
        return _RT[id(op.source)]["ptr"]
    if isinstance(op, memref.ExtractStridedMetaDataOp):
        rt = _RT[id(op.source)]
        n = len(rt["shape"])
        i = x.index
        if i == 0:
            return rt["ptr"]
        if i == 1:
            return rt["offset"]
        if i < 2 + n:
            return rt["shape"][i - 2]
        return rt["strides"][i - 2 - n]
    raise NotImplementedError(f"native den of {op.name}")


def rt_shape(m, d):
    return _RT[id(m)]["shape"][d]


def rt_stride(m, d):
    return _RT[id(m)]["strides"][d]


def mk_ssa(den_, type=None):
    from xdsl.utils.test_value import create_ssa_value

    v = create_ssa_value(type)
    _RT[id(v)] = dict(val=den_, keep=v)
    return v


def bv_const(v, w):
    return int(v) & ((1 << w) - 1)


def bv_shl(a, b, w):
    m = (1 << w) - 1
    return 0 if (b & m) >= w else ((a & m) << (b & m)) & m


def bv_lshr(a, b, w):
    m = (1 << w) - 1
    return 0 if (b & m) >= w else (a & m) >> (b & m)


def bv_or(a, b, w):
    m = (1 << w) - 1
    return (a | b) & m


def bv_and(a, b, w):
    m = (1 << w) - 1
    return (a & b) & m


def bv_eq(a, b, w):
    m = (1 << w) - 1
    return (a & m) == (b & m)


def bv_ult(a, b, w):
    m = (1 << w) - 1
    return (a & m) < (b & m)


def mk_opresult(den_, type=None):
    from xdsl.dialects.test import TestOp

    op = TestOp(result_types=[type])
    v = op.results[0]
    _RT[id(v)] = dict(val=den_, keep=op)
    return v


def performing_rewriter(op):
    """natively: xdsl's own PatternRewriter (it performs everything)"""
    from xdsl.pattern_rewriter import PatternRewriter

    return PatternRewriter(op)


def mk_ident_value(tag, type=None):
    """natively an SSA-value stand-in is just its identity tag (ints compare by value)"""
    return ("ssa", int(tag))


def set_identity(obj, tag):
    return obj


def _sgn(a, w):
    a &= (1 << w) - 1
    return a - (1 << w) if a >> (w - 1) else a


def bv_ashr(a, b, w):
    m = (1 << w) - 1
    sh = b & m
    return (_sgn(a, w) >> min(sh, w)) & m


def bv_sle(a, b, w):
    return _sgn(a, w) <= _sgn(b, w)


def bv_smin(a, b, w):
    return (a if _sgn(a, w) <= _sgn(b, w) else b) & ((1 << w) - 1)


def bv_smax(a, b, w):
    return (a if _sgn(a, w) >= _sgn(b, w) else b) & ((1 << w) - 1)


def bv_sext(a, from_w, to_w):
    return _sgn(a, from_w) & ((1 << to_w) - 1)


def bv_zext(a, from_w, to_w):
    return (a & ((1 << from_w) - 1)) & ((1 << to_w) - 1)


def bv_add(a, b, w):
    return (a + b) & ((1 << w) - 1)


def bv_sub(a, b, w):
    return (a - b) & ((1 << w) - 1)


def bv_mul(a, b, w):
    return (a * b) & ((1 << w) - 1)
