"""Native implementation of the contract API: the same contract text is executed by CPython on real
objects (replay of counter-models, CPython differential, bounded stand-ins)."""
from __future__ import annotations

import random

REGISTRY = {}  # contract class name -> (qualname, cls)
SYMBOLIC = False


class SkipCase(Exception):
    """`assume` failed natively: the concrete case is outside the contract's precondition."""


class Recorder:
    def __init__(self):
        self.checks = []  # (name, bool)
        self.notes = []


_rec = Recorder()


def reset():
    global _rec
    _rec = Recorder()
    return _rec


def recorder():
    return _rec


def contract(cls):
    REGISTRY[cls.__name__] = cls
    return cls


def check(name, cond):
    _rec.checks.append((str(name), bool(cond)))


def assume(cond):
    if not cond:
        raise SkipCase()


def implies(a, b):
    return (not a) or bool(b)


def ite(c, a, b):
    return a if c else b


def conj(xs):
    return all(bool(x) for x in xs)


def disj(xs):
    return any(bool(x) for x in xs)


def note(*a):
    _rec.notes.append(a)


def is_symbolic(v):
    return False


def fresh_int(prefix="g"):
    raise SkipCase()  # ghost witnesses exist only in the symbolic run


def unreachable(why=""):
    _rec.checks.append((f"unreachable: {why}", False))


class ModelSym:
    """`sym` backed by a solver model (replay) or by a seeded RNG (differential)."""

    symbolic = False

    def __init__(self, model=None, seed=None, lo=-6, hi=9):
        self.model = model
        self.seed = seed
        self.lo, self.hi = lo, hi
        self.used = {}

    def _rand(self, name, lo, hi):
        r = random.Random(f"{self.seed}:{name}")
        return r.randint(lo, hi)

    def int(self, name, lo=None, hi=None):
        if self.model is not None:
            v = int(self.model.get(name, 0 if lo is None else lo))
        else:
            v = self._rand(name, self.lo if lo is None else lo, self.hi if hi is None else min(hi, (lo if lo is not None else self.lo) + 12))
        self.used[name] = v
        return v

    def bool(self, name):
        if self.model is not None:
            v = bool(self.model.get(name, False))
        else:
            v = bool(self._rand(name, 0, 1))
        self.used[name] = v
        return v

    def bv(self, name, width):
        if self.model is not None:
            v = int(self.model.get(name, 0))
        else:
            v = self._rand(name, 0, (1 << width) - 1)
        self.used[name] = v
        return v


def uf(name, *args):
    raise SkipCase()


def ufb(name, *args):
    raise SkipCase()
