"""Arithmetic / comparison / truth encodings over mixed concrete-symbolic values.

Python `int` is mathematical.  `//` and `%` are floor division and its remainder, encoded exactly
for divisors of either sign; when the path condition entails a positive divisor the plain SMT
`div`/`mod` is used (they coincide with Python there)."""
from __future__ import annotations

import operator

import z3

from .values import SV, NativeObj, Opaque, PathAbort, SymStr, Unsupported


def zint(v):
    """z3 Int/BV term of an int-like value."""
    if isinstance(v, SV):
        if v.is_bool:
            return z3.If(v.t, z3.IntVal(1), z3.IntVal(0))
        return v.t
    if isinstance(v, bool):
        return z3.IntVal(1 if v else 0)
    if isinstance(v, int):
        return z3.IntVal(v)
    raise Unsupported(f"not an integer value: {v!r}")


def zbool(v):
    """z3 Bool of a bool-like value (no forking). Ints: != 0."""
    if isinstance(v, SV):
        if v.is_bool:
            return v.t
        if v.is_bv:
            return v.t != z3.BitVecVal(0, v.t.size())
        return v.t != 0
    if isinstance(v, bool):
        return z3.BoolVal(v)
    if isinstance(v, int):
        return z3.BoolVal(v != 0)
    if v is None:
        return z3.BoolVal(False)
    raise Unsupported(f"not a boolean value: {v!r}")


def simp(t):
    t = z3.simplify(t)
    if z3.is_int_value(t):
        return t.as_long()
    if z3.is_true(t):
        return True
    if z3.is_false(t):
        return False
    return SV(t)


def is_intlike(v):
    return isinstance(v, (int, SV)) and not (isinstance(v, SV) and False)


def _bv_pair(a, b):
    """coerce to two bit-vectors of equal width if either is a BV"""
    ta = a.t if isinstance(a, SV) else None
    tb = b.t if isinstance(b, SV) else None
    if ta is not None and z3.is_bv(ta):
        w = ta.size()
        if tb is None:
            tb = z3.BitVecVal(int(b), w)
        elif not z3.is_bv(tb):
            raise Unsupported("mixing Int and BitVec terms")
        return ta, tb
    if tb is not None and z3.is_bv(tb):
        w = tb.size()
        if ta is None:
            ta = z3.BitVecVal(int(a), w)
        elif not z3.is_bv(ta):
            raise Unsupported("mixing Int and BitVec terms")
        return ta, tb
    return None


def floordiv_terms(ctx, a, b, raise_zero):
    """a // b and a % b as z3 Int terms (Python semantics)."""
    za, zb = zint(a), zint(b)
    if isinstance(b, int) and not isinstance(b, bool):
        if b == 0:
            raise_zero()
        if b > 0:
            return za / zb, za % zb
        q = (-za) / z3.IntVal(-b)
        return q, za - zb * q
    # symbolic divisor
    if ctx.decide(zb == 0):
        raise_zero()
    if ctx.entails(zb > 0):
        return za / zb, za % zb
    if ctx.entails(zb < 0):
        q = (-za) / (-zb)
        return q, za - zb * q
    q = z3.If(zb > 0, za / zb, (-za) / (-zb))
    return q, za - zb * q


ARITH = {
    "Add": operator.add,
    "Sub": operator.sub,
    "Mult": operator.mul,
    "FloorDiv": operator.floordiv,
    "Mod": operator.mod,
    "Pow": operator.pow,
    "LShift": operator.lshift,
    "RShift": operator.rshift,
    "BitOr": operator.or_,
    "BitAnd": operator.and_,
    "BitXor": operator.xor,
    "Div": operator.truediv,
    "MatMult": operator.matmul,
}


def sym_binop(interp, op, a, b):
    """binary operator where at least one side is an SV and both are int/bool-like."""
    ctx = interp.ctx
    for x in (a, b):
        if not isinstance(x, (int, SV)):
            if x is None or isinstance(x, (str, list, tuple, dict)):
                interp.raise_py("TypeError", f"unsupported operand type(s) for {op}: int and {type(x).__name__}")
            raise Unsupported(f"symbolic binop {op} on {type(x).__name__}")
    bv = _bv_pair(a, b)
    if bv is not None:
        ta, tb = bv
        if op == "Add":
            return simp(ta + tb)
        if op == "Sub":
            return simp(ta - tb)
        if op == "Mult":
            return simp(ta * tb)
        if op == "LShift":
            return simp(ta << tb)
        if op == "RShift":
            return simp(z3.LShR(ta, tb))
        if op == "BitOr":
            return simp(ta | tb)
        if op == "BitAnd":
            return simp(ta & tb)
        if op == "BitXor":
            return simp(ta ^ tb)
        raise Unsupported(f"bit-vector op {op}")
    # boolean bit-ops on two bools stay boolean
    if op in ("BitOr", "BitAnd", "BitXor"):
        ab = isinstance(a, bool) or (isinstance(a, SV) and a.is_bool)
        bb = isinstance(b, bool) or (isinstance(b, SV) and b.is_bool)
        if ab and bb:
            za, zb = zbool(a), zbool(b)
            if op == "BitOr":
                return simp(z3.Or(za, zb))
            if op == "BitAnd":
                return simp(z3.And(za, zb))
            return simp(z3.Xor(za, zb))
        raise Unsupported(f"bitwise {op} on symbolic mathematical integers")
    za, zb = zint(a), zint(b)
    if op == "Add":
        return simp(za + zb)
    if op == "Sub":
        return simp(za - zb)
    if op == "Mult":
        return simp(za * zb)
    if op in ("FloorDiv", "Mod"):
        q, r = floordiv_terms(ctx, a, b, lambda: interp.raise_py("ZeroDivisionError", "integer division or modulo by zero"))
        return simp(q if op == "FloorDiv" else r)
    if op == "Pow":
        if isinstance(b, int) and 0 <= b <= 8:
            r = z3.IntVal(1)
            for _ in range(b):
                r = r * za
            return simp(r)
        if isinstance(a, int) and a == 2:
            raise Unsupported("2 ** symbolic")
        raise Unsupported("symbolic power")
    if op == "LShift":
        if isinstance(b, int) and b >= 0:
            return simp(za * z3.IntVal(1 << b))
        raise Unsupported("symbolic shift amount on mathematical integer")
    if op == "RShift":
        if isinstance(b, int) and b >= 0:
            return simp(za / z3.IntVal(1 << b))
        raise Unsupported("symbolic shift amount on mathematical integer")
    raise Unsupported(f"symbolic binop {op}")


def sym_compare(op, a, b):
    """comparison with at least one SV; returns python bool or SV bool"""
    if op in ("Eq", "NotEq"):
        r = sym_eq(a, b)
        if op == "NotEq":
            return r_not(r)
        return r
    for x in (a, b):
        if not isinstance(x, (int, SV)):
            raise Unsupported(f"ordering comparison of symbolic with {type(x).__name__}")
    bv = _bv_pair(a, b)
    if bv is not None:
        ta, tb = bv  # signed comparison (Python ints denote signed values is NOT assumed: unsigned)
        f = {"Lt": z3.ULT, "LtE": z3.ULE, "Gt": z3.UGT, "GtE": z3.UGE}[op]
        return simp(f(ta, tb))
    za, zb = zint(a), zint(b)
    f = {"Lt": operator.lt, "LtE": operator.le, "Gt": operator.gt, "GtE": operator.ge}[op]
    return simp(f(za, zb))


def r_not(r):
    if isinstance(r, SV):
        return simp(z3.Not(zbool(r)))
    if not isinstance(r, (bool, int)):
        raise Unsupported(f"logical negation of {type(r).__name__}")
    return not r


def r_and(rs):
    """conjunction of python bools / SV bools without forking"""
    ts = []
    for r in rs:
        if isinstance(r, SV):
            ts.append(zbool(r))
        elif not r:
            return False
    if not ts:
        return True
    return simp(z3.And(*ts))


def r_or(rs):
    ts = []
    for r in rs:
        if isinstance(r, SV):
            ts.append(zbool(r))
        elif r:
            return True
    if not ts:
        return False
    return simp(z3.Or(*ts))


def sym_eq(a, b):
    """equality of two primitive values where at least one is SV"""
    sa, sb = isinstance(a, SV), isinstance(b, SV)
    if sa and sb:
        if a.is_bool and b.is_bool:
            return simp(a.t == b.t)
        bv = _bv_pair(a, b)
        if bv is not None:
            return simp(bv[0] == bv[1])
        return simp(zint(a) == zint(b))
    s, o = (a, b) if sa else (b, a)
    if isinstance(o, (bool, int)):
        if s.is_bool and isinstance(o, bool):
            return simp(s.t == z3.BoolVal(o))
        bv = _bv_pair(s, o)
        if bv is not None:
            return simp(bv[0] == bv[1])
        return simp(zint(s) == zint(o))
    # an int is never equal to None / str / list / object
    if isinstance(o, float):
        raise Unsupported("symbolic == float")
    return False
