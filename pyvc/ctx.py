"""Path exploration by decision-list re-execution, obligations, and solver access."""
from __future__ import annotations

import os
import subprocess
import tempfile
import time

import z3

from .values import SV, MergeFail, PathAbort, Unsupported

FEAS_TIMEOUT_MS = int(os.environ.get("PYVC_FEAS_MS", "300"))
OBL_TIMEOUT_MS = int(os.environ.get("PYVC_OBL_MS", "10000"))
CVC5_TIMEOUT_S = int(os.environ.get("PYVC_CVC5_S", "20"))
CVC5 = "/usr/bin/cvc5"


class Obligation:
    __slots__ = ("name", "pc", "clause", "status", "model", "backend", "secs", "path", "kind", "note", "generalize")

    def __init__(self, name, pc, clause, path, kind="ensures"):
        self.name = name
        self.pc = pc
        self.clause = clause
        self.status = None  # proved | refuted | unknown
        self.model = None
        self.backend = None
        self.secs = 0.0
        self.path = path
        self.kind = kind
        self.note = ""
        self.generalize = None


def run_cvc5(smt2: str, timeout_s: int):
    """Return 'unsat' | 'sat' | 'unknown'."""
    with tempfile.NamedTemporaryFile("w", suffix=".smt2", delete=False, dir=os.environ.get("PYVC_TMP", None)) as f:
        f.write("(set-logic ALL)\n" + smt2 + "\n(check-sat)\n")
        name = f.name
    try:
        r = subprocess.run(
            [CVC5, "--nl-ext-tplanes", f"--tlimit={timeout_s * 1000}", name],
            capture_output=True,
            text=True,
            timeout=timeout_s + 5,
        )
        out = r.stdout.strip().splitlines()
        ans = out[0].strip() if out else "unknown"
        return ans if ans in ("sat", "unsat") else "unknown"
    except Exception:
        return "unknown"
    finally:
        try:
            os.unlink(name)
        except OSError:
            pass


class Ctx:
    """State of one exploration (one function x one shape)."""

    def __init__(self, max_paths=20000):
        self.decisions = []  # list of [value, has_alt]
        self.pos = 0
        self.pc = []
        self.solver = z3.Solver()
        self.solver.set("timeout", FEAS_TIMEOUT_MS)
        self.obligations = []
        self.pending = []  # obligations of the current path (committed at path end)
        self.path_no = 0
        self.max_paths = max_paths
        self.symbols = {}  # name -> z3 const (inputs, for model extraction)
        self.fresh_no = 0
        self.spec_depth = 0
        self.spec_fresh = []  # stack of lists of objects created during speculation
        self.assumptions_used = set()
        self.events = []  # per-path free-form log (reset per path)
        self.path_outcomes = []  # (path_no, outcome string)
        self.extra = {}  # ghost / per-path scratch for stubs
        self.stats = dict(feas_queries=0, feas_secs=0.0)
        self.axioms = []  # global facts (definitional instances) added to every query of the path

    # ---------------------------------------------------------------- symbols
    def sym_int(self, name):
        if name in self.symbols:
            return SV(self.symbols[name])
        c = z3.Int(name)
        self.symbols[name] = c
        return SV(c)

    def sym_bool(self, name):
        if name in self.symbols:
            return SV(self.symbols[name])
        c = z3.Bool(name)
        self.symbols[name] = c
        return SV(c)

    def sym_bv(self, name, width):
        if name in self.symbols:
            return SV(self.symbols[name])
        c = z3.BitVec(name, width)
        self.symbols[name] = c
        return SV(c)

    def fresh(self, prefix="t", sort="int", width=32):
        self.fresh_no += 1
        n = f"{prefix}!{self.fresh_no}"
        if sort == "int":
            return SV(z3.Int(n))
        if sort == "bool":
            return SV(z3.Bool(n))
        return SV(z3.BitVec(n, width))

    # ---------------------------------------------------------------- paths
    def begin_path(self):
        self.pos = 0
        self.pc = []
        self.solver.reset()
        self.solver.set("timeout", FEAS_TIMEOUT_MS)
        self.pending = []
        self.events = []
        self.extra = {}
        self.fresh_no = 0
        self.spec_depth = 0
        self.spec_fresh = []
        self.axioms = []
        self.path_no += 1

    def next_path(self):
        """Backtrack. Returns False when exploration is complete."""
        while self.decisions and not self.decisions[-1][1]:
            self.decisions.pop()
        if not self.decisions:
            return False
        self.decisions[-1] = [not self.decisions[-1][0], False]
        return True

    def _feasible(self, cond):
        t0 = time.time()
        self.solver.push()
        self.solver.add(cond)
        r = self.solver.check()
        self.solver.pop()
        self.stats["feas_queries"] += 1
        self.stats["feas_secs"] += time.time() - t0
        return r != z3.unsat  # unknown = feasible (sound)

    def assume(self, cond):
        """Add a fact to the path condition (z3 Bool or python bool)."""
        if isinstance(cond, bool):
            if not cond:
                raise PathAbort()
            return
        cond = z3.simplify(cond)
        if z3.is_true(cond):
            return
        if z3.is_false(cond):
            raise PathAbort()
        self.pc.append(cond)
        self.solver.add(cond)

    def add_axiom(self, fact):
        """A definitional instance (true in every model of the intended interpretation)."""
        self.pc.append(fact)
        self.solver.add(fact)

    def decide(self, cond):
        """Fork on a z3 Bool; returns the python bool chosen on this path."""
        if isinstance(cond, bool):
            return cond
        cond = z3.simplify(cond)
        if z3.is_true(cond):
            return True
        if z3.is_false(cond):
            return False
        if self.spec_depth > 0:
            raise MergeFail("decision inside speculation")
        if self.pos < len(self.decisions):
            v = self.decisions[self.pos][0]
            self.pos += 1
            c = cond if v else z3.Not(cond)
            self.pc.append(c)
            self.solver.add(c)
            return v
        can_t = self._feasible(cond)
        can_f = self._feasible(z3.Not(cond))
        if not can_t and not can_f:
            raise PathAbort()
        if can_t and can_f:
            self.decisions.append([True, True])
            v = True
        elif can_t:
            self.decisions.append([True, False])
            v = True
        else:
            self.decisions.append([False, False])
            v = False
        self.pos += 1
        c = cond if v else z3.Not(cond)
        self.pc.append(c)
        self.solver.add(c)
        return v

    def entails(self, cond):
        """Cheap check PC |= cond (unknown -> False)."""
        if isinstance(cond, bool):
            return cond
        self.solver.push()
        self.solver.add(z3.Not(cond))
        r = self.solver.check()
        self.solver.pop()
        return r == z3.unsat

    # ---------------------------------------------------------------- obligations
    def oblige(self, name, clause, kind="ensures", generalize=None):
        if isinstance(clause, SV):
            clause = clause.t
        if isinstance(clause, bool):
            clause = z3.BoolVal(clause)
        ob = Obligation(name, list(self.pc), clause, self.path_no, kind)
        if generalize:
            ob.generalize = [g.t if isinstance(g, SV) else g for g in generalize if isinstance(g, SV) or z3.is_expr(g)]
        self.pending.append(ob)
        return ob

    def commit_path(self, outcome):
        self.path_outcomes.append((self.path_no, outcome))
        self.obligations.extend(self.pending)
        self.pending = []

    def discharge(self, ob, use_cvc5=True):
        t0 = time.time()
        gen = getattr(ob, "generalize", None)
        if gen:
            # proof by generalisation: replace the named sub-terms (e.g. a 64-bit product both sides share) by fresh
            # constants. Valid generalised formula => valid original (instantiate the constants); anything else falls
            # through to the ordinary query on the ORIGINAL formula, so no verdict other than "proved" comes from here.
            sub = [(g, z3.FreshConst(g.sort(), "gen")) for g in gen]
            sg = z3.Solver()
            sg.set("timeout", OBL_TIMEOUT_MS)
            for c in ob.pc:
                sg.add(z3.substitute(c, *sub))
            sg.add(z3.Not(z3.substitute(ob.clause, *sub)))
            if sg.check() == z3.unsat:
                ob.status = "proved"
                ob.backend = "z3"
                ob.note = "proved after generalising %d sub-term(s)" % len(sub)
                ob.secs = time.time() - t0
                return ob.status
        s = z3.Solver()
        s.set("timeout", OBL_TIMEOUT_MS)
        for c in ob.pc:
            s.add(c)
        s.add(z3.Not(ob.clause))
        r = s.check()
        ob.backend = "z3"
        if r == z3.unsat:
            ob.status = "proved"
        elif r == z3.sat:
            ob.status = "refuted"
            m = s.model()
            ob.model = self._model_dict(m)
        else:
            ob.status = "unknown"
            if use_cvc5:
                ans = run_cvc5(s.to_smt2().replace("(check-sat)", ""), CVC5_TIMEOUT_S)
                if ans == "unsat":
                    ob.status = "proved"
                    ob.backend = "cvc5"
                elif ans == "sat":
                    # cvc5 gives no model through this route; ask z3 once more with a longer budget
                    s.set("timeout", OBL_TIMEOUT_MS * 3)
                    if s.check() == z3.sat:
                        ob.status = "refuted"
                        ob.model = self._model_dict(s.model())
                    else:
                        ob.status = "refuted"
                        ob.model = None
                        ob.note = "cvc5 sat, z3 gave no model"
                    ob.backend = "cvc5"
            if ob.status == "unknown" and use_cvc5:
                # second round with three times the budgets: only ever reached by an obligation both solvers left open, which
                # on an idle machine does not happen on the unchanged tree - it keeps verdicts from flipping to "undecided"
                # when all cores are busy (several checks at once)
                s.set("timeout", OBL_TIMEOUT_MS * 3)
                r = s.check()
                if r == z3.unsat:
                    ob.status, ob.backend = "proved", "z3"
                elif r == z3.sat:
                    ob.status, ob.backend = "refuted", "z3"
                    ob.model = self._model_dict(s.model())
                else:
                    ans = run_cvc5(s.to_smt2().replace("(check-sat)", ""), CVC5_TIMEOUT_S * 3)
                    if ans == "unsat":
                        ob.status, ob.backend = "proved", "cvc5"
                    elif ans == "sat":
                        ob.status, ob.backend, ob.model = "refuted", "cvc5", None
                        ob.note = "cvc5 sat (second round), no model"
        ob.secs = time.time() - t0
        return ob.status

    def _model_dict(self, m):
        out = {}
        for name, c in self.symbols.items():
            if "#" in name or "!" in name:
                continue  # engine-generated fresh symbols (block-argument denotations ...): not inputs of the contract
            v = m.eval(c, model_completion=True)
            try:
                if z3.is_bool(c):
                    out[name] = bool(z3.is_true(v))
                elif z3.is_bv(c):
                    out[name] = v.as_long()
                elif z3.is_int(c):
                    out[name] = v.as_long()
                else:
                    out[name] = str(v)
            except Exception:
                out[name] = str(v)
        return out
