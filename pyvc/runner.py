"""Orchestration of one property check: jobs -> obligations -> replay -> guards -> evidence -> exit code.

Exit codes: 0 held (or only known findings) / 1 violation / 2 undecided obligations (never a
violation) / 3 checker error or guard failure (never a violation)."""
from __future__ import annotations

import importlib
import json
import os
import sys
import time

from . import native
from .harness import run_job
from .pool import run_jobs

VERIF = os.path.dirname(os.path.dirname(os.path.abspath(__file__)))


def _shapes_for(C, tier):
    idxs = list(range(len(C.shapes)))
    if tier == "quick":
        q = getattr(C, "quick", None)
        if q is not None:
            q = q.__func__ if hasattr(q, "__func__") else q
            idxs = [i for i in idxs if q(C.shapes[i])]
    else:
        # `thorough` may drop shapes that are known to exhaust the path / solver budget (they are then NOT covered, and the
        # contract says so): an undecided obligation would make the run an incomplete proof
        t = getattr(C, "thorough", None)
        if t is not None:
            t = t.__func__ if hasattr(t, "__func__") else t
            idxs = [i for i in idxs if t(C.shapes[i])]
    return idxs


def _diff_job(module, cls, idx, seeds):
    return native.differential(module, cls, idx, seeds)


def _replay_job(module, cls, idx, model):
    return native.native_case(module, cls, idx, model=model)


def _search_job(module, cls, idx, clause, budget):
    return native.bounded_search(module, cls, idx, clause, budget_s=budget)


def load_known_findings():
    p = os.path.join(VERIF, "known_findings.json")
    if not os.path.exists(p):
        return []
    with open(p) as f:
        return json.load(f).get("findings", [])


def finding_matches(fd, prop, cls, clause, shape, model):
    if fd.get("status", "open") != "open":
        return False  # fixed entries suppress nothing
    if fd["property"] != prop or fd["contract"] != cls:
        return False
    if fd.get("clause") and fd["clause"] != clause:
        return False
    if fd.get("clause_regex"):
        import re

        if not re.search(fd["clause_regex"], clause or ""):
            return False
    sf = fd.get("shape")
    if sf and any(shape.get(k) != v for k, v in sf.items()):
        return False
    when = fd.get("when")
    if when:
        env = dict(model or {})
        env["shape"] = shape
        env["model"] = dict(model or {})
        try:
            if not eval(when, {"__builtins__": {"abs": abs, "min": min, "max": max, "len": len, "any": any, "all": all}}, env):
                return False
        except Exception:
            return False
    return True


def check_property(prop, tier="quick", seed=0, only=None, verbose=False):
    from contracts.registry import PROPERTIES

    t_start = time.time()
    from . import shim  # noqa: F401

    spec = PROPERTIES[prop]
    contracts = []
    for modname, cls in spec["contracts"]:
        if only and cls not in only:
            continue
        mod = importlib.import_module(modname)
        C = getattr(mod, cls)
        contracts.append((modname, cls, C))
    jobs = []
    for modname, cls, C in contracts:
        for idx in _shapes_for(C, tier):
            jobs.append(((cls, idx), run_job, (modname, cls, idx, tier)))
    job_timeout = int(os.environ.get("PYVC_JOB_TIMEOUT", "900" if tier == "quick" else "3600"))

    def prog(key, r):
        if verbose:
            st = "timeout" if r.get("timeout") else r.get("error") or r.get("unsupported") or f"{len(r.get('obligations', []))} obl, {r.get('paths')} paths, {r.get('secs', 0):.1f}s"
            print(f"  [{key[0]} #{key[1]}] {st}", file=sys.stderr, flush=True)

    results = run_jobs(jobs, timeout_s=job_timeout, progress=prog)

    errors, undecided, violations, known_hits = [], [], [], []
    n_obl = n_dis = 0
    by_backend = {}
    samples = []
    functions = {}
    assumptions = set(spec.get("assumptions", []))
    canary_ok = {cls: False for _, cls, C in contracts if getattr(C, "canary", None) is not None}
    canary_models = {}
    refuted = []  # (cls, idx, obligation dict, shape)
    solver_secs = 0.0
    paths_total = 0
    raises_listed = []
    cmap = {cls: (modname, C) for modname, cls, C in contracts}

    for (cls, idx), r in sorted(results.items()):
        modname, C = cmap[cls]
        shape = C.shapes[idx]
        fkey = getattr(C, "target", None) or cls
        fn = functions.setdefault(cls, dict(function=fkey, contract=cls, shapes=0, paths=0, obligations=0, discharged=0,
                                            source=r.get("source"), exhaustive_paths=True, status="proved"))
        fn["shapes"] += 1
        if r.get("timeout"):
            undecided.append(dict(contract=cls, shape=shape, reason=f"job timeout {job_timeout}s"))
            fn["status"] = "undecided"
            continue
        if r.get("error"):
            errors.append(dict(contract=cls, shape=shape, error=r["error"], trace=r.get("trace", ""), kind="incomplete"))
            continue
        if r.get("unsupported"):
            undecided.append(dict(contract=cls, shape=shape, reason="Unsupported: " + r["unsupported"]))
            fn["status"] = "undecided"
            fn["exhaustive_paths"] = False
            continue
        for a in r.get("assumptions", []):
            assumptions.add(a)
        fn["paths"] += r["paths"]
        paths_total += r["paths"]
        obs = r["obligations"]
        real = [o for o in obs if o["kind"] != "canary"]
        if not real and not getattr(C, "allow_no_obligations", False):
            errors.append(dict(contract=cls, shape=shape, error="vacuous: zero obligations generated"))
        if r.get("returning_paths", 0) == 0 and not getattr(C, "may_not_return", False) and not any(o["status"] == "refuted" and o["kind"] != "canary" for o in obs):
            errors.append(dict(contract=cls, shape=shape, error="vacuous: no returning path (precondition unsatisfiable or function always raises)"))
        for en in r.get("raises", []):
            if len(raises_listed) < 20:
                raises_listed.append(dict(contract=cls, shape=shape, path=en[0], exc=en[1]))
        for o in obs:
            solver_secs += o["secs"]
            if o["kind"] == "canary":
                if o["status"] == "refuted" and o.get("model") is not None and cls not in canary_models:
                    canary_models[cls] = (idx, o)
                continue
            n_obl += 1
            fn["obligations"] += 1
            if o["status"] == "proved":
                n_dis += 1
                fn["discharged"] += 1
                by_backend.setdefault(o["backend"], dict(count=0, secs=0.0))
                by_backend[o["backend"]]["count"] += 1
                by_backend[o["backend"]]["secs"] += o["secs"]
                if o.get("formula") and len(samples) < 6 and all(s["contract"] != cls for s in samples):
                    samples.append(dict(contract=cls, shape=shape, clause=o["name"], obligation=o["formula"], backend=o["backend"], secs=o["secs"]))
            elif o["status"] == "refuted":
                refuted.append((cls, idx, o, shape))
                fn["status"] = "refuted"
                o["_cls"] = cls
            else:
                undecided.append(dict(contract=cls, shape=shape, clause=o["name"], reason="solver unknown (z3 + cvc5)", formula=o.get("formula")))
                if fn["status"] == "proved":
                    fn["status"] = "undecided"

    # ------------------------------------------------------------ replay of refuted obligations
    os.makedirs(os.path.join(VERIF, "replays"), exist_ok=True)
    import glob

    if not only:
        for old in glob.glob(os.path.join(VERIF, "replays", f"{prop}-*.json")):
            os.unlink(old)
    # group by (cls, clause, shape idx): replay the first model of each group
    groups = {}
    for cls, idx, o, shape in refuted:
        groups.setdefault((cls, o["name"], idx), []).append(o)
    rjobs = []
    for (cls, clause, idx), os_ in groups.items():
        modname, C = cmap[cls]
        if getattr(C, "native", True) and os_[0].get("model") is not None:
            rjobs.append(((cls, clause, idx), _replay_job, (modname, cls, idx, os_[0]["model"])))
    rres = run_jobs(rjobs, timeout_s=120) if rjobs else {}
    sjobs = []
    for key, os_ in groups.items():
        cls, clause, idx = key
        modname, C = cmap[cls]
        rr = rres.get(key)
        confirmed = False
        if rr and not rr.get("error") and not rr.get("skipped") and not rr.get("timeout"):
            ens = rr["checks"]
            confirmed = any((n == clause and not ok) for n, ok in ens)
        groups[key] = dict(obls=os_, replay=rr, confirmed=confirmed, search=None)
        if not confirmed and getattr(C, "native", True):
            sjobs.append((key, _search_job, (modname, cls, idx, clause, 20 if tier == "quick" else 60)))
    sres = run_jobs(sjobs, timeout_s=180) if sjobs else {}
    for key, sr in sres.items():
        groups[key]["search"] = sr

    findings = load_known_findings()
    n_known_obl = 0
    for (cls, clause, idx), g in sorted(groups.items(), key=lambda kv: (kv[0][0], kv[0][1], kv[0][2])):
        modname, C = cmap[cls]
        shape = C.shapes[idx]
        o = g["obls"][0]
        model = o.get("model")
        inp = None
        how = None
        if g["confirmed"]:
            inp, how = g["replay"].get("used"), "solver model replayed natively on the real function: clause fails"
        elif g["search"] and g["search"].get("found"):
            inp, how = g["search"].get("used"), "solver model did not replay; bounded native search found a failing input"
        fd = next((f for f in findings if finding_matches(f, prop, cls, clause, shape, inp or model)), None)
        rec = dict(property=prop, contract=cls, target=getattr(C, "target", None), clause=clause, shape=shape, model=model,
                   failing_input=inp, how=how, paths=[x["path"] for x in g["obls"]][:10], n_paths=len(g["obls"]),
                   formula=o.get("formula"), native_replay=g["replay"], native_search=g["search"],
                   replay_cmd=f"./check {prop} --replay <this file>")
        if fd is not None:
            known_hits.append(dict(finding=fd["id"], contract=cls, clause=clause, shape=shape, what=fd["what"], obligations=len(g["obls"]),
                                   failing_input=inp, confirmed_natively=bool(g["confirmed"])))
            n_known_obl += len(g["obls"])
            functions[cls]["obligations"] -= len(g["obls"])
            functions[cls]["known_finding_obligations"] = functions[cls].get("known_finding_obligations", 0) + len(g["obls"])
            continue
        fname = f"replays/{prop}-{cls}-{_slug(clause)}-s{idx}.json"
        rec["no_failing_input_found"] = inp is None
        with open(os.path.join(VERIF, fname), "w") as f:
            json.dump(rec, f, indent=1, default=str)
        violations.append((fname, inp is None, cls, clause))

    # ------------------------------------------------------------ guards
    guard = dict(canaries={}, differential={})
    cjobs = []
    for cls in canary_ok:
        if cls in canary_models:
            idx, o = canary_models[cls]
            modname, C = cmap[cls]
            if getattr(C, "native", True):
                cjobs.append((cls, _replay_job, (modname, cls, idx, o["model"])))
            else:
                canary_ok[cls] = True
                guard["canaries"][cls] = "refuted by solver (no native replay for view-based contract)"
    cres = run_jobs(cjobs, timeout_s=120) if cjobs else {}
    for cls, rr in cres.items():
        ens_n = rr.get("n_ensures", 0)
        cans = rr.get("checks", [])[ens_n:]
        if any(not ok for _, ok in cans):
            canary_ok[cls] = True
            guard["canaries"][cls] = "refuted by solver, counter-model replays natively"
        else:
            guard["canaries"][cls] = f"solver refuted but native replay did not: {rr}"
    for cls, ok in canary_ok.items():
        if not ok and not errors:
            if any(v[2] == cls for v in violations):
                # the contract already reports a violation: the behaviour under contract changed, so its canary (a statement
                # chosen to be false of the UNCHANGED behaviour) says nothing about the engine any more
                guard["canaries"][cls] = "not evaluated: the contract reports a violation"
                continue
            if not any(r_.get("unsupported") or r_.get("timeout") for (c_, _), r_ in results.items() if c_ == cls):
                errors.append(dict(contract=cls, error="canary clause was not refuted: engine or contract may be unsound/vacuous", detail=guard["canaries"].get(cls)))

    n_seeds = int(os.environ.get("PYVC_DIFF_SEEDS", "12" if tier == "quick" else "50"))
    djobs = []
    for modname, cls, C in contracts:
        if not getattr(C, "native", True) or getattr(C, "differential", True) is False:
            continue
        for idx in _shapes_for(C, tier):
            seeds = [seed * 100003 + idx * 1009 + k for k in range(n_seeds)]
            djobs.append(((cls, idx), _diff_job, (modname, cls, idx, seeds)))
    dres = run_jobs(djobs, timeout_s=600) if djobs else {}
    diff_cases = 0
    for (cls, idx), dr in dres.items():
        if dr.get("timeout") or dr.get("error"):
            errors.append(dict(contract=cls, shape=cmap[cls][1].shapes[idx], error=f"differential run failed: {dr}", kind="incomplete"))
            continue
        diff_cases += dr["cases"]
        g = guard["differential"].setdefault(cls, dict(cases=0, skipped=0))
        g["cases"] += dr["cases"]
        g["skipped"] += dr["skipped"]
        if dr["mismatches"]:
            errors.append(dict(contract=cls, shape=cmap[cls][1].shapes[idx], error="CPython differential mismatch (engine semantics != CPython)", detail=dr["mismatches"][:2]))
        if dr["errors"]:
            errors.append(dict(contract=cls, shape=cmap[cls][1].shapes[idx], error="differential case errors", detail=dr["errors"][:2], kind="incomplete"))

    # ------------------------------------------------------------ bounded stand-ins
    bounded = []
    for b in spec.get("bounded", []):
        if tier == "quick" and b.get("thorough_only"):
            continue
        try:
            mod = importlib.import_module(b["module"])
        except BaseException as e:
            errors.append(dict(contract=b["fn"], error=f"bounded stand-in failed to import: {type(e).__name__}: {e}"))
            continue
        t0 = time.time()
        try:
            br = getattr(mod, b["fn"])(tier=tier, seed=seed)
        except BaseException as e:
            errors.append(dict(contract=b["fn"], error=f"bounded stand-in crashed: {type(e).__name__}: {e}", kind="incomplete"))
            continue
        br.update(function=b.get("function"), label="bounded (NOT proved)", secs=round(time.time() - t0, 2))
        bounded.append(br)
        for v in br.pop("violations", []):
            if v.get("clause", "")[:3] in ("C03", "C16") and v["clause"][:3] != prop:
                continue  # a clause of the other property sharing this stand-in
            fd = next((f for f in findings if finding_matches(f, prop, b["fn"], v.get("clause"), v.get("shape", {}), v.get("input"))), None)
            if fd is not None:
                known_hits.append(dict(finding=fd["id"], contract=b["fn"], clause=v.get("clause"), shape=v.get("shape", {}), what=fd["what"]))
                continue
            fname = f"replays/{prop}-{b['fn']}-{_slug(v.get('clause', 'bounded'))}.json"
            with open(os.path.join(VERIF, fname), "w") as f:
                json.dump(dict(property=prop, bounded=True, **v), f, indent=1, default=str)
            if not any(x[0] == fname for x in violations):
                violations.append((fname, False, b["fn"], v.get("clause")))

    # ------------------------------------------------------------ evidence
    wall = time.time() - t_start
    # errors of kind "incomplete" (the engine / the native harness / the contract code could not run a case: nothing was
    # decided there) do not take back an obligation that WAS refuted elsewhere; every other error (canary not refuted,
    # CPython differential mismatch, vacuity) questions the engine itself and makes the whole run a checker error
    unsound_errors = [e for e in errors if e.get("kind") != "incomplete"]
    status = "held"
    if unsound_errors or (errors and not violations):
        status = "checker-error"
    elif violations:
        status = "violation"
    elif undecided:
        status = "undecided"
    ev = dict(
        property_id=prop,
        tier=tier,
        seed=seed,
        level=spec.get("level", "proof"),
        wall_s=round(wall, 2),
        violations=len(violations),
        coverage=dict(
            obligations=n_obl - n_known_obl,
            discharged=n_dis,
            obligations_refuted_by_known_findings=n_known_obl,
            checker_cmd=f"./check {prop} --tier {tier}",
            trusted_base=sorted(set(spec.get("trusted_base", []) + COMMON_TRUSTED)),
            samples=samples or [dict(note="no obligation sample")],
            explanation=spec.get("explanation", ""),
            exhaustive=False,
            functions=list(functions.values()),
            paths_explored=paths_total,
            by_backend={k: dict(count=v["count"], secs=round(v["secs"], 2)) for k, v in by_backend.items()},
            solver_secs=round(solver_secs, 2),
            undecided=undecided[:40],
            undecided_count=len(undecided),
            bounded=bounded,
            canaries=guard["canaries"],
            differential=guard["differential"],
            differential_cases=diff_cases,
            exceptions_listed=raises_listed,
            known_findings_hit=known_hits,
            not_covered=spec.get("not_covered", []),
            status=status,
        ),
        assumptions=sorted(assumptions),
    )
    os.makedirs(os.path.join(VERIF, "evidence"), exist_ok=True)
    with open(os.path.join(VERIF, "evidence", f"{prop}.json"), "w") as f:
        json.dump(ev, f, indent=1, default=str)

    # ------------------------------------------------------------ report
    seen = set()
    for k in known_hits:
        key = (k["finding"])
        if key in seen:
            continue
        seen.add(key)
        print(f"KNOWN-FINDING: property={prop} {k['finding']}: {k['what']}")
    shown = set()
    for e in errors:
        key = (e.get("contract"), e["error"][:80])
        if key in shown:
            continue
        shown.add(key)
        if len(shown) > 12:
            print(f"CHECK-ERROR property={prop} ... {len(errors)} errors in total")
            break
        print(f"CHECK-ERROR property={prop} contract={e.get('contract')} shape={e.get('shape')} {e['error'][:300]}")
        if verbose and e.get("trace") and len(shown) <= 2:
            print(e["trace"][-1500:], file=sys.stderr)
        if verbose and e.get("detail") and len(shown) <= 2:
            print(json.dumps(e["detail"], default=str)[:1200], file=sys.stderr)
    if unsound_errors or (errors and not violations):
        return 3
    for fname, nofail, cls, clause in violations:
        print(f"VIOLATION property={prop} replay={fname}" + (" no-failing-input-found" if nofail else ""))
    if violations:
        return 1
    if undecided:
        for u in undecided[:10]:
            print(f"UNDECIDED property={prop} contract={u['contract']} shape={u['shape']} {u.get('clause', '')} {u['reason']}")
        return 2 if os.environ.get("PYVC_STRICT_UNDECIDED") else 0
    print(f"OK property={prop} tier={tier} obligations={n_obl} discharged={n_dis} paths={paths_total} wall={wall:.1f}s")
    return 0


COMMON_TRUSTED = [
    "pyvc VC generator (AST interpreter /verif/pyvc) and its encoding of Python semantics (ints mathematical, floor div/mod, eager generators)",
    "z3 5.1 / cvc5 1.0.3 soundness",
    "CPython differential + canary guards are the only check on the encoding",
]


def _slug(s):
    import re

    return re.sub(r"[^A-Za-z0-9]+", "_", str(s))[:60].strip("_")


def replay_file(prop, path):
    """re-run a recorded counterexample natively on the current tree"""
    from . import shim  # noqa: F401
    from contracts.registry import PROPERTIES

    with open(path) as f:
        rec = json.load(f)
    if rec.get("bounded"):
        print(json.dumps(rec, indent=1)[:3000])
        return 1
    cls = rec["contract"]
    modname = next(m for m, c in PROPERTIES[prop]["contracts"] if c == cls)
    mod = importlib.import_module(modname)
    C = getattr(mod, cls)
    idx = C.shapes.index(rec["shape"]) if rec["shape"] in C.shapes else None
    if idx is None:
        print("shape no longer exists in contract")
        return 3
    model = rec.get("failing_input") or rec.get("model")
    rr = native.native_case(modname, cls, idx, model=model)
    print(json.dumps(rr, indent=1, default=str)[:4000])
    failed = [n for n, ok in rr.get("checks", []) if not ok and n == rec["clause"]]
    if failed:
        print(f"VIOLATION property={prop} replay={path}")
        return 1
    print("clause holds on this input on the current tree")
    return 0


def main(argv=None):
    import argparse

    ap = argparse.ArgumentParser()
    ap.add_argument("prop")
    ap.add_argument("--tier", default=os.environ.get("VERIF_TIER", "quick"))
    ap.add_argument("--replay")
    ap.add_argument("--only", nargs="*")
    ap.add_argument("-v", "--verbose", action="store_true")
    a = ap.parse_args(argv)
    seed = int(os.environ.get("VERIF_SEED", "0"))
    if a.replay:
        return replay_file(a.prop, a.replay)
    return check_property(a.prop, a.tier, seed, a.only, a.verbose)


if __name__ == "__main__":
    try:
        rc = main()
    except SystemExit:
        raise
    except BaseException as e:  # a crash of the checker is never a violation
        import traceback

        print(f"CHECK-ERROR checker crashed: {type(e).__name__}: {str(e)[:300]}")
        traceback.print_exc(limit=6, file=sys.stderr)
        rc = 3
    sys.exit(rc)
