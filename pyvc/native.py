"""Native (CPython) execution of a contract on the real function: replay of counter-models, the
CPython differential guard, and bounded native search."""
from __future__ import annotations

import dataclasses
import enum
import importlib
import random
import time
import traceback

from . import api


def _import_native(contract_module):
    from . import shim  # noqa: F401  (must precede any snaxc import)

    return importlib.import_module(contract_module)


def resolve_native(qual):
    if "::" in qual:
        import types

        outer_q, inner = qual.split("::", 1)
        outer = resolve_native(outer_q)
        fns = [getattr(outer, "__func__", outer)]
        seen = set()
        code = None
        glob = None
        while fns and code is None:
            fn = fns.pop()
            if id(fn) in seen or not hasattr(fn, "__code__"):
                continue
            seen.add(id(fn))
            if hasattr(fn, "__wrapped__"):
                fns.append(fn.__wrapped__)
            for cell in fn.__closure__ or ():
                try:
                    if callable(cell.cell_contents):
                        fns.append(cell.cell_contents)
                except ValueError:
                    pass
            stack = [fn.__code__]
            while stack and code is None:
                c = stack.pop()
                for k in c.co_consts:
                    if isinstance(k, types.CodeType):
                        if k.co_name == inner:
                            code, glob = k, fn.__globals__
                            break
                        stack.append(k)
        if code is None or code.co_freevars:
            raise ImportError(f"cannot extract nested function {inner} from {outer_q}")
        return types.FunctionType(code, glob, inner)
    parts = qual.split(".")
    for i in range(len(parts), 0, -1):
        try:
            m = importlib.import_module(".".join(parts[:i]))
        except ImportError:
            continue
        v = m
        for p in parts[i:]:
            v = getattr(v, p)
        return v
    raise ImportError(qual)


def norm(v, depth=0):
    """structure-only normal form shared by both sides of the differential"""
    import numpy as np

    if depth > 12:
        return "<deep>"
    if isinstance(v, (bool, int, str)) or v is None:
        return v
    if isinstance(v, float):
        return round(v, 9)
    if isinstance(v, np.ndarray):
        return norm(v.tolist(), depth + 1)
    if isinstance(v, np.generic):
        return norm(v.item(), depth + 1)
    if isinstance(v, enum.Enum):
        return f"{type(v).__name__}.{v.name}"
    if isinstance(v, (list, tuple)):
        return [norm(x, depth + 1) for x in v]
    if isinstance(v, (set, frozenset)):
        return sorted((norm(x, depth + 1) for x in v), key=repr)
    if isinstance(v, dict):
        return {str(k): norm(x, depth + 1) for k, x in v.items()}
    if dataclasses.is_dataclass(v) and not isinstance(v, type):
        d = {"__cls__": type(v).__name__}
        for f in dataclasses.fields(v):
            d[f.name] = norm(getattr(v, f.name), depth + 1)
        return d
    if hasattr(v, "__dict__") and not callable(v):
        d = {"__cls__": type(v).__name__}
        for k, x in vars(v).items():
            d[k] = norm(x, depth + 1)
        return d
    if hasattr(v, "__iter__"):
        return [norm(x, depth + 1) for x in v]
    return f"<{type(v).__name__}>"


def norm_interp(v, depth=0):
    from .stubs.symarray import SymArray
    from .values import GenList, Obj

    if depth > 12:
        return "<deep>"
    if isinstance(v, (bool, int, str)) or v is None:
        return v if not isinstance(v, str) else str(v)
    if isinstance(v, float):
        return round(v, 9)
    if isinstance(v, SymArray):
        return norm_interp(v.nested(), depth + 1)
    if isinstance(v, GenList):
        return [norm_interp(x, depth + 1) for x in v.items]
    if isinstance(v, (list, tuple)):
        return [norm_interp(x, depth + 1) for x in v]
    if isinstance(v, (set, frozenset)):
        return sorted((norm_interp(x, depth + 1) for x in v), key=repr)
    if isinstance(v, dict):
        return {str(k): norm_interp(x, depth + 1) for k, x in v.items()}
    if isinstance(v, Obj):
        if v.cls.is_enum:
            return f"{v.cls.name}.{v.fields.get('name')}"
        d = {"__cls__": v.cls.name}
        for k, x in v.fields.items():
            d[k] = norm_interp(x, depth + 1)
        return d
    return f"<{type(v).__name__}>"


def native_case(contract_module, cls_name, shape_idx, model=None, seed=None):
    """Run the contract natively once.  Returns dict(skipped, raised, checks, ret, used)."""
    mod = _import_native(contract_module)
    C = getattr(mod, cls_name)
    sh = C.shapes[shape_idx]
    sym = api.ModelSym(model=model, seed=seed)
    rec = api.reset()
    out = dict(skipped=False, raised=None, checks=[], ret=None, used=None, error=None)
    try:
        build = getattr(C, "native_args", None) or C.args
        a = list(build(sh, sym))
        out["used"] = dict(sym.used)
        req = getattr(C, "requires", None)
        if req is not None:
            r = req(sh, a)
            if r is not None and not r:
                out["skipped"] = True
                return out
        try:
            run = getattr(C, "native_run", None) or getattr(C, "run", None)
            if run is not None:
                ret = run(sh, a)
            else:
                fn = resolve_native(C.target)
                try:
                    import inspect

                    ps = [p for p in inspect.signature(fn).parameters.values() if p.kind in (p.POSITIONAL_ONLY, p.POSITIONAL_OR_KEYWORD)]
                    k = len(ps) if not any(p.kind == p.VAR_POSITIONAL for p in inspect.signature(fn).parameters.values()) else len(a)
                except (TypeError, ValueError):
                    k = len(a)
                ret = fn(*a[:k])
            if hasattr(ret, "__next__"):
                ret = list(ret)
        except api.SkipCase:
            out["skipped"] = True
            return out
        except Exception as e:
            out["raised"] = type(e).__name__
            out["raise_msg"] = str(e)[:300]
            rai = getattr(C, "raises", None)
            if rai is not None:
                rai(sh, a, type(e).__name__)
            elif getattr(C, "total", False) and not (type(e).__name__ in getattr(C, "allowed_raises", ())):
                rec.checks.append((f"total: no {type(e).__name__}", False))
            out["checks"] = list(rec.checks)
            return out
        ens = getattr(C, "ensures", None)
        if ens is not None:
            ens(sh, a, ret)
        out["n_ensures"] = len(rec.checks)
        can = getattr(C, "canary", None)
        if can is not None:
            can(sh, a, ret)
        out["checks"] = list(rec.checks)
        if getattr(C, "compare_ret", True):
            try:
                out["ret"] = norm(ret)
            except Exception:
                out["ret"] = "<unnormalisable>"
    except api.SkipCase:
        out["skipped"] = True
    except Exception as e:
        out["error"] = f"{type(e).__name__}: {e}"
        out["trace"] = traceback.format_exc()[-2000:]
    return out


def interp_concrete_case(contract_module, cls_name, shape_idx, seed):
    """Run the same case through the interpreter in all-concrete mode (same seeded values)."""
    from .harness import run_job

    sym = api.ModelSym(seed=seed)

    def concrete(name, kind, lo, hi):
        if kind == "int":
            return sym.int(name, lo, hi)
        if kind == "bool":
            return sym.bool(name)
        if kind == "bv":
            return sym.bv(name, int(hi).bit_length())
        if kind.startswith("sbv:"):
            return sym.sbv(name, int(kind[4:]), lo, hi)
        return sym.int(name, lo, hi)

    return run_concrete(contract_module, cls_name, shape_idx, concrete)


def run_concrete(contract_module, cls_name, shape_idx, concrete):
    from .ctx import Ctx
    from .harness import setup_interp
    from .interp import PyRaise
    from .pyapi import SymFactory
    from .values import PathAbort, Unsupported

    ctx = Ctx()
    out = dict(skipped=False, raised=None, checks=[], ret=None, error=None)
    try:
        I, mod = setup_interp(ctx, contract_module)
        C = mod.globals[cls_name]
        sh = I.getattr(C, "shapes")[shape_idx]
        from .harness import install_modular

        install_modular(I, C, I.getattr(C, "target", None))
        I.permissive_opaque = bool(I.getattr(C, "permissive", False))
        I.outer_call_pending = True
        ctx.begin_path()
        a = list(I.iterate(I.call(I.getattr(C, "args"), [sh, SymFactory(I, concrete)], {})))
        req = I.getattr(C, "requires", None)
        if req is not None:
            r = I.call(req, [sh, a], {})
            if r is not None and not I.truth(r):
                out["skipped"] = True
                return out
        run = I.getattr(C, "run", None)
        try:
            if run is not None:
                ret = I.call(run, [sh, a], {})
            else:
                from .harness import _arity

                tgt = I.resolve(I.getattr(C, "target"))
                ret = I.call(tgt, a[:_arity(tgt, len(a))], {})
        except PyRaise as pr:
            out["raised"] = pr.exc.cls.name
            return out
        ens = I.getattr(C, "ensures", None)
        if ens is not None:
            I.call(ens, [sh, a, ret], {})
        out["checks"] = []
        import z3

        for ob in ctx.pending:
            c = z3.simplify(ob.clause)
            if z3.is_true(c) or z3.is_false(c):
                out["checks"].append((ob.name, bool(z3.is_true(c))))
            else:
                # a clause over ghost symbols (e.g. a block argument's run-time value): true iff valid
                out["checks"].append((ob.name, ctx.discharge(ob, use_cvc5=False) == "proved"))
        if I.getattr(C, "compare_ret", True):
            out["ret"] = norm_interp(ret)
    except PathAbort:
        out["skipped"] = True
    except Unsupported as e:
        out["error"] = f"Unsupported: {e}"
    except Exception as e:
        out["error"] = f"{type(e).__name__}: {e}"
        out["trace"] = traceback.format_exc()[-2000:]
    return out


def differential(contract_module, cls_name, shape_idx, seeds):
    """Compare interpreter (all-concrete) and CPython on seeded random inputs."""
    res = dict(cases=0, skipped=0, mismatches=[], errors=[])
    C = getattr(_import_native(contract_module), cls_name)
    compare_ret = getattr(C, "compare_ret", True)
    for seed in seeds:
        n = native_case(contract_module, cls_name, shape_idx, seed=seed)
        if n.get("error"):
            res["errors"].append(("native", seed, n["error"]))
            continue
        if n["skipped"]:
            res["skipped"] += 1
            continue
        i = interp_concrete_case(contract_module, cls_name, shape_idx, seed)
        if i.get("error"):
            res["errors"].append(("interp", seed, i["error"], i.get("trace", "")[-600:]))
            continue
        res["cases"] += 1
        n_checks = n["checks"][: n.get("n_ensures", len(n["checks"]))]
        same = (n["raised"] == i["raised"]) and (i["skipped"] == n["skipped"])
        if same and n["raised"] is None:
            same = (not compare_ret or n["ret"] == i["ret"]) and [tuple(c) for c in n_checks] == [tuple(c) for c in i["checks"]]
        if not same:
            res["mismatches"].append(dict(seed=seed, native=dict(raised=n["raised"], ret=str(n["ret"])[:300] if compare_ret else None, checks=n_checks),
                                          interp=dict(raised=i["raised"], ret=str(i["ret"])[:300] if compare_ret else None, checks=i["checks"], skipped=i["skipped"])))
    return res


def bounded_search(contract_module, cls_name, shape_idx, clause_name, budget_s=30, start_seed=0):
    """search natively for an input violating `clause_name` (or any ensures clause if None)"""
    t0 = time.time()
    seed = start_seed
    tried = 0
    while time.time() - t0 < budget_s:
        seed += 1
        n = native_case(contract_module, cls_name, shape_idx, seed=seed)
        if n["skipped"] or n.get("error"):
            continue
        tried += 1
        ens = n["checks"][: n.get("n_ensures", len(n["checks"]))]
        for name, ok in ens:
            if not ok and (clause_name is None or name == clause_name):
                return dict(found=True, seed=seed, used=n["used"], clause=name, tried=tried)
    return dict(found=False, tried=tried)
