"""Stub of xdsl.builder: implicit region building (ops created inside the decorated function are appended to the
region's block in creation order, like xdsl's ImplicitBuilder)."""
from xdsl.ir import IMPLICIT, Block, Region


class Builder:
    @staticmethod
    def implicit_region(arg_types):
        def deco(f):
            blk = Block(arg_types=list(arg_types))
            IMPLICIT.append(blk)
            f(blk.args)
            IMPLICIT.pop()
            return Region([blk])
        return deco


class ImplicitBuilder:
    def __init__(self, block):
        self.block = block.block if isinstance(block, Region) else block

    def __enter__(self):
        IMPLICIT.append(self.block)
        return self.block.args

    def __exit__(self, a, b, c):
        IMPLICIT.pop()
