"""Stub of xdsl.utils.hints: `isa(value, hint)` with generic arguments dropped (the hint is only a class here)."""


def isa(value, hint):
    return isinstance(value, hint)
