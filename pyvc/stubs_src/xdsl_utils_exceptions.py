class VerifyException(Exception):
    pass


class DiagnosticException(Exception):
    pass


class ParseError(Exception):
    pass


class PassFailedException(Exception):
    pass
