"""Stub of xdsl.dialects.builtin (types and attributes as plain records)."""
from xdsl.ir import Attribute, Block, Data, Operation, ParametrizedAttribute, Region, SSAValue, TypeAttribute
from xdsl.utils.exceptions import VerifyException

DYNAMIC_INDEX = -9223372036854775808  # xdsl 0.70: MLIR kDynamic (int64 min)


class IntAttr(Data):
    def __init__(self, data):
        self.data = data


class IndexType(TypeAttribute):
    def __eq__(self, other):
        return isinstance(other, IndexType)

    def __str__(self):
        return "index"


class FixedBitwidthType(TypeAttribute):
    @property
    def size(self):
        return (self.bitwidth + 7) >> 3


class CompileTimeFixedBitwidthType(TypeAttribute):
    pass


class Signedness:
    SIGNLESS = 0
    SIGNED = 1
    UNSIGNED = 2


class IntegerType(FixedBitwidthType):
    def __init__(self, width, signedness=0):
        self.width = IntAttr(width) if not isinstance(width, IntAttr) else width
        self.signedness = signedness

    @property
    def bitwidth(self):
        return self.width.data

    def value_range(self):
        """(min, max+1) as xdsl: signless = union of the signed and the unsigned range"""
        w = self.width.data
        if self.signedness == 1:
            return (-(1 << (w - 1)), 1 << (w - 1))
        if self.signedness == 2:
            return (0, 1 << w)
        return (-(1 << (w - 1)), 1 << w)

    def verify_value(self, value):
        lo, hi = self.value_range()
        if not (lo <= value < hi):
            raise VerifyException("integer value out of range for type")

    def __eq__(self, other):
        return isinstance(other, IntegerType) and self.width.data == other.width.data

    def __str__(self):
        """as xdsl prints the type: i32 / si32 / ui32"""
        pre = "si" if self.signedness == 1 else ("ui" if self.signedness == 2 else "i")
        return f"{pre}{self.width.data}"


class AnyFloat(FixedBitwidthType):
    pass


class Float32Type(AnyFloat):
    @property
    def bitwidth(self):
        return 32

    def __eq__(self, other):
        return isinstance(other, Float32Type)

    def __str__(self):
        return "f32"


i1 = IntegerType(1)
i8 = IntegerType(8)
i16 = IntegerType(16)
i32 = IntegerType(32)
i64 = IntegerType(64)
f32 = Float32Type()


class StringAttr(Data):
    def __init__(self, data):
        self.data = data


class BoolAttr(Data):
    def __init__(self, data):
        self.data = data


class UnitAttr(Attribute):
    pass


class NoneAttr(Attribute):
    def __eq__(self, other):
        return isinstance(other, NoneAttr)


class IntegerAttr(Attribute):
    def __init__(self, value, value_type=None, truncate_bits=False):
        if isinstance(value, IntAttr):
            value = value.data
        if isinstance(value_type, int):
            value_type = IntegerType(value_type)
        self.value = IntAttr(value)
        self.type = value_type

    @staticmethod
    def from_index_int_value(v):
        return IntegerAttr(v, IndexType())

    @staticmethod
    def from_int_and_width(v, w):
        return IntegerAttr(v, IntegerType(w))

    def __eq__(self, other):
        return isinstance(other, IntegerAttr) and self.value.data == other.value.data and self.type == other.type


class ArrayAttr(Attribute):
    def __init__(self, data=()):
        self.data = tuple(data)

    def __iter__(self):
        return iter(self.data)

    def __len__(self):
        return len(self.data)

    def __getitem__(self, i):
        return self.data[i]

    def __eq__(self, other):
        return isinstance(other, ArrayAttr) and self.data == other.data


class DictionaryAttr(Data):
    def __init__(self, data=None):
        self.data = dict(data) if data is not None else {}


class DenseArrayBase(Attribute):
    def __init__(self, data=(), elt_type=None):
        self.data = tuple(data)
        self.elt_type = elt_type

    @staticmethod
    def from_list(elt_type, data):
        return DenseArrayBase(data, elt_type)

    def get_values(self):
        return tuple(self.data)

    def iter_values(self):
        return iter(self.data)

    def __len__(self):
        return len(self.data)


class MemRefLayoutAttr(Attribute):
    pass


class StridedLayoutAttr(MemRefLayoutAttr):
    def __init__(self, strides, offset=0):
        self.strides = ArrayAttr([s if isinstance(s, (IntAttr, NoneAttr)) else (NoneAttr() if s is None else IntAttr(s)) for s in strides])
        if isinstance(offset, (IntAttr, NoneAttr)):
            self.offset = offset
        elif offset is None:
            self.offset = NoneAttr()
        else:
            self.offset = IntAttr(offset)

    def get_strides(self):
        return tuple(None if isinstance(s, NoneAttr) else s.data for s in self.strides.data)

    def get_affine_map(self):
        """as xdsl's StridedLayoutAttr.get_affine_map (assumed contract on the dependency): offset + sum d_i * stride_i,
        dynamic offset / strides become symbols in order"""
        from xdsl.ir.affine import AffineConstantExpr, AffineDimExpr, AffineMap, AffineSymExpr
        nb = 0
        result = AffineConstantExpr(0)
        if isinstance(self.offset, IntAttr):
            result += AffineConstantExpr(self.offset.data)
        else:
            result += AffineSymExpr(nb)
            nb += 1
        dim = 0
        for stride in self.strides.data:
            if isinstance(stride, IntAttr):
                e = AffineConstantExpr(stride.data)
            else:
                e = AffineSymExpr(nb)
                nb += 1
            result += AffineDimExpr(dim) * e
            dim += 1
        return AffineMap(len(self.strides.data), nb, (result,))

    def get_offset(self):
        return None if isinstance(self.offset, NoneAttr) else self.offset.data


class AffineMapAttr(Data):
    def __init__(self, data):
        self.data = data


class ShapedType:
    pass


class ContainerType:
    pass


class MemRefType(TypeAttribute, ShapedType, ContainerType):
    def __init__(self, element_type, shape, layout=None, memory_space=None):
        self.element_type = element_type
        self.shape = ArrayAttr([s if isinstance(s, IntAttr) else IntAttr(s) for s in shape])
        self.layout = layout if layout is not None else NoneAttr()
        self.memory_space = memory_space if memory_space is not None else NoneAttr()

    def get_shape(self):
        return tuple(s.data for s in self.shape.data)

    def get_num_dims(self):
        return len(self.shape.data)

    def get_element_type(self):
        return self.element_type

    def element_count(self):
        r = 1
        for s in self.shape.data:
            r = r * s.data
        return r

    def get_affine_map(self):
        """as xdsl's MemRefType.get_affine_map (assumed contract on the dependency): the layout's map, or the
        row-major map of the shape for the default layout"""
        from xdsl.ir.affine import AffineConstantExpr, AffineDimExpr, AffineMap
        if isinstance(self.layout, NoneAttr):
            n = len(self.shape.data)
            result = AffineConstantExpr(0)
            stride = 1
            terms = []
            for d in reversed(range(n)):
                terms.append((d, stride))
                stride = stride * self.shape.data[d].data
            for d, st in reversed(terms):
                result += AffineDimExpr(d) * st
            return AffineMap(n, 0, (result,))
        return self.layout.get_affine_map()

    def get_affine_map_in_bytes(self):
        from xdsl.ir.affine import AffineMap
        m = self.get_affine_map()
        return AffineMap(m.num_dims, m.num_symbols, tuple(r * self.element_type.size for r in m.results))


class TensorType(TypeAttribute, ShapedType, ContainerType):
    def __init__(self, element_type, shape, encoding=None):
        self.element_type = element_type
        self.shape = ArrayAttr([s if isinstance(s, IntAttr) else IntAttr(s) for s in shape])

    def get_shape(self):
        return tuple(s.data for s in self.shape.data)

    def get_num_dims(self):
        return len(self.shape.data)

    def get_element_type(self):
        return self.element_type

    def __eq__(self, other):
        return isinstance(other, TensorType) and self.element_type == other.element_type and self.get_shape() == other.get_shape()


class UnrealizedConversionCastOp(Operation):
    def __init__(self, operands=(), result_types=()):
        self._init_op(operands, [None for _ in result_types], list(result_types))

    @property
    def outputs(self):
        return self.results

    @property
    def inputs(self):
        return self.operands

    @staticmethod
    def get(inputs, result_types):
        return UnrealizedConversionCastOp(inputs, result_types)


class ModuleOp(Operation):
    def __init__(self, ops=()):
        self._init_op([], [], [])
        if isinstance(ops, Region):
            self.body = ops
        else:
            self.body = Region([Block(list(ops))])
        self.regions = [self.body]
        self.body.parent = self

    @property
    def ops(self):
        return self.body.block.ops


class SymbolRefAttr(Attribute):
    def __init__(self, root, nested=()):
        self.root_reference = StringAttr(root) if isinstance(root, str) else root

    def string_value(self):
        return self.root_reference.data


class BytesAttr(Data):
    pass


class DenseIntOrFPElementsAttr(Attribute):
    """placeholder: constant contents are handled by the bounded stand-in of transform_constant"""


class AnyDenseElement:
    pass


class FunctionType(TypeAttribute):
    def __init__(self, inputs, outputs):
        self.inputs = inputs if isinstance(inputs, ArrayAttr) else ArrayAttr(inputs)
        self.outputs = outputs if isinstance(outputs, ArrayAttr) else ArrayAttr(outputs)

    @staticmethod
    def from_lists(inputs, outputs):
        return FunctionType(ArrayAttr(list(inputs)), ArrayAttr(list(outputs)))

    @staticmethod
    def from_attrs(inputs, outputs):
        return FunctionType(inputs, outputs)
