"""Stub of xdsl.dialects.utils."""
from xdsl.ir import Operation


class AbstractYieldOperation(Operation):
    def __init__(self, *operands):
        self._init_op(operands, [], [])

    @property
    def arguments(self):
        return tuple(self.operands)

    @property
    def _operands(self):
        """xdsl's backing store of the operand list (same object: assignments through either are seen by both)"""
        return self.operands
