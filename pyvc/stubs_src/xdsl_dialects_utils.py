"""Stub of xdsl.dialects.utils."""
from xdsl.ir import Operation


class AbstractYieldOperation(Operation):
    def __init__(self, *operands):
        self._init_op(operands, [], [])

    @property
    def arguments(self):
        return tuple(self.operands)
