"""Stub of the external `minimalloc` solver (not installed): ASSUMED CONTRACT of Problem.solve(): one offset per
buffer, aligned, inside the capacity, and two buffers whose [start_time, end_time] intervals intersect get disjoint
address ranges.  Nothing else is assumed (in particular buffers with disjoint lifetimes may share addresses)."""
from pyvc.api import assume, fresh_int


class Buffer:
    def __init__(self, id, start_time, end_time, size, alignment=1):
        self.id = id
        self.start_time = start_time
        self.end_time = end_time
        self.size = size
        self.alignment = alignment


class Problem:
    def __init__(self, buffers, capacity):
        self.buffers = list(buffers)
        self.capacity = capacity

    def solve(self):
        offs = [fresh_int("offset") for _ in self.buffers]
        for b, o in zip(self.buffers, offs):
            assume(o >= 0 and o + b.size <= self.capacity)
            if b.alignment >= 1:
                assume(o % b.alignment == 0)
        for i in range(len(self.buffers)):
            for j in range(i):
                a, b = self.buffers[i], self.buffers[j]
                if a.start_time <= b.end_time and b.start_time <= a.end_time:
                    assume(offs[i] + a.size <= offs[j] or offs[j] + b.size <= offs[i])
        return offs
