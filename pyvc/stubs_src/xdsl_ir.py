"""Stub of xdsl.ir for symbolic execution: SSA values carry a *denotation* (`den`: the integer the
value holds at run time, concrete or symbolic), operations are term constructors."""
from pyvc.api import fresh_int, unsupported
from pyvc.stubhelpers import param_names


IMPLICIT = []  # stack of blocks under implicit construction (xdsl.builder stub)
ALL_OPS = []  # every op constructed in this run, in creation order (the "heap" a use-scan looks at)
EAGER = [False]  # contracts switch this on to have replace_uses_with_if / replace_all_uses_with PERFORMED (by a scan
PERFORM = [False]  # set by PerformingPatternRewriter: detach() and insert_op() change the view, not only the log
#                  over ALL_OPS, i.e. over all current uses, exactly what xDSL's use-lists hold) and not only recorded


class Attribute:
    pass


class TypeAttribute(Attribute):
    pass


class ParametrizedAttribute(Attribute):
    def __init__(self, *parameters):
        names = param_names(self)
        k = 0
        for p in parameters:
            object.__setattr__(self, names[k], p)
            k += 1

    @property
    def parameters(self):
        return tuple(getattr(self, n) for n in param_names(self))

    def __eq__(self, other):
        return isinstance(other, ParametrizedAttribute) and type(self) is type(other) and self.parameters == other.parameters


class Data(Attribute):
    def __init__(self, data):
        self.data = data

    def __eq__(self, other):
        return isinstance(other, Data) and type(self) is type(other) and self.data == other.data


class Use:
    def __init__(self, operation, index=0):
        self.operation = operation
        self.index = index


class IRUses:
    """the use-list of a value as xdsl exposes it (iterable, truthy when non-empty, get_length); contracts fill it
    with `append` when they build a view"""

    def __init__(self):
        self._uses = []

    def append(self, use):
        self._uses.append(use)

    def get_length(self):
        return len(self._uses)

    def __len__(self):
        return len(self._uses)

    def __iter__(self):
        return iter(self._uses)


class SSAValue:
    def __init__(self, den=None, type=None, owner=None, name_hint=None):
        self.den = den
        self.type = type
        self.owner = owner
        self.name_hint = name_hint
        self.uses = IRUses()
        self.replaced = None

    @staticmethod
    def get(x, type=None):
        if isinstance(x, Operation):
            return x.results[0]
        return x

    @property
    def op(self):
        return self.owner

    def _users(self):
        """all current uses, by a scan over every op constructed in this run (what xdsl's use-list holds)"""
        out = []
        for o in ALL_OPS:
            if getattr(o, "erased", False):
                continue
            k = 0
            for v in o.operands:
                if v is self:
                    out.append(Use(o, k))
                k += 1
        return out

    def get_user_of_unique_use(self):
        us = self._users()
        return us[0].operation if len(us) == 1 else None

    def has_one_use(self):
        return len(self._users()) == 1

    def replace_uses_with_if(self, value, predicate):
        """recorded (the contract reads `replaced` to see which value users now see); performed only in EAGER mode"""
        self.replaced = (value, predicate)
        if EAGER[0]:
            for o in list(ALL_OPS):
                if getattr(o, "erased", False):
                    continue
                k = 0
                for v in list(o.operands):
                    if v is self and (predicate is None or predicate(Use(o, k))):
                        o.operands[k] = value
                    k += 1

    def replace_all_uses_with(self, value):
        self.replace_uses_with_if(value, None)

    def replace_by(self, value):
        self.replace_uses_with_if(value, None)


class OpResult(SSAValue):
    def __init__(self, a=None, b=None, c=None, name_hint=None):
        """stub form OpResult(den, type, owner) - or xdsl's own OpResult(type, op, index) when code under contract
        creates a result itself (no denotation then)"""
        if isinstance(b, Operation):
            SSAValue.__init__(self, None, a, b, name_hint)
        else:
            SSAValue.__init__(self, a, b, c, name_hint)

    @property
    def index(self):
        k = 0
        for r in self.owner.results:
            if r is self:
                return k
            k += 1
        return -1


class BlockArgument(SSAValue):
    @property
    def block(self):
        return self.owner

    @property
    def index(self):
        k = 0
        for a in self.owner.args:
            if a is self:
                return k
            k += 1
        return -1


def SSAValues(values=()):
    """xdsl's immutable sequence of values: a tuple here"""
    return tuple(values)


def den(x):
    """run-time integer denoted by an SSA value / single-result op / python int"""
    if isinstance(x, Operation):
        return x.results[0].den
    if isinstance(x, SSAValue):
        return x.den
    return x


class Operation:
    """base of all op stubs: keeps operands/results/attributes and FAITHFUL parent links
    (op.parent = Block, block.parent = Region, region.parent = Operation)"""

    def _init_op(self, operands, result_dens, result_types=None, attributes=None):
        self.operands = [SSAValue.get(o) for o in operands]
        self.results = []
        k = 0
        for d in result_dens:
            t = None
            if result_types is not None and k < len(result_types):
                t = result_types[k]
            self.results.append(OpResult(d, t, self))
            k += 1
        self.attributes = attributes if attributes is not None else {}
        self.properties = {}
        self.regions = []
        self.parent = None
        ALL_OPS.append(self)
        if len(IMPLICIT) > 0:
            IMPLICIT[-1].add_op(self)

    @property
    def result(self):
        return self.results[0]

    @property
    def res(self):
        return self.results[0]

    @property
    def operand_types(self):
        return tuple(o.type for o in self.operands)

    @property
    def result_types(self):
        return tuple(r.type for r in self.results)

    def parent_block(self):
        return self.parent

    def parent_region(self):
        b = self.parent
        return b.parent if b is not None else None

    def parent_op(self):
        b = self.parent
        if b is None:
            return None
        r = b.parent
        if r is None:
            return None
        return r.parent

    def _pos(self):
        k = 0
        for o in self.parent.ops:
            if o is self:
                return k
            k += 1
        return -1

    @property
    def prev_op(self):
        if self.parent is None:
            return None
        i = self._pos()
        return self.parent.ops[i - 1] if i > 0 else None

    @property
    def next_op(self):
        if self.parent is None:
            return None
        i = self._pos()
        return self.parent.ops[i + 1] if i + 1 < len(self.parent.ops) else None

    def walk(self, reverse=False, region_first=False):
        # as xdsl: `reverse` reverses the order of regions / blocks / ops, `region_first` the position of self
        inner = []
        for r in (reversed(self.regions) if reverse else self.regions):
            inner.extend(r.walk(reverse, region_first))
        return inner + [self] if region_first else [self] + inner

    def clone(self, value_mapper=None, block_mapper=None):
        """generic clone for stub ops without results and regions (terminators, markers); op classes whose results carry
        a denotation define their own clone"""
        vm = value_mapper if value_mapper is not None else {}
        if len(self.results) > 0 or len(self.regions) > 0:
            unsupported("clone of a " + type(self).__name__ + " is not modelled")
        new = object.__new__(type(self))
        new._init_op([vm[v] if v in vm else v for v in self.operands], [], [], dict(self.attributes))
        new.properties = dict(self.properties)
        return new

    def get_trait(self, trait):
        """traits are not modelled as objects: the trait class itself stands for 'the op has it' (its static helpers,
        e.g. SymbolTable.lookup_symbol, are stubbed)"""
        return trait

    def add_region(self, region):
        region.parent = self
        self.regions.append(region)

    def has_trait(self, trait):
        """traits are ghost flags on view ops: only IsTerminator is modelled"""
        return getattr(self, "is_terminator", False)

    def detach(self):
        """recorded; performed only under a PerformingPatternRewriter (PERFORM[0])"""
        self.detached = True
        if PERFORM[0] and self.parent is not None:
            blk = self.parent
            blk.ops = [o for o in blk.ops if o is not self]
            self.parent = None

    def erase(self, safe_erase=True):
        self.erased = True

    def detach_region(self, region):
        k = 0
        for r in self.regions:
            if r is region:
                del self.regions[k]
                region.parent = None
                return region
            k += 1
        return region

    @property
    def successors(self):
        return []

    def is_ancestor(self, op):
        """as xdsl: True when `op` is self or nested (at any depth) inside self"""
        o = op
        while o is not None:
            if o is self:
                return True
            o = o.parent_op()
        return False

    def get_toplevel_object(self):
        o = self
        while o.parent_op() is not None:
            o = o.parent_op()
        return o


class Block:
    def __init__(self, ops=(), arg_types=()):
        self.ops = list(ops)
        self.args = tuple(BlockArgument(fresh_int("barg"), t, self) for t in arg_types)
        for o in self.ops:
            o.parent = self
        self.parent = None

    def add_op(self, op):
        op.parent = self
        self.ops.append(op)

    @property
    def arg_types(self):
        return tuple(a.type for a in self.args)

    def erase_arg(self, arg, safe_erase=True):
        self.args = tuple(a for a in self.args if a is not arg)

    def insert_arg(self, arg_type, index):
        a = BlockArgument(fresh_int("barg"), arg_type, self)
        l = list(self.args)
        l.insert(index, a)
        self.args = tuple(l)
        return a

    def clone_into(self, value_mapper):
        """a new block with fresh arguments (entered into the mapper) and clones of all ops, in order"""
        nb = Block([], [a.type for a in self.args])
        k = 0
        for a in self.args:
            value_mapper[a] = nb.args[k]
            k += 1
        for o in self.ops:
            nb.add_op(o.clone(value_mapper))
        return nb

    def add_ops(self, ops):
        for o in ops:
            self.add_op(o)

    def _index_of(self, anchor):
        i = 0
        while i < len(self.ops) and self.ops[i] is not anchor:
            i += 1
        return i

    def get_operation_index(self, op):
        return self._index_of(op)

    def insert_ops_before(self, ops, anchor):
        i = self._index_of(anchor)
        k = 0
        for o in ops:
            o.parent = self
            self.ops.insert(i + k, o)
            k += 1

    def insert_op_before(self, op, anchor):
        self.insert_ops_before([op], anchor)

    def insert_ops_after(self, ops, anchor):
        i = self._index_of(anchor)
        k = 1
        for o in ops:
            o.parent = self
            self.ops.insert(i + k, o)
            k += 1

    def insert_op_after(self, op, anchor):
        self.insert_ops_after([op], anchor)

    @property
    def first_op(self):
        return self.ops[0] if len(self.ops) > 0 else None

    @property
    def last_op(self):
        return self.ops[-1] if len(self.ops) > 0 else None

    def parent_region(self):
        return self.parent

    def parent_op(self):
        return self.parent.parent if self.parent is not None else None

    def parent_block(self):
        o = self.parent_op()
        return o.parent if o is not None else None

    def walk(self, reverse=False, region_first=False):
        out = []
        for o in (reversed(self.ops) if reverse else self.ops):
            out.extend(o.walk(reverse, region_first))
        return out


class Region:
    def __init__(self, blocks=()):
        if isinstance(blocks, Block):
            blocks = [blocks]
        self.blocks = list(blocks)
        for b in self.blocks:
            b.parent = self
        self.parent = None

    @property
    def block(self):
        return self.blocks[0]

    @property
    def first_block(self):
        return self.blocks[0] if len(self.blocks) > 0 else None

    @property
    def ops(self):
        return self.blocks[0].ops

    def parent_op(self):
        return self.parent

    def clone(self):
        """structure-only copy: a new region object holding the same blocks (ops are not duplicated)"""
        r = Region([])
        r.blocks = list(self.blocks)
        r.cloned_from = self
        return r

    def walk(self, reverse=False, region_first=False):
        out = []
        for b in (reversed(self.blocks) if reverse else self.blocks):
            out.extend(b.walk(reverse, region_first))
        return out


class Dialect:
    def __init__(self, name, ops=(), attrs=()):
        self.name = name
