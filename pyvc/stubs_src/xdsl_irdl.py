"""Stub of xdsl.irdl: definitions are never executed; decorators are identities."""


def irdl_op_definition(cls):
    return cls


def irdl_attr_definition(cls):
    return cls


def _none(*a, **k):
    return None


operand_def = _none
opt_operand_def = _none
var_operand_def = _none
result_def = _none
opt_result_def = _none
var_result_def = _none
prop_def = _none
opt_prop_def = _none
attr_def = _none
opt_attr_def = _none
region_def = _none
opt_region_def = _none
var_region_def = _none
successor_def = _none
traits_def = _none
param_def = _none
lazy_traits_def = _none
base = _none
eq = _none


class IRDLOperation:
    pass


class ParameterDef:
    def __class_getitem__(cls, item):
        return cls


class AttrSizedOperandSegments:
    def __init__(self, *a, **k):
        pass


class SameVariadicOperandSize:
    def __init__(self, *a, **k):
        pass


class ConstraintContext:
    pass


class VarConstraint:
    def __init__(self, *a, **k):
        pass


class AnyAttr:
    def __init__(self, *a, **k):
        pass
