"""Stub of xdsl.irdl: definitions are never executed; decorators are identities."""


def irdl_op_definition(cls):
    return cls


def irdl_attr_definition(cls):
    return cls


from pyvc.irdlhelpers import (attr_def, irdl_defs, irdl_init, operand_def, opt_attr_def, opt_operand_def, opt_prop_def, opt_region_def,
                              opt_result_def, prop_def, region_def, result_def, var_operand_def, var_region_def, var_result_def)
from xdsl.ir import Operation, Region


def _none(*a, **k):
    return None


successor_def = _none
traits_def = _none
param_def = _none
lazy_traits_def = _none
base = _none
eq = _none


class IRDLOperation(Operation):
    __init__ = irdl_init

    @classmethod
    def create(cls, operands=(), result_types=(), properties=None, attributes=None, successors=(), regions=()):
        o = object.__new__(cls)
        irdl_init(o, operands, result_types, properties, attributes, successors, regions)
        return o

    @classmethod
    def build(cls, operands=(), result_types=(), properties=None, attributes=None, successors=(), regions=()):
        return cls.create(operands, result_types, properties, attributes, successors, regions)

    def clone(self, value_mapper=None, block_mapper=None):
        """as xdsl: a new op of the same class, operands looked up in `value_mapper` (by identity), same properties and
        attributes, fresh results which are entered into the mapper; ops with regions are not modelled"""
        vm = value_mapper if value_mapper is not None else {}
        operands = []
        result_types = []
        for (n, kind, variadic, optional) in irdl_defs(self):
            val = getattr(self, n)
            if kind == "operand":
                if variadic:
                    operands.append([vm[v] if v in vm else v for v in val])
                elif optional:
                    operands.append([] if val is None else [vm[val] if val in vm else val])
                else:
                    operands.append(vm[val] if val in vm else val)
            else:
                if variadic:
                    result_types.append([r.type for r in val])
                elif optional:
                    result_types.append([] if val is None else [val.type])
                else:
                    result_types.append(val.type)
        # regions are cloned deeply: fresh block arguments, every inner op cloned through the same mapper
        regions = [Region([b.clone_into(vm) for b in r.blocks]) for r in self.regions]
        new = type(self).create(operands, result_types, dict(self.properties), dict(self.attributes), (), regions)
        k = 0
        for r in self.results:
            vm[r] = new.results[k]
            k += 1
        return new


class ParameterDef:
    def __class_getitem__(cls, item):
        return cls


class AttrSizedOperandSegments:
    def __init__(self, *a, **k):
        pass


class SameVariadicOperandSize:
    def __init__(self, *a, **k):
        pass


class ConstraintContext:
    pass


class VarConstraint:
    def __init__(self, *a, **k):
        pass


class AnyAttr:
    def __init__(self, *a, **k):
        pass
