"""Stub of xdsl.dialects.arith: op constructors are term constructors with a denotation.

TRUSTED SEMANTICS (index/i32 arithmetic treated as mathematical integers unless the contract runs in
bit-vector mode): addi/subi/muli = + - *; divui/remui = floor division / remainder (operands are
assumed non-negative: they are sizes, strides, bounds); shli = * 2^k; ori/andi only in bit-vector mode."""
from xdsl.dialects.builtin import IndexType, IntAttr, IntegerAttr, IntegerType
from xdsl.ir import Operation, SSAValue, den
from pyvc.api import bv_add, bv_and, bv_ashr, bv_const, bv_lshr, bv_mul, bv_or, bv_sext, bv_shl, bv_smax, bv_smin, bv_sub, bv_zext


MODE = {"bv": False}  # bit-vector mode: integer-typed constants denote fixed-width words


class ConstantOp(Operation):
    def __init__(self, value, value_type=None):
        if value_type is None:
            value_type = value.type
        self.value = value
        d = value.value.data
        # constants keep their integer denotation; bit-level ops convert their operands to fixed-width words lazily
        self._init_op([], [d], [value_type])

    @staticmethod
    def from_int_and_width(value, value_type, truncate_bits=False):
        if isinstance(value_type, int):
            value_type = IntegerType(value_type)
        return ConstantOp(IntegerAttr(value, value_type), value_type)

    def clone(self, value_mapper=None, block_mapper=None):
        new = ConstantOp(self.value, self.results[0].type)
        if value_mapper is not None:
            value_mapper[self.results[0]] = new.results[0]
        return new


class _Binary(Operation):
    def __init__(self, lhs, rhs, result_type=None):
        lhs = SSAValue.get(lhs)
        rhs = SSAValue.get(rhs)
        if result_type is None:
            result_type = lhs.type
        self.width = result_type.width.data if isinstance(result_type, IntegerType) else 64
        # an operand without a denotation (e.g. the result of a CSR read) makes the result unknown
        d = None if (lhs.den is None or rhs.den is None) else self.sem(lhs.den, rhs.den)
        self._init_op([lhs, rhs], [d], [result_type])

    @property
    def lhs(self):
        return self.operands[0]

    @property
    def rhs(self):
        return self.operands[1]

    def clone(self, value_mapper=None, block_mapper=None):
        """as xdsl: same op class on the mapped operands (the denotation is recomputed from them)"""
        vm = value_mapper if value_mapper is not None else {}
        a, b = self.operands[0], self.operands[1]
        new = type(self)(vm[a] if a in vm else a, vm[b] if b in vm else b, self.results[0].type)
        vm[self.results[0]] = new.results[0]
        return new


class AddiOp(_Binary):
    name = "arith.addi"

    def sem(self, a, b):
        return bv_add(a, b, self.width) if MODE["bv"] == "all" else a + b


class SubiOp(_Binary):
    name = "arith.subi"

    def sem(self, a, b):
        return bv_sub(a, b, self.width) if MODE["bv"] == "all" else a - b


class MuliOp(_Binary):
    name = "arith.muli"

    def sem(self, a, b):
        return bv_mul(a, b, self.width) if MODE["bv"] == "all" else a * b


class DivUIOp(_Binary):
    def sem(self, a, b):
        return a // b


class DivSIOp(_Binary):
    def sem(self, a, b):
        return a // b


class FloorDivSIOp(_Binary):
    def sem(self, a, b):
        return a // b


class RemUIOp(_Binary):
    def sem(self, a, b):
        return a % b


class RemSIOp(_Binary):
    def sem(self, a, b):
        return a % b


class ShLIOp(_Binary):
    def sem(self, a, b):
        return bv_shl(a, b, self.width) if MODE["bv"] else a << b


class ShRUIOp(_Binary):
    def sem(self, a, b):
        return bv_lshr(a, b, self.width) if MODE["bv"] else a >> b


class ShRSIOp(_Binary):
    """arithmetic shift right: floor division by 2^k on mathematical integers"""

    def sem(self, a, b):
        return bv_ashr(a, b, self.width) if MODE["bv"] else a >> b


class MinSIOp(_Binary):
    def sem(self, a, b):
        return bv_smin(a, b, self.width) if MODE["bv"] == "all" else min(a, b)


class MaxSIOp(_Binary):
    def sem(self, a, b):
        return bv_smax(a, b, self.width) if MODE["bv"] == "all" else max(a, b)


class OrIOp(_Binary):
    def sem(self, a, b):
        return bv_or(a, b, self.width) if MODE["bv"] else a | b


class AndIOp(_Binary):
    def sem(self, a, b):
        return bv_and(a, b, self.width) if MODE["bv"] else a & b


class XOrIOp(_Binary):
    def sem(self, a, b):
        return a ^ b


class MaxUIOp(_Binary):
    def sem(self, a, b):
        return max(a, b)


class MinUIOp(_Binary):
    def sem(self, a, b):
        return min(a, b)


class IndexCastOp(Operation):
    def __init__(self, inp, target_type=None):
        inp = SSAValue.get(inp)
        self._init_op([inp], [inp.den], [target_type])

    def clone(self, value_mapper=None, block_mapper=None):
        vm = value_mapper if value_mapper is not None else {}
        a = self.operands[0]
        new = IndexCastOp(vm[a] if a in vm else a, self.results[0].type)
        vm[self.results[0]] = new.results[0]
        return new

    @property
    def input(self):
        return self.operands[0]


class _WidthCast(Operation):
    def __init__(self, inp, target_type=None):
        inp = SSAValue.get(inp)
        d = inp.den
        if MODE["bv"] == "all" and d is not None and isinstance(inp.type, IntegerType) and isinstance(target_type, IntegerType):
            d = self.conv(d, inp.type.width.data, target_type.width.data)
        self._init_op([inp], [d], [target_type])

    @property
    def input(self):
        return self.operands[0]


class ExtUIOp(_WidthCast):
    def conv(self, d, fw, tw):
        return bv_zext(d, fw, tw)


class ExtSIOp(_WidthCast):
    def conv(self, d, fw, tw):
        return bv_sext(d, fw, tw)


class TruncIOp(_WidthCast):
    def conv(self, d, fw, tw):
        return bv_zext(d, fw, tw)


class CmpiOp(Operation):
    def __init__(self, lhs, rhs, pred):
        lhs = SSAValue.get(lhs)
        rhs = SSAValue.get(rhs)
        self.predicate = pred
        p = pred
        if lhs.den is None or rhs.den is None:
            d = None
        elif p == "eq" or p == 0:
            d = lhs.den == rhs.den
        elif p == "ne" or p == 1:
            d = lhs.den != rhs.den
        elif p in ("slt", "ult", 2, 6):
            d = lhs.den < rhs.den
        elif p in ("sle", "ule", 3, 7):
            d = lhs.den <= rhs.den
        elif p in ("sgt", "ugt", 4, 8):
            d = lhs.den > rhs.den
        else:
            d = lhs.den >= rhs.den
        self._init_op([lhs, rhs], [d], [None])


class SelectOp(Operation):
    def __init__(self, cond, a, b):
        cond = SSAValue.get(cond)
        a = SSAValue.get(a)
        b = SSAValue.get(b)
        self._init_op([cond, a, b], [a.den if cond.den else b.den], [a.type])
