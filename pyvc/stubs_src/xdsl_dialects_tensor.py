"""Stub of xdsl.dialects.tensor (structure only)."""
from xdsl.ir import Operation


class DimOp(Operation):
    def __init__(self, source, index):
        self._init_op([source, index], [None], [None])

    @property
    def source(self):
        return self.operands[0]

    @property
    def index(self):
        return self.operands[1]


class EmptyOp(Operation):
    def __init__(self, dynamic_sizes, tensor_type):
        self._init_op(list(dynamic_sizes), [None], [tensor_type])

    @property
    def tensor(self):
        return self.results[0]
