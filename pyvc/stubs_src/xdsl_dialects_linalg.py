"""Stub of xdsl.dialects.linalg (structure only)."""
from xdsl.ir import Block, Operation, Region


class YieldOp(Operation):
    def __init__(self, *values):
        self._init_op(values, [], [])


class GenericOp(Operation):
    def __init__(self, inputs=(), outputs=(), body=None, indexing_maps=None, iterator_types=None, result_types=(), library_call=None, doc=None):
        self._init_op(list(inputs) + list(outputs), [None for _ in result_types], list(result_types))
        self.inputs = tuple(inputs)
        self.outputs = tuple(outputs)
        self.body = body if body is not None else Region([Block()])
        self.regions = [self.body]
        self.body.parent = self
        self.indexing_maps = indexing_maps
        self.iterator_types = iterator_types
        self.library_call = library_call
        self.doc = doc
