"""Stub of xdsl.dialects.tosa: the three ops convert-tosa-to-kernel looks at (structure only)."""
from xdsl.ir import Operation


class ConstOp(Operation):
    def __init__(self, values, type=None):
        self._init_op([], [None], [type])
        self.values = values

    @property
    def output(self):
        return self.results[0]


class RescaleOp(Operation):
    def __init__(self, input, multiplier, shift, input_zp, output_zp, result_type, rounding_mode, scale32=True, per_channel=False):
        self._init_op([input, multiplier, shift, input_zp, output_zp], [None], [result_type])
        self.rounding_mode = rounding_mode
        self.scale32 = scale32
        self.per_channel = per_channel

    @property
    def input(self):
        return self.operands[0]

    @property
    def multiplier(self):
        return self.operands[1]

    @property
    def shift(self):
        return self.operands[2]

    @property
    def input_zp(self):
        return self.operands[3]

    @property
    def output_zp(self):
        return self.operands[4]

    @property
    def output(self):
        return self.results[0]


class ClampOp(Operation):
    def __init__(self, input, min_val, max_val, result_type):
        self._init_op([input], [None], [result_type])
        self.min_val = min_val
        self.max_val = max_val

    @property
    def input(self):
        return self.operands[0]

    @property
    def output(self):
        return self.results[0]
