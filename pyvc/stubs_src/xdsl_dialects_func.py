"""Stub of xdsl.dialects.func: a call is recorded with its callee name and argument values."""
from xdsl.dialects.builtin import StringAttr, SymbolRefAttr
from xdsl.ir import Operation, SSAValue


class CallOp(Operation):
    def __init__(self, callee, arguments, return_types=()):
        self.callee = SymbolRefAttr(callee) if isinstance(callee, str) else callee
        self._init_op(list(arguments), [None for _ in return_types], list(return_types))

    @property
    def arguments(self):
        return tuple(self.operands)

    @property
    def res(self):
        return tuple(self.results)


class FuncOp(Operation):
    def __init__(self, name, function_type=None, region=None, visibility=None):
        self.sym_name = StringAttr(name) if isinstance(name, str) else name
        self.function_type = function_type
        self.sym_visibility = StringAttr(visibility) if isinstance(visibility, str) else visibility
        self._init_op([], [], [])
        if region is not None:
            self.body = region
            self.regions = [region]
            region.parent = self

    @staticmethod
    def external(name, input_types=(), return_types=()):
        return FuncOp(name)


class ReturnOp(Operation):
    def __init__(self, *values):
        self._init_op(values, [], [])
