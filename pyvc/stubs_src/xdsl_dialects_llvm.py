"""Stub of xdsl.dialects.llvm: aggregate values denote a dict {position tuple: value}."""
from xdsl.ir import Attribute, Operation, SSAValue, TypeAttribute


class LLVMPointerType(TypeAttribute):
    def __eq__(self, other):
        return isinstance(other, LLVMPointerType)


class LLVMStructType(TypeAttribute):
    def __init__(self, types=()):
        self.types = list(types)

    @staticmethod
    def from_type_list(types):
        return LLVMStructType(types)


class LLVMArrayType(TypeAttribute):
    def __init__(self, size=0, type=None):
        self.size = size
        self.type = type

    @staticmethod
    def from_size_and_type(size, type):
        return LLVMArrayType(size, type)


class UndefOp(Operation):
    def __init__(self, result_type=None):
        self._init_op([], [{}], [result_type])


class InsertValueOp(Operation):
    def __init__(self, position, container, value):
        container = SSAValue.get(container)
        value = SSAValue.get(value)
        self.position = position
        d = dict(container.den) if isinstance(container.den, dict) else {}
        d[tuple(position.data)] = value
        self._init_op([container, value], [d], [container.type])

    @property
    def container(self):
        return self.operands[0]

    @property
    def value(self):
        return self.operands[1]


class ExtractValueOp(Operation):
    def __init__(self, position, container, result_type=None):
        container = SSAValue.get(container)
        self.position = position
        d = container.den.get(tuple(position.data)) if isinstance(container.den, dict) else None
        self._init_op([container], [d.den if isinstance(d, SSAValue) else None], [result_type])


class IntToPtrOp(Operation):
    def __init__(self, input, ptr_type=None):
        input = SSAValue.get(input)
        self._init_op([input], [input.den], [LLVMPointerType()])

    @property
    def input(self):
        return self.operands[0]

    @property
    def output(self):
        return self.results[0]


class PtrToIntOp(Operation):
    def __init__(self, input, int_type=None):
        input = SSAValue.get(input)
        self._init_op([input], [input.den], [int_type])

    @property
    def output(self):
        return self.results[0]


class LoadOp(Operation):
    def __init__(self, ptr, result_type=None):
        ptr = SSAValue.get(ptr)
        self._init_op([ptr], [None], [result_type])

    @property
    def dereferenced_value(self):
        return self.results[0]


class InlineAsmOp(Operation):
    """inline assembly: recorded verbatim.  A "csrw $0, $1" op is the EVENT write(den(operand0), operand1);
    "csrr $0, $1" reads the CSR den(operand0) into its result."""

    def __init__(self, asm_string, constraints, operands=(), res_types=(), asm_dialect=0, has_side_effects=False, is_align_stack=False):
        self.asm_string = asm_string
        self.constraints = constraints
        self.has_side_effects = has_side_effects
        self._init_op(operands, [None for _ in res_types], list(res_types))
