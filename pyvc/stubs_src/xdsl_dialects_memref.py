"""Stub of xdsl.dialects.memref.  A memref SSA value carries ghost run-time data:
  rt_shape[i], rt_strides[i], rt_offset (python ints or symbolic), rt_ptr (aligned pointer)."""
from xdsl.dialects.builtin import IndexType, MemRefType, NoneAttr, StridedLayoutAttr
from xdsl.ir import IRUses, Operation, OpResult, SSAValue, den


class MemRefValue(SSAValue):
    """an SSA value of memref type together with its run-time descriptor"""

    def __init__(self, type, rt_shape, rt_strides=None, rt_offset=0, rt_ptr=None, owner=None):
        self.den = None
        self.type = type
        self.owner = owner
        self.name_hint = None
        self.uses = IRUses()
        self.rt_shape = list(rt_shape)
        self.rt_strides = list(rt_strides) if rt_strides is not None else None
        self.rt_offset = rt_offset
        self.rt_ptr = rt_ptr


class DimOp(Operation):
    def __init__(self, source, index):
        source = SSAValue.get(source)
        index = SSAValue.get(index)
        self._init_op([source, index], [source.rt_shape[index.den]], [IndexType()])

    @staticmethod
    def from_source_and_index(source, index):
        return DimOp(source, index)

    @property
    def source(self):
        return self.operands[0]

    @property
    def index(self):
        return self.operands[1]


class ExtractStridedMetaDataOp(Operation):
    def __init__(self, source):
        source = SSAValue.get(source)
        n = len(source.rt_shape)
        dens = [source.rt_ptr, source.rt_offset] + list(source.rt_shape) + list(source.rt_strides)
        self._init_op([source], dens, [None] * len(dens))
        self.base_buffer = self.results[0]
        self.offset = self.results[1]
        self.sizes = self.results[2:2 + n]
        self.strides = self.results[2 + n:2 + 2 * n]


class ExtractAlignedPointerAsIndexOp(Operation):
    def __init__(self, source):
        source = SSAValue.get(source)
        self._init_op([source], [source.rt_ptr], [IndexType()])

    @staticmethod
    def get(source):
        return ExtractAlignedPointerAsIndexOp(source)

    @property
    def aligned_pointer(self):
        return self.results[0]

    @property
    def source(self):
        return self.operands[0]


from xdsl.dialects.builtin import IntegerAttr  # noqa: E402
from xdsl.irdl import IRDLOperation, opt_prop_def, result_def, var_operand_def  # noqa: E402


class AllocOp(IRDLOperation):
    name = "memref.alloc"
    dynamic_sizes = var_operand_def(IndexType)
    symbol_operands = var_operand_def(IndexType)
    memref = result_def(MemRefType)
    alignment = opt_prop_def(IntegerAttr)

    def __init__(self, dynamic_sizes, symbol_operands, result_type, alignment=None):
        super().__init__(operands=(dynamic_sizes, symbol_operands), result_types=(result_type,), properties={"alignment": alignment})

    @classmethod
    def get(cls, return_type, alignment=None, shape=None, dynamic_sizes=None, layout=None, memory_space=None):
        if shape is None:
            shape = [1]
        if dynamic_sizes is None:
            dynamic_sizes = []
        if isinstance(alignment, int):
            alignment = IntegerAttr(alignment, 64)
        return cls(tuple(SSAValue.get(ds) for ds in dynamic_sizes), (), MemRefType(return_type, shape, layout, memory_space), alignment)


class CopyOp(Operation):
    def __init__(self, source, destination):
        self._init_op([source, destination], [], [])

    @property
    def source(self):
        return self.operands[0]

    @property
    def destination(self):
        return self.operands[1]


class MemorySpaceCastOp(Operation):
    def __init__(self, source, dest):
        self._init_op([source], [None], [dest])

    @property
    def source(self):
        return self.operands[0]

    @property
    def dest(self):
        return self.results[0]

    @staticmethod
    def from_type_and_target_space(source, type, dest_memory_space):
        from xdsl.dialects.builtin import MemRefType

        dest = MemRefType(type.get_element_type(), type.get_shape(), type.layout, dest_memory_space)
        return MemorySpaceCastOp(source, dest)


class SubviewOp(Operation):
    """structure: source, dynamic offsets / sizes / strides as operands, the static lists as DenseArrayBase-like objects
    (DYNAMIC_INDEX marks an entry given by the next dynamic operand); the result carries no run-time pointer"""

    def __init__(self, source, result_type, offsets=(), sizes=(), strides=(), static_offsets=(), static_sizes=(), static_strides=()):
        self._init_op([source] + list(offsets) + list(sizes) + list(strides), [None], [result_type])
        self._n = (len(list(offsets)), len(list(sizes)), len(list(strides)))
        self.static_offsets = _Static(static_offsets)
        self.static_sizes = _Static(static_sizes)
        self.static_strides = _Static(static_strides)
        self.results[0].rt_ptr = None

    @property
    def source(self):
        return self.operands[0]

    @property
    def offsets(self):
        return tuple(self.operands[1:1 + self._n[0]])

    @property
    def sizes(self):
        return tuple(self.operands[1 + self._n[0]:1 + self._n[0] + self._n[1]])

    @property
    def strides(self):
        return tuple(self.operands[1 + self._n[0] + self._n[1]:])

    @property
    def result(self):
        return self.results[0]


class _Static:
    def __init__(self, data):
        self.data = tuple(data)

    def get_values(self):
        return self.data

    def iter_values(self):
        return iter(self.data)


class GlobalOp(Operation):
    pass


class GetGlobalOp(Operation):
    pass


class DeallocOp(Operation):
    def __init__(self, memref):
        self._init_op([memref], [], [])

    @staticmethod
    def get(memref):
        return DeallocOp(memref)

    @property
    def memref(self):
        return self.operands[0]
