"""Stub of xdsl.pattern_rewriter / xdsl.rewriter: the rewriter is an opaque RECORDER.  Nothing about
the IR is changed; every call is appended to `rewriter.log` as a tuple so that a contract can state
what the pattern asked for."""


class RewritePattern:
    pass


class InsertPoint:
    """kind/anchor: how the point was asked for (what contracts read); block/insert_before: xdsl's own fields"""

    def __init__(self, kind, anchor):
        self.kind = kind
        self.anchor = anchor
        if kind == "before":
            self.block = anchor.parent
            self.insert_before = anchor
        elif kind == "after":
            self.block = anchor.parent
            self.insert_before = anchor.next_op
        elif kind == "at_start":
            self.block = anchor
            self.insert_before = anchor.first_op
        else:
            self.block = anchor
            self.insert_before = None

    @staticmethod
    def before(op):
        return InsertPoint("before", op)

    @staticmethod
    def after(op):
        return InsertPoint("after", op)

    @staticmethod
    def at_start(block):
        return InsertPoint("at_start", block)

    @staticmethod
    def at_end(block):
        return InsertPoint("at_end", block)


def _as_list(x):
    if isinstance(x, (list, tuple)):
        return list(x)
    return [x]


class PatternRewriter:
    def __init__(self, current_operation=None):
        self.current_operation = current_operation
        self.log = []
        self.has_done_action = False

    def _rec(self, *entry):
        self.has_done_action = True
        self.log.append(entry)

    def insert_op(self, ops, insertion_point=None):
        self._rec("insert_op", _as_list(ops), insertion_point)

    def insert_op_before_matched_op(self, ops):
        self._rec("insert_op", _as_list(ops), InsertPoint.before(self.current_operation))

    def insert_op_after_matched_op(self, ops):
        self._rec("insert_op", _as_list(ops), InsertPoint.after(self.current_operation))

    def insert_op_before(self, ops, target):
        self._rec("insert_op", _as_list(ops), InsertPoint.before(target))

    def insert_op_after(self, ops, target):
        self._rec("insert_op", _as_list(ops), InsertPoint.after(target))

    def insert_op_at_start(self, ops, block):
        self._rec("insert_op", _as_list(ops), InsertPoint.at_start(block))

    def insert_op_at_end(self, ops, block):
        self._rec("insert_op", _as_list(ops), InsertPoint.at_end(block))

    def replace_matched_op(self, new_ops, new_results=None, safe_erase=True):
        self._rec("replace_op", self.current_operation, _as_list(new_ops), new_results)

    def replace_op(self, op, new_ops, new_results=None, safe_erase=True):
        self._rec("replace_op", op, _as_list(new_ops), new_results)

    def erase_matched_op(self, safe_erase=True):
        self._rec("erase_op", self.current_operation)

    def erase_op(self, op, safe_erase=True):
        self._rec("erase_op", op)

    def replace_all_uses_with(self, old, new):
        self._rec("replace_all_uses_with", old, new)

    def notify_op_modified(self, op):
        self._rec("notify_op_modified", op)

    def handle_operation_modification(self, op):
        self._rec("notify_op_modified", op)

    def inline_block(self, block, insertion_point, arg_values=()):
        self._rec("inline_block", block, insertion_point, list(arg_values))

    def move_region_contents_to_new_regions(self, region):
        self._rec("move_region", region)
        return region

    def erase_block_argument(self, arg, safe_erase=True):
        self._rec("erase_block_argument", arg)

    def insert_block_argument(self, block, index, typ):
        """performed (the caller goes on using the new argument) and recorded"""
        arg = block.insert_arg(typ, index)
        self._rec("insert_block_argument", block, index, typ, arg)
        return arg


class PerformingPatternRewriter(PatternRewriter):
    """recorder that ALSO performs insertions (and lets Operation.detach() take the op out of its block): for patterns
    whose later steps look at the IR their earlier steps produced (not an xdsl class; contracts ask for it explicitly).
    Everything else (replace / erase / inline) stays recorded only"""

    def __init__(self, current_operation=None):
        PatternRewriter.__init__(self, current_operation)
        import xdsl.ir as _ir

        _ir.PERFORM[0] = True

    def _perform(self, ops, point):
        if point is None:
            point = InsertPoint.before(self.current_operation)
        blk = point.block
        if blk is None:
            return
        for o in ops:
            if getattr(o, "parent", None) is not None:
                o.detach()
        if point.insert_before is None:
            blk.add_ops(ops)
        else:
            blk.insert_ops_before(ops, point.insert_before)

    def insert_op(self, ops, insertion_point=None):
        ops = _as_list(ops)
        self._rec("insert_op", ops, insertion_point)
        self._perform(ops, insertion_point)

    def insert_op_before_matched_op(self, ops):
        self.insert_op(ops, InsertPoint.before(self.current_operation))

    def insert_op_after_matched_op(self, ops):
        self.insert_op(ops, InsertPoint.after(self.current_operation))

    def insert_op_before(self, ops, target):
        self.insert_op(ops, InsertPoint.before(target))

    def insert_op_after(self, ops, target):
        self.insert_op(ops, InsertPoint.after(target))

    def insert_op_at_start(self, ops, block):
        self.insert_op(ops, InsertPoint.at_start(block))

    def insert_op_at_end(self, ops, block):
        self.insert_op(ops, InsertPoint.at_end(block))


def op_type_rewrite_pattern(f):
    return f


WALKER_LOG = []  # (pattern, op or region) for every PatternRewriteWalker(...).rewrite_module / rewrite_region call, in order


class PatternRewriteWalker:
    """recorder: which pattern (object) a pass lets loose on which module; the walk itself is not performed"""

    def __init__(self, pattern=None, *a, **k):
        self.pattern = pattern

    def rewrite_module(self, op):
        WALKER_LOG.append((self.pattern, op))

    def rewrite_region(self, region):
        WALKER_LOG.append((self.pattern, region))


class GreedyRewritePatternApplier(RewritePattern):
    def __init__(self, patterns=(), **k):
        self.rewrite_patterns = list(patterns)


REWRITER_LOG = []  # calls made through the (static) xdsl.rewriter.Rewriter API, in order


class Rewriter:
    """recorder, like PatternRewriter: entries go to the module-level REWRITER_LOG (code under contract creates its own
    Rewriter() instances, so the log cannot live on an instance the contract could reach)"""

    def insert_op(self, ops, insertion_point=None):
        REWRITER_LOG.append(("insert_op", _as_list(ops), insertion_point))

    def erase_op(self, op, safe_erase=True):
        REWRITER_LOG.append(("erase_op", op))

    def replace_op(self, op, new_ops, new_results=None, safe_erase=True):
        REWRITER_LOG.append(("replace_op", op, _as_list(new_ops), new_results))
