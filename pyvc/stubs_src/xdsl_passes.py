class ModulePass:
    pass


class Context:
    pass


class PassPipeline:
    pass
