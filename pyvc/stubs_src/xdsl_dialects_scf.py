"""Stub of xdsl.dialects.scf (structure only; loop semantics live in the contracts)."""
from xdsl.ir import Block, Operation, Region, SSAValue


class YieldOp(Operation):
    def __init__(self, *values):
        self._init_op(values, [], [])

    @property
    def arguments(self):
        return self.operands


class ForOp(Operation):
    def __init__(self, lb, ub, step, iter_args, body):
        iter_args = list(iter_args)
        self._init_op([lb, ub, step] + iter_args, [None for _ in iter_args], [SSAValue.get(a).type for a in iter_args])
        if isinstance(body, Block):
            body = Region([body])
        elif not isinstance(body, Region):
            body = Region([Block(list(body))])
        self.body = body
        self.regions = [body]
        body.parent = self
        self.n_iter_args = len(iter_args)

    @property
    def lb(self):
        return self.operands[0]

    @property
    def ub(self):
        return self.operands[1]

    @property
    def step(self):
        return self.operands[2]

    @property
    def iter_args(self):
        return tuple(self.operands[3:])

    @property
    def res(self):
        return self.results


class IfOp(Operation):
    def __init__(self, cond, return_types=(), true_region=None, false_region=None):
        self._init_op([cond], [None for _ in return_types], list(return_types))
        self.true_region = true_region if isinstance(true_region, Region) else Region([Block(list(true_region or []))])
        self.false_region = false_region if isinstance(false_region, Region) else Region([Block(list(false_region or []))])
        self.regions = [self.true_region, self.false_region]
        self.true_region.parent = self
        self.false_region.parent = self

    @property
    def cond(self):
        return self.operands[0]

    @property
    def output(self):
        return self.results


class ConditionOp(Operation):
    def __init__(self, cond, *args):
        self._init_op([cond] + list(args), [], [])

    @property
    def condition(self):
        return self.operands[0]


class WhileOp(Operation):
    def __init__(self, arguments, result_types, before_region, after_region):
        self._init_op(arguments, [None for _ in result_types], list(result_types))
        self.before_region = before_region if isinstance(before_region, Region) else Region([Block(list(before_region))])
        self.after_region = after_region if isinstance(after_region, Region) else Region([Block(list(after_region))])
        self.regions = [self.before_region, self.after_region]
        self.before_region.parent = self
        self.after_region.parent = self
