"""Stub of xdsl.traits: side-effect freedom is a GHOST flag `pure` on view ops (uninterpreted per op)."""


def is_side_effect_free(op):
    return getattr(op, "pure", False)


class Pure:
    pass


class IsTerminator:
    pass


class SymbolTable:
    @staticmethod
    def insert_or_update(*a, **k):
        return None

    @staticmethod
    def lookup_symbol(*a, **k):
        return None


class MemoryAllocEffect:
    pass
