"""Stub of xdsl.traits: side-effect freedom is a GHOST flag `pure` on view ops (uninterpreted per op)."""


def is_side_effect_free(op):
    return getattr(op, "pure", False)


class Pure:
    """as xdsl's (frozen dataclass) trait objects: all Pure() instances are equal, so `Pure() in op.traits` works"""

    def __eq__(self, other):
        return isinstance(other, Pure)

    def __hash__(self):
        return 7


class IsTerminator:
    pass


class SymbolTable:
    @staticmethod
    def insert_or_update(*a, **k):
        return None

    @staticmethod
    def lookup_symbol(op, name):
        """the op directly inside `op`'s first region whose sym_name property equals `name`"""
        if not isinstance(name, str):
            name = name.string_value() if hasattr(name, "string_value") else name.data
        for r in op.regions:
            for b in r.blocks:
                for o in b.ops:
                    sn = o.properties.get("sym_name") if hasattr(o, "properties") else None
                    if sn is not None and sn.data == name:
                        return o
        return None


class MemoryAllocEffect:
    pass
