"""Stub of xdsl.parser (only the names re-exported from it that code under contract uses)."""
from xdsl.dialects.builtin import *  # xdsl.parser re-exports the builtin names
from xdsl.ir import *  # ... and the core IR names
from xdsl.irdl import *  # ... and the irdl names
from xdsl.ir.affine import *  # ... and the affine names


class AttrParser:
    pass


class Parser:
    pass


class BaseParser:
    pass


class ParserState:
    pass
