"""Stub of xdsl.parser (only the names re-exported from it that code under contract uses)."""
from xdsl.dialects.builtin import MemRefType


class AttrParser:
    pass


class Parser:
    pass


class BaseParser:
    pass


class ParserState:
    pass
