"""Stub of xdsl.parser (only the names re-exported from it that code under contract uses)."""
from xdsl.dialects.builtin import *  # xdsl.parser re-exports the builtin names


class AttrParser:
    pass


class Parser:
    pass


class BaseParser:
    pass


class ParserState:
    pass
