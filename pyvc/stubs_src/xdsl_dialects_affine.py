"""Stub of xdsl.dialects.affine: only affine.min (and affine.apply) as term constructors - the result's denotation is the
minimum (resp. the value) of the map's results on the operands' denotations (dims first, then symbols)."""
from xdsl.dialects.builtin import AffineMapAttr, IndexType
from xdsl.ir import Operation


def _eval(map_attr, operands):
    m = map_attr.data if isinstance(map_attr, AffineMapAttr) else map_attr
    vals = [v.den for v in operands]
    return list(m.eval(vals[: m.num_dims], vals[m.num_dims:]))


class MinOp(Operation):
    def __init__(self, operands, map):
        operands = list(operands)
        self.map = map if isinstance(map, AffineMapAttr) else AffineMapAttr(map)
        rs = _eval(self.map, operands)
        d = rs[0]
        for r in rs[1:]:
            d = r if r < d else d
        self._init_op(operands, [d], [IndexType()])


class ApplyOp(Operation):
    def __init__(self, operands, map):
        operands = list(operands)
        self.map = map if isinstance(map, AffineMapAttr) else AffineMapAttr(map)
        self._init_op(operands, [_eval(self.map, operands)[0]], [IndexType()])
