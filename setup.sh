#!/bin/sh
# Build the overlay interpreter /verif/.venv (py3.12 = /venv's python, plus z3-solver/cvc5/jsonschema from the
# offline wheelhouse, plus /venv's site-packages through a .pth).  Offline; idempotent.
set -e
cd "$(dirname "$0")"
if [ -x .venv/bin/python ] && .venv/bin/python -c "import z3, xdsl, numpy, jsonschema" 2>/dev/null; then
  echo "setup: .venv already usable"; exit 0
fi
rm -rf .venv
/venv/bin/python -m venv .venv
PIP_NO_INDEX=1 .venv/bin/pip install -q --no-index --find-links /opt/veriftools/wheels z3-solver cvc5 jsonschema icontract
SP=$(.venv/bin/python -c "import sysconfig; print(sysconfig.get_paths()['purelib'])")
echo "import site; site.addsitedir('/venv/lib/python3.12/site-packages')" > "$SP/zz_repo_venv.pth"
.venv/bin/python -c "import z3, xdsl, numpy, jsonschema; print('setup ok: z3', z3.get_version_string(), 'xdsl', xdsl.__version__ if hasattr(xdsl,'__version__') else '')"
